/-
C32 — model of attribute Read / Write on Variable nodes.

Code modelled (repository copy, after the `fix:` commit for `UAString::substring`):
* `lib/src/server/services/attribute.rs` : `read_node_value` (order of the checks), `write_node_value`
  (order of the checks), `is_readable`, `is_writable` (Variable/Value arm; every other attribute of
  a node without write mask is not writable), `validate_value_to_write`
* `lib/src/server/address_space/variable.rs` : `value` (range_of on the stored value), `set_value`
  (ByteString → Byte array conversion), `set_value_range`, `set_value_direct`,
  `get_attribute_max_age` (which attributes a variable built without optional attributes has)
* `lib/src/types/variant.rs` : `range_of`, `set_range_of`, `eq_array_type`, `array_data_type`,
  `scalar_data_type`, `to_byte_array`
* `lib/src/types/string.rs`, `byte_string.rs` : `substring`
* `lib/src/types/numeric_range.rs` : `FromStr` / `parse_range` (the regex
  `^([0-9]{1,10})(:([0-9]{1,10}))?$` as a hand matcher over bytes)
* `AddressSpace::is_subtype` over the DataType tree is the fixed table `parentDT` (the harness
  installs exactly these HasSubtype references).

Abstractions: scalars are (builtin type id, integer payload — floats by bit pattern); strings are
their UTF-8 bytes; timestamps are not modelled; the session's effective access level is the
variable's `user_access_level` (as in `Session::effective_user_access_level`).
-/
namespace OpcuaVerif.C32

abbrev Bytes := List Nat

/-- a scalar Variant (also the element of an array) -/
inductive Elem where
  | num (ty : Nat) (x : Int)          -- builtin type id 1..11, payload
  | str (b : Option Bytes)            -- String (12): UTF-8 bytes, `none` = null
  | bstr (b : Option Bytes)           -- ByteString (15)
  | nodeId (n : Nat)                  -- NodeId (17), namespace 0 numeric
  | qname                             -- QualifiedName (20), content irrelevant
  | ltext                             -- LocalizedText (21), content irrelevant
  | opaque (ty : Nat) (tag : Nat)     -- every other scalar kind: DateTime 13, Guid 14, XmlElement 16,
                                      -- ExpandedNodeId 18, StatusCode 19, ExtensionObject 22, DataValue 23,
                                      -- Variant 24, DiagnosticInfo 25; `tag` identifies the payload
deriving Repr, DecidableEq

inductive Val where
  | empty
  | one (e : Elem)
  | arr (ty : Nat) (vals : List Elem) -- single-dimension array, `ty` = value_type
deriving Repr, DecidableEq

/-- `scalar_data_type` of an element (DataTypeId) -/
def Elem.ty : Elem → Nat
  | .num t _ => t
  | .str _ => 12
  | .bstr _ => 15
  | .nodeId _ => 17
  | .qname => 20
  | .ltext => 21
  | .opaque t _ => t

/-- `scalar_data_type` as an option: an ExtensionObject (22) has no data type there (`_ => None`) -/
def Elem.dty (e : Elem) : Option Nat := if e.ty = 22 then none else some e.ty

def Val.scalarTy : Val → Option Nat
  | .one e => e.dty
  | _ => none

/-- `array_data_type`: type of the FIRST element; none for an empty array -/
def Val.arrayTy : Val → Option Nat
  | .arr _ (e :: _) => e.dty
  | _ => none

/-! ### NumericRange -/

inductive NR where
  | none
  | index (i : Nat)
  | range (a b : Nat)
  | multi
deriving Repr, DecidableEq

/-- what the parser guarantees about a range (`min < max`); `range_of` relies on it -/
def NR.wf : NR → Bool
  | .range a b => a < b
  | _ => true

def isDigit (b : Nat) : Bool := 48 ≤ b && b ≤ 57

def digitsVal (ds : Bytes) : Nat := ds.foldl (fun acc d => acc * 10 + (d - 48)) 0

def u32Max : Nat := 4294967295

/-- `[0-9]{1,10}` exactly -/
def isNumTok (ds : Bytes) : Bool := !ds.isEmpty && ds.length ≤ 10 && ds.all isDigit

def splitOn (sep : Nat) : Bytes → List Bytes
  | [] => [[]]
  | b :: rest =>
    if b = sep then [] :: splitOn sep rest
    else match splitOn sep rest with
      | [] => [[b]]
      | p :: ps => (b :: p) :: ps

/-- `NumericRange::parse_range` -/
def parsePart (s : Bytes) : Option NR :=
  match splitOn 58 s with
  | [a] => if isNumTok a ∧ digitsVal a ≤ u32Max then some (.index (digitsVal a)) else none
  | [a, b] =>
    if isNumTok a ∧ isNumTok b ∧ digitsVal a < digitsVal b ∧ digitsVal b ≤ u32Max
    then some (.range (digitsVal a) (digitsVal b)) else none
  | _ => none

/-- `NumericRange::from_str` (MAX_INDICES = 10) -/
def parseRange (s : Bytes) : Option NR :=
  if s.isEmpty then some .none else
  let parts := splitOn 44 s
  if parts.length = 1 then parsePart s
  else if parts.length ≤ 10 then
    (if parts.all fun p => (parsePart p).isSome then some .multi else none)
  else none

/-! ### reading -/

inductive Status where
  | good | badNodeIdUnknown | badAttributeIdInvalid | badIndexRangeInvalid | badIndexRangeNoData
  | badNotReadable | badNotWritable | badWriteNotSupported | badTypeMismatch
deriving Repr, DecidableEq

/-- result of a slicing primitive: value, status error, or a Rust panic -/
inductive Sl (α : Type) where
  | ok (v : α)
  | err (s : Status)
  | panic
deriving Repr, DecidableEq

/-- UTF-8 continuation byte -/
def isCont (b : Nat) : Bool := 128 ≤ b && b < 192

/-- `str::is_char_boundary(i)` on valid UTF-8 -/
def isBoundary (v : Bytes) (i : Nat) : Bool :=
  i = 0 || i = v.length || (match v[i]? with | some b => !isCont b | none => false)

def slice (v : Bytes) (min max : Nat) : Bytes := (v.drop min).take (max + 1 - min)

/-- `UAString::substring`; `checked = false` is the pinned source (`&v[min..=max]` panics inside a
multi-byte character), `checked = true` the repaired one (`v.get(min..=max)` → Err) -/
def strSubstring (checked : Bool) (b : Option Bytes) (min max : Nat) : Sl Elem :=
  match b with
  | none => .err .badIndexRangeNoData
  | some v =>
    if min ≥ v.length then .err .badIndexRangeNoData else
    let max := if max ≥ v.length then v.length - 1 else max
    if min ≤ max + 1 ∧ isBoundary v min ∧ isBoundary v (max + 1) then .ok (.str (some (slice v min max)))
    else if checked then .err .badIndexRangeNoData else .panic

/-- `ByteString::substring` -/
def bstrSubstring (b : Option Bytes) (min max : Nat) : Sl Elem :=
  match b with
  | none => .err .badIndexRangeNoData
  | some v =>
    if min ≥ v.length then .err .badIndexRangeNoData else
    let max := if max ≥ v.length then v.length - 1 else max
    if max + 1 < min then .panic            -- `v[min..=max]`: slice index starts after its end
    else .ok (.bstr (some (slice v min max)))

def liftOne : Sl Elem → Sl Val
  | .ok e => .ok (.one e)
  | .err s => .err s
  | .panic => .panic

/-- `Variant::range_of` -/
def rangeOfWith (checked : Bool) (v : Val) (r : NR) : Sl Val :=
  match r with
  | .none => .ok v
  | .multi => .err .badIndexRangeNoData
  | .index i =>
    (match v with
     | .one (.str b) => liftOne (strSubstring checked b i i)
     | .one (.bstr b) => liftOne (bstrSubstring b i i)
     | .arr ty vals => (match vals[i]? with
        | some e => .ok (.arr ty [e])
        | none => .err .badIndexRangeNoData)
     | _ => .err .badIndexRangeNoData)
  | .range a b =>
    (match v with
     | .one (.str s) => liftOne (strSubstring checked s a b)
     | .one (.bstr s) => liftOne (bstrSubstring s a b)
     | .arr ty vals =>
       if a ≥ vals.length then .err .badIndexRangeNoData
       else if (if b ≥ vals.length then vals.length - 1 else b) + 1 < a then .panic   -- `values[min..=max]`
       else .ok (.arr ty ((vals.drop a).take ((if b ≥ vals.length then vals.length - 1 else b) + 1 - a)))
     | _ => .err .badIndexRangeNoData)

/-! ### variables -/

structure Var where
  dataType : Nat
  rank : Int
  access : Nat            -- user_access_level bits: 1 = CURRENT_READ, 2 = CURRENT_WRITE
  value : Val
deriving Repr, DecidableEq

def canRead (v : Var) : Bool := v.access % 2 = 1
def canWrite (v : Var) : Bool := v.access / 2 % 2 = 1

/-- attributes a variable built without optional attributes answers -/
def varHasAttr (a : Nat) : Bool := [1, 2, 3, 4, 13, 14, 15, 17, 18, 20].contains a

def attrValid (a : Nat) : Bool := 1 ≤ a && a ≤ 27

inductive ReadOut where
  | status (s : Status)           -- no value
  | value (v : Val)               -- Good + value (Value attribute)
  | other                         -- Good, some other attribute (value not modelled)
  | panic
deriving Repr, DecidableEq

/-- `read_node_value` for an existing variable (`none` = the node does not exist) -/
def readWith (checked : Bool) (var : Option Var) (attr : Nat) (range : Bytes) : ReadOut :=
  match var with
  | none => .status .badNodeIdUnknown
  | some v =>
    if !attrValid attr then .status .badAttributeIdInvalid else
    match parseRange range with
    | none => .status .badIndexRangeInvalid
    | some r =>
      if !canRead v then .status .badNotReadable
      else if attr ≠ 13 ∧ r ≠ .none then .status .badIndexRangeNoData
      else if attr = 13 then
        (match rangeOfWith checked v.value r with
         | .ok x => .value x
         | .err s => .status s
         | .panic => .panic)
      else if varHasAttr attr then .other else .status .badAttributeIdInvalid

def read := readWith true

/-! ### writing -/

def parentDT : Nat → Option Nat
  | 1 => some 24 | 12 => some 24 | 15 => some 24 | 26 => some 24 | 17 => some 24 | 20 => some 24 | 21 => some 24
  | 13 => some 24 | 14 => some 24 | 16 => some 24 | 18 => some 24 | 19 => some 24 | 23 => some 24 | 25 => some 24
  | 27 => some 26 | 28 => some 26 | 10 => some 26 | 11 => some 26
  | 2 => some 27 | 4 => some 27 | 6 => some 27 | 8 => some 27
  | 3 => some 28 | 5 => some 28 | 7 => some 28 | 9 => some 28
  | _ => none

/-- `AddressSpace::is_subtype(sub, base)` on the DataType tree -/
def isSubDT : Nat → Nat → Nat → Bool
  | 0, t, base => t == base
  | f + 1, t, base => t == base || (match parentDT t with
      | some p => isSubDT f p base
      | none => false)

def byteArrayRank (r : Int) : Bool := r = -2 || r = -3 || r = 1

/-- `validate_value_to_write` -/
def validate (var : Var) (x : Val) : Bool :=
  match x with
  | .empty => true
  | .one e =>
    (e.ty != 22 && isSubDT 4 e.ty var.dataType) ||
      (match e with
       | .bstr _ => var.dataType = 3 && byteArrayRank var.rank
       | _ => false)
  | .arr _ (e :: _) => e.ty != 22 && isSubDT 4 e.ty var.dataType
  | .arr _ [] => false

/-- `Variant::to_byte_array` applied by `set_value` for Byte arrays -/
def convert (var : Var) (x : Val) : Val :=
  if byteArrayRank var.rank ∧ var.dataType = 3 then
    match x with
    | .one (.bstr none) => .arr 3 []
    | .one (.bstr (some bs)) => .arr 3 (bs.map fun b => .num 3 (Int.ofNat b))
    | _ => x
  else x

/-- the copy loop of `set_range_of` for `Range(min, max)`: element `j` of the result -/
def copyRange (vals other : List Elem) (a b : Nat) : List Elem :=
  vals.mapIdx fun j e =>
    if a ≤ j ∧ j ≤ b then (match other[j - a]? with | some o => o | none => e) else e

/-- `Variant::set_range_of` -/
def setRangeOf (self : Val) (r : NR) (other : Val) : Except Status Val :=
  if self.arrayTy.isNone ∨ other.arrayTy.isNone ∨ self.arrayTy ≠ other.arrayTy then .error .badIndexRangeNoData else
  match other, self with
  | .arr _ ovals, .arr ty vals =>
    (match r with
     | .none => .error .badIndexRangeNoData
     | .multi => .error .badIndexRangeNoData
     | .index i =>
       (match ovals with
        | o :: _ => if i ≥ vals.length then .error .badIndexRangeNoData else .ok (.arr ty (vals.set i o))
        | [] => .error .badIndexRangeNoData)
     | .range a b =>
       if a ≥ vals.length then .error .badIndexRangeNoData else .ok (.arr ty (copyRange vals ovals a b)))
  | _, _ => .error .badIndexRangeNoData

/-- `write_node_value` on an existing variable: status and the variable afterwards.
`x = none` = the DataValue carries no value.  (For a variable without write mask every attribute
other than Value is not writable, so the later `BadWriteNotSupported` arm is unreachable here.) -/
def write (var : Option Var) (attr : Nat) (range : Bytes) (x : Option Val) :
    Status × Option Var :=
  match var with
  | none => (.badNodeIdUnknown, none)
  | some v =>
    if !attrValid attr then (.badAttributeIdInvalid, var) else
    if !(attr = 13 ∧ canWrite v) then (.badNotWritable, var) else
    match parseRange range with
    | none => (.badIndexRangeInvalid, var)
    | some r =>
      match x with
      | none => (.badTypeMismatch, var)
      | some x =>
        if !validate v x then (.badTypeMismatch, var) else
        let x := convert v x
        if r = .none then (.good, some { v with value := x })
        else match setRangeOf v.value r x with
          | .ok nv => (.good, some { v with value := nv })
          | .error s => (s, var)

/-! ### nodes of every class, every attribute -/

/-- a node as far as Read / Write can observe it.  `var` is the variable part (data type, value
rank, user access level, value) — meaningful for Variables, data type / rank also for VariableTypes.
`opt` lists the optional attributes that currently have a value: 5 Description, 7 UserWriteMask,
10 InverseName, 13 Value of a VariableType, 16 ArrayDimensions, 19 MinimumSamplingInterval. -/
structure Node where
  cls : Nat
  var : Var
  writeMask : Option Nat
  opt : List Nat
deriving Repr, DecidableEq

/-- which attributes `get_attribute_max_age` answers, per node class -/
def hasAttr (n : Node) (a : Nat) : Bool :=
  a == 1 || a == 2 || a == 3 || a == 4 || (a == 5 && n.opt.contains 5) || (a == 6 && n.writeMask.isSome) ||
  (a == 7 && n.opt.contains 7) ||
  (match n.cls with
   | 1 => a == 12
   | 2 => a == 13 || a == 14 || a == 15 || a == 17 || a == 18 || a == 20 ||
          (a == 16 && n.opt.contains 16) || (a == 19 && n.opt.contains 19)
   | 4 => a == 21 || a == 22
   | 8 => a == 8
   | 16 => a == 8 || a == 14 || a == 15 || (a == 13 && n.opt.contains 13) || (a == 16 && n.opt.contains 16)
   | 32 => a == 8 || a == 9 || (a == 10 && n.opt.contains 10)
   | 64 => a == 8
   | 128 => a == 11 || a == 12
   | _ => false)

/-- bit of `WriteMask` guarding attribute `a` in `is_writable` (none: never writable) -/
def maskBit (cls a : Nat) : Option Nat :=
  match a with
  | 1 => some 14 | 2 => some 13 | 3 => some 2 | 4 => some 6 | 5 => some 5 | 6 => some 20 | 7 => some 18
  | 8 => some 11 | 9 => some 15 | 10 => some 10 | 11 => some 3 | 12 => some 7
  | 13 => if cls = 16 then some 21 else none
  | 14 => some 4 | 15 => some 19 | 16 => some 1 | 17 => some 0 | 18 => some 16 | 19 => some 12 | 20 => some 9
  | 21 => some 8 | 22 => some 17 | 23 => some 22 | 24 => some 23 | 26 => some 24 | 27 => some 25
  | _ => none

/-- `is_writable` -/
def isWritable (n : Node) (a : Nat) : Bool :=
  if n.cls = 2 ∧ a = 13 then canWrite n.var
  else match n.writeMask, maskBit n.cls a with
    | some m, some b => m / 2 ^ b % 2 = 1
    | _, _ => false

/-- `is_readable`: only variables carry a user access level -/
def isReadable (n : Node) : Bool := if n.cls = 2 then canRead n.var else true

/-- `read_node_value` -/
def readNodeWith (checked : Bool) (node : Option Node) (attr : Nat) (range : Bytes) : ReadOut :=
  match node with
  | none => .status .badNodeIdUnknown
  | some n =>
    if n.cls = 2 ∧ attr = 13 then readWith checked (some n.var) attr range
    else if !attrValid attr then .status .badAttributeIdInvalid
    else match parseRange range with
      | none => .status .badIndexRangeInvalid
      | some r =>
        if !isReadable n then .status .badNotReadable
        else if attr ≠ 13 ∧ r ≠ .none then .status .badIndexRangeNoData
        else if hasAttr n attr then .other else .status .badAttributeIdInvalid

def readNode := readNodeWith true

def isNum (t : Nat) : Val → Bool
  | .one (.num t' _) => t' == t
  | _ => false

def insertOpt (l : List Nat) (a : Nat) : List Nat := if l.contains a then l else a :: l

/-- what a successful `set_attribute` changes, as far as Read / Write can observe it later -/
inductive Upd where
  | nothing
  | dataType (d : Nat)
  | rank (r : Int)
  | access (a : Nat)
  | opt (k : Nat)            -- an optional attribute now has a value
  | mask (m : Nat)
deriving Repr, DecidableEq

def applyUpd (n : Node) : Upd → Node
  | .nothing => n
  | .dataType d => { n with var := { n.var with dataType := d } }
  | .rank r => { n with var := { n.var with rank := r } }
  | .access a => { n with var := { n.var with access := a } }
  | .opt k => { n with opt := insertOpt n.opt k }
  | .mask m => { n with writeMask := some m }

def allU32 (vals : List Elem) : Bool := vals.all fun e => match e with | .num 7 _ => true | _ => false

/-- `set_attribute` of the node classes for an attribute other than a Variable's Value: the class
specific attributes first, then `Base::set_attribute` -/
def setAttr? (cls : Nat) (a : Nat) (x : Val) : Except Status Upd :=
  let mism : Except Status Upd := .error .badTypeMismatch
  let ok : Except Status Upd := .ok .nothing
  let bool := isNum 1 x
  let specific : Option (Except Status Upd) :=
    match cls, a with
    | 2, 14 => some (match x with | .one (.nodeId d) => .ok (.dataType d) | _ => mism)
    | 2, 20 => some (if bool then ok else mism)
    | 2, 15 => some (match x with | .one (.num 6 r) => .ok (.rank r) | _ => mism)
    | 2, 17 => some (if isNum 3 x then ok else mism)
    | 2, 18 => some (match x with | .one (.num 3 b) => .ok (.access (b.toNat % 16)) | _ => mism)
    | 2, 16 => some (match x with | .arr _ vals => if allU32 vals then .ok (.opt 16) else mism | _ => mism)
    | 2, 19 => some (if isNum 11 x then .ok (.opt 19) else mism)
    | 1, 12 => some (if isNum 3 x then ok else mism)
    | 4, 21 => some (if bool then ok else mism)
    | 4, 22 => some (if bool then ok else mism)
    | 8, 8 => some (if bool then ok else mism)
    | 16, 14 => some (match x with | .one (.nodeId d) => .ok (.dataType d) | _ => mism)
    | 16, 8 => some (if bool then ok else mism)
    | 16, 15 => some (match x with | .one (.num 6 r) => .ok (.rank r) | _ => mism)
    | 16, 16 => some (match x with | .arr _ vals => if allU32 vals then .ok (.opt 16) else mism | _ => mism)
    | 32, 9 => some (if bool then ok else mism)
    | 32, 8 => some (if bool then ok else mism)
    | 32, 10 => some (match x with | .one .ltext => .ok (.opt 10) | _ => mism)
    | 64, 8 => some (if bool then ok else mism)
    | 128, 12 => some (if isNum 3 x then ok else mism)
    | 128, 11 => some (if bool then ok else mism)
    | _, _ => none
  match specific with
  | some r => r
  | none =>
    match a with
    | 2 => if isNum 6 x then ok else mism
    | 1 => (match x with | .one (.nodeId _) => ok | _ => mism)
    | 3 => (match x with | .one .qname => ok | _ => mism)
    | 4 => (match x with | .one .ltext => ok | _ => mism)
    | 5 => (match x with | .one .ltext => .ok (.opt 5) | _ => mism)
    | 6 => (match x with | .one (.num 7 m) => .ok (.mask m.toNat) | _ => mism)
    | 7 => (match x with | .one (.num 7 _) => .ok (.opt 7) | _ => mism)
    | _ => .error .badAttributeIdInvalid

/-- status and node after `set_attribute` (an error leaves the node as it is) -/
def setAttribute (n : Node) (a : Nat) (x : Val) : Status × Node :=
  match setAttr? n.cls a x with
  | .ok u => (.good, applyUpd n u)
  | .error st => (st, n)

/-- `write_node_value` for a node of any class.  `rangeNull`: the index range string is null (an
empty, non-null string is "supplied" for a non-Value attribute). -/
def writeNode (node : Option Node) (attr : Nat) (range : Bytes) (rangeNull : Bool) (x : Option Val) :
    Status × Option Node :=
  match node with
  | none => (.badNodeIdUnknown, none)
  | some n =>
    if n.cls = 2 ∧ attr = 13 then
      match write (some n.var) attr range x with
      | (st, some v) => (st, some { n with var := v })
      | (st, none) => (st, node)
    else if !attrValid attr then (.badAttributeIdInvalid, node)
    else if !isWritable n attr then (.badNotWritable, node)
    else if attr ≠ 13 ∧ !rangeNull then (.badWriteNotSupported, node)
    else match parseRange range with
      | none => (.badIndexRangeInvalid, node)
      | some _ =>
        match x with
        | none => (.badTypeMismatch, node)
        | some x =>
          if attr = 13 then (.badAttributeIdInvalid, node)   -- Value of a non-Variable: rejected at set
          else let r := setAttribute n attr x; (r.1, some r.2)

end OpcuaVerif.C32
