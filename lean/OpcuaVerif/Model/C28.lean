/-
C28 — model of `References` (`lib/src/server/address_space/references.rs`): the forward adjacency
`references_map : HashMap<NodeId, Vec<Reference>>` and the reverse lookup
`referenced_by_map : HashMap<NodeId, HashSet<NodeId>>`, with `insert_reference`,
`delete_reference`, `delete_node_references`, `remove_node_from_referenced_nodes`, `has_reference`,
`find_references`, `find_inverse_references` and `reference_type_matches`.

Node ids and reference type ids are natural numbers.  A `HashMap` is an association list read only
through `get` (iteration order of the real map is never observed: everything printed is sorted); a
`HashSet` is a list that is inserted into only when the element is absent.  A `Vec<Reference>`
keeps its order (`push` appends, `retain` filters).
-/
namespace OpcuaVerif.C28

/-- `HashMap<NodeId, V>` -/
abbrev AMap (V : Type) := List (Nat × V)

namespace AMap
variable {V : Type}

def get : AMap V → Nat → Option V
  | [], _ => none
  | (k', v) :: r, k => if k' = k then some v else get r k

/-- `HashMap::remove` -/
def del (m : AMap V) (k : Nat) : AMap V := m.filter (fun e => e.1 != k)

/-- `HashMap::insert` / assignment through `get_mut` -/
def set (m : AMap V) (k : Nat) (v : V) : AMap V := (k, v) :: del m k

end AMap

structure Refs where
  /-- `references_map` : source ↦ [(reference type, target)] -/
  fwd : AMap (List (Nat × Nat))
  /-- `referenced_by_map` : target ↦ {sources} -/
  inv : AMap (List Nat)
deriving Repr, DecidableEq

def empty : Refs := { fwd := [], inv := [] }

/-- `collect::<HashSet<_>>()` of a list: first occurrences -/
def dedup : List Nat → List Nat
  | [] => []
  | x :: r => if r.contains x then dedup r else x :: dedup r

/-- `insert_reference`; `none` = the `panic!` on a self reference -/
def insertRef (s : Refs) (a b t : Nat) : Option Refs :=
  if a = b then none
  else
    let fwd := match s.fwd.get a with
      | some l => if l.contains (t, b) then s.fwd else s.fwd.set a (l ++ [(t, b)])
      | none => s.fwd.set a [(t, b)]
    let inv := match s.inv.get b with
      | some l => if l.contains a then s.inv else s.inv.set b (l ++ [a])
      | none => s.inv.set b [a]
    some { fwd := fwd, inv := inv }

/-- first half of the closure in `remove_node_from_referenced_nodes`: drop every reference held by
`c` whose target is `n`; the entry goes when its vector becomes empty -/
def unrefOne (s : Refs) (c n : Nat) : Refs :=
  match s.fwd.get c with
  | some l =>
    let l' := l.filter (fun r => r.2 != n)
    if l'.isEmpty then { s with fwd := s.fwd.del c } else { s with fwd := s.fwd.set c l' }
  | none => s

/-- second half: `n` no longer counts as a node that refers to `c` -/
def unlinkOne (s : Refs) (c n : Nat) : Refs :=
  match s.inv.get c with
  | some l =>
    let l' := l.filter (fun x => x != n)
    if l'.isEmpty then { s with inv := s.inv.del c } else { s with inv := s.inv.set c l' }
  | none => s

/-- `remove_node_from_referenced_nodes(nodes_to_check, node_to_remove)` -/
def removeFrom (s : Refs) (cs : List Nat) (n : Nat) : Refs :=
  cs.foldl (fun s c => unlinkOne (unrefOne s c n) c n) s

/-- the loop `delete_reference` runs since the `fix:` commit: only the reverse lookup is repaired -/
def unlinkFrom (s : Refs) (cs : List Nat) (n : Nat) : Refs :=
  cs.foldl (fun s c => unlinkOne s c n) s

/-- `delete_reference`.  `crossDelete = true` is the pinned source, which handed the no longer
referenced targets to `remove_node_from_referenced_nodes` and so also dropped every reference
from the target back to the source; `false` is the source after the `fix:` commit. -/
def deleteRefWith (crossDelete : Bool) (s : Refs) (a b t : Nat) : Refs × Bool :=
  match s.fwd.get a with
  | none => (s, false)
  | some l =>
    let hit := fun (r : Nat × Nat) => r.1 == t && r.2 == b
    let before := l.map (fun r => r.2)
    let l' := l.filter (fun r => !hit r)
    let deleted := l.any hit
    let after := l'.map (fun r => r.2)
    let difference := dedup (before.filter (fun x => !after.contains x))
    -- `references` is a `get_mut` borrow: the shortened vector is already in the map
    let s1 : Refs := { s with fwd := s.fwd.set a l' }
    let s2 := if crossDelete then removeFrom s1 difference a else unlinkFrom s1 difference a
    let s3 : Refs := if l'.isEmpty then { s2 with fwd := s2.fwd.del a } else s2
    (s3, deleted)

/-- the current source -/
def deleteRef := deleteRefWith false

/-- `delete_node_references` -/
def deleteNodeRefs (s : Refs) (n : Nat) : Refs × Bool :=
  let d1 := (s.fwd.get n).isSome
  let s1 : Refs := match s.fwd.get n with
    | some l => removeFrom { s with fwd := s.fwd.del n } (dedup (l.map (fun r => r.2))) n
    | none => s
  let d2 := (s1.inv.get n).isSome
  let s2 : Refs := match s1.inv.get n with
    | some srcs => removeFrom { s1 with inv := s1.inv.del n } srcs n
    | none => s1
  (s2, d1 || d2)

/-- `has_reference` -/
def hasRef (s : Refs) (a b t : Nat) : Bool :=
  match s.fwd.get a with
  | some l => l.contains (t, b)
  | none => false

/-- The `HasSubtype` reference type (`i=45`); its references between reference type nodes are what
`reference_type_matches` walks. -/
def hasSubtype : Nat := 45

/-- `reference_type_matches`: the explicit stack of the `while let Some(current) = stack.pop()`
loop, one iteration per unit of fuel; `none` = fuel exhausted (the real loop does not terminate on a
`HasSubtype` cycle that does not reach `sub`). -/
def subtypeSearch (s : Refs) (sub : Nat) : Nat → List Nat → Option Bool
  | 0, _ => none
  | _ + 1, [] => some false
  | fuel + 1, cur :: rest =>
    if sub = cur then some true
    else match s.fwd.get cur with
      | some l =>
        let subtypes := (l.filter (fun r => r.1 == hasSubtype)).map (fun r => r.2)
        if subtypes.contains sub then some true
        -- `stack.append(&mut subtypes)` pushes them so that the last one is popped first
        else subtypeSearch s sub fuel (subtypes.reverse ++ rest)
      | none => subtypeSearch s sub fuel rest

def typeMatches (s : Refs) (fuel : Nat) (ty sub : Nat) (includeSubtypes : Bool) : Option Bool :=
  if ty = sub then some true
  else if includeSubtypes then subtypeSearch s sub fuel [ty]
  else some false

/-- reference filter of the `find_*` functions: `none`, or (type, include_subtypes) -/
abbrev Filter := Option (Nat × Bool)

/-- `filter_references_by_type`; `none` = the subtype search ran out of fuel -/
def filterByType (s : Refs) (fuel : Nat) (f : Filter) : List (Nat × Nat) → Option (List (Nat × Nat))
  | [] => some []
  | r :: rest =>
    match f with
    | none => some (r :: rest)
    | some (ty, incl) =>
      match typeMatches s fuel ty r.1 incl, filterByType s fuel f rest with
      | some true, some out => some (r :: out)
      | some false, some out => some out
      | _, _ => none

/-- `find_references`: outer `none` = out of fuel, inner `none` = the function returned `None` -/
def findRefs (s : Refs) (fuel : Nat) (a : Nat) (f : Filter) : Option (Option (List (Nat × Nat))) :=
  match s.fwd.get a with
  | some l =>
    match filterByType s fuel f l with
    | some out => some (if out.isEmpty then none else some out)
    | none => none
  | none => some none

/-- the references of `src` that point at `b`, turned round: (type, src) -/
def backRefs (s : Refs) (b src : Nat) : List (Nat × Nat) :=
  match s.fwd.get src with
  | some l => (l.filter (fun r => r.2 == b)).map (fun r => (r.1, src))
  | none => []

def findInvAux (s : Refs) (fuel : Nat) (b : Nat) (f : Filter) : List Nat → Option (List (Nat × Nat))
  | [] => some []
  | src :: rest =>
    match filterByType s fuel f (backRefs s b src), findInvAux s fuel b f rest with
    | some x, some y => some (x ++ y)
    | _, _ => none

/-- `find_inverse_references` -/
def findInv (s : Refs) (fuel : Nat) (b : Nat) (f : Filter) : Option (Option (List (Nat × Nat))) :=
  match s.inv.get b with
  | some srcs =>
    match findInvAux s fuel b f srcs with
    | some out => some (if out.isEmpty then none else some out)
    | none => none
  | none => some none

/-- `References::insert(source, &[(node, type, direction)])`: an inverse entry flips the two nodes.
`none` = the self reference panic of `insert_reference` -/
def insertMany (s : Refs) (src : Nat) : List (Nat × Nat × Bool) → Option Refs
  | [] => some s
  | (node, t, inverse) :: rest =>
    match (if inverse then insertRef s node src t else insertRef s src node t) with
    | some s' => insertMany s' src rest
    | none => none

/-- `insert_references(&[(source, target, type)])`: every entry is inserted, one after the other,
whether or not earlier entries already existed.  `none` = the self reference panic. -/
def insertRefs (s : Refs) : List (Nat × Nat × Nat) → Option Refs
  | [] => some s
  | (a, b, t) :: rest =>
    match insertRef s a b t with
    | some s' => insertRefs s' rest
    | none => none

/-- `BrowseDirection` -/
inductive Dir where
  | forward | inverse | both | invalid
deriving Repr, DecidableEq

/-- `find_references_by_direction`: the references (forward ones first) and the index at which the
inverse ones start; outer `none` = the subtype walk ran out of fuel -/
def findByDirection (s : Refs) (fuel : Nat) (n : Nat) (d : Dir) (f : Filter) :
    Option (List (Nat × Nat) × Nat) :=
  match d with
  | .forward => match findRefs s fuel n f with
    | some r => some (r.getD [], (r.getD []).length)
    | none => none
  | .inverse => match findInv s fuel n f with
    | some r => some (r.getD [], 0)
    | none => none
  | .both => match findRefs s fuel n f, findInv s fuel n f with
    | some r1, some r2 => some (r1.getD [] ++ r2.getD [], (r1.getD []).length)
    | _, _ => none
  | .invalid => some ([], 0)

def typeDefRef : Nat := 40

/-- `get_type_id`: the target of the node's first HasTypeDefinition reference -/
def getTypeId (s : Refs) (n : Nat) : Option Nat :=
  match s.fwd.get n with
  | some l => (l.find? (fun r => r.1 == typeDefRef)).map (fun r => r.2)
  | none => none

end OpcuaVerif.C28
