import OpcuaVerif.Model.C12

/-
C12 / C10, client side — model of the client's receive path
(`lib/src/client/transport/core.rs`): `TransportState::process_chunk` (lookup of the pending request
by the chunk's request id, Intermediate: push + `max_pending_incoming` check, FinalError: drop the
request, Final: push, `merge_chunks`, `turn_received_chunks_into_message`), `merge_chunks` (stable
sort by sequence number, keep the consecutive run that starts at the smallest number, skip the
rest), and the `last_received_sequence_number` update through `Chunker::validate_chunks`
(`C12.recvWith`).  Policy-None channel; every chunk body carries a complete response so that
`Chunker::decode` succeeds iff the final/intermediate flags of the merged chunks are in order.

`fixed = false`: pinned source (`expect_sequence_number += 1` and `last + 1` unchecked);
`fixed = true`: after the `fix:` commits (wrapping add in `merge_chunks`, checked `last + 1`).
-/
namespace OpcuaVerif.C12
open OpcuaVerif.C11

/-- a chunk kept for a pending request -/
structure CC where
  ci : CI
  fin : Fin
deriving Repr, DecidableEq

/-- stable insertion by sequence number (`sort_by` is stable) -/
def insertBySeq (c : CC) : List CC → List CC
  | [] => [c]
  | d :: r => if c.ci.seq < d.ci.seq then c :: d :: r else d :: insertBySeq c r

def sortBySeq (l : List CC) : List CC := l.foldl (fun acc c => insertBySeq c acc) []

/-- the `for c in chunks` loop of `merge_chunks`; `none` = u32 overflow panic (pinned source) -/
def mergeLoop (fixed : Bool) : Nat → List CC → Option (List CC)
  | _, [] => some []
  | expect, c :: r =>
    if c.ci.seq ≠ expect then mergeLoop fixed expect r          -- "may be duplicate chunk"
    else
      let next : Option Nat :=
        if expect + 1 < 4294967296 then some (expect + 1) else if fixed then some 0 else none
      match next with
      | none => none
      | some e => (mergeLoop fixed e r).map (c :: ·)

/-- `merge_chunks` -/
def mergeChunks (fixed : Bool) (chunks : List CC) : Option (List CC) :=
  if chunks.length = 1 then some chunks
  else
    match sortBySeq chunks with
    | [] => none                                                -- `first().unwrap()` (unreachable)
    | c0 :: r => mergeLoop fixed c0.ci.seq (c0 :: r)

/-- `Chunker::decode` accepts the flags iff only the last chunk is Final -/
def flagsOk : List CC → Bool
  | [] => false
  | [c] => c.fin = .final
  | c :: r => c.fin = .intermediate && flagsOk r

structure Cli where
  maxPending : Nat                     -- max_pending_incoming (0 = no limit)
  chanId : Nat
  last : Nat                           -- last_received_sequence_number
  states : List (Nat × List CC)        -- message_states: request id ↦ chunks received so far
  nextReq : Nat                        -- SendBuffer.last_request_id
  closed : Bool
deriving Repr, DecidableEq

def Cli.init (maxPending chanId : Nat) : Cli :=
  { maxPending := maxPending, chanId := chanId, last := 0, states := [], nextReq := 1000, closed := false }

def lookupReq (r : Nat) : List (Nat × List CC) → Option (List CC)
  | [] => none
  | (k, v) :: t => if k = r then some v else lookupReq r t

def eraseReq (r : Nat) (l : List (Nat × List CC)) : List (Nat × List CC) := l.filter (·.1 ≠ r)

def setReq (r : Nat) (v : List CC) (l : List (Nat × List CC)) : List (Nat × List CC) :=
  l.map fun p => if p.1 = r then (p.1, v) else p

/-- a request is handed to the transport (`wait_for_outgoing_message`) -/
def Cli.request (s : Cli) : Cli × Nat :=
  ({ s with nextReq := s.nextReq + 1, states := s.states ++ [(s.nextReq + 1, [])] }, s.nextReq + 1)

inductive COut where
  | ignored                          -- no pending request with that id
  | stored
  | dropped (code : String)          -- the request fails with `code`, the connection goes on
  | aborted                          -- FinalError: the request fails with BadCommunicationError
  | completed (req : Nat)
  | closedErr (code : String)        -- process_chunk returned Err: the transport closes
  | closed
  | panic
deriving Repr, DecidableEq

/-- `TransportState::process_chunk` -/
def Cli.chunk (fixed : Bool) (s : Cli) (ci : CI) (f : Fin) : Cli × COut :=
  if s.closed then (s, .closed) else
  match lookupReq ci.req s.states with
  | none => (s, .ignored)
  | some chunks =>
    match f with
    | .intermediate =>
      let chunks' := chunks ++ [⟨ci, f⟩]
      if s.maxPending > 0 ∧ chunks'.length > s.maxPending then
        ({ s with states := eraseReq ci.req s.states }, .dropped "BadEncodingLimitsExceeded")
      else ({ s with states := setReq ci.req chunks' s.states }, .stored)
    | .abort => ({ s with states := eraseReq ci.req s.states }, .aborted)
    | .final =>
      let s1 := { s with states := eraseReq ci.req s.states }
      match mergeChunks fixed (chunks ++ [⟨ci, f⟩]) with
      | none => (s, .panic)
      | some ret =>
        match recvWith fixed s.last s.chanId (ret.map fun c => some c.ci) with
        | .panic => (s, .panic)
        | .err e => ({ s1 with closed := true }, .closedErr e)
        | .ok last' =>
          if flagsOk ret then ({ s1 with last := last' }, .completed ci.req)
          else ({ s1 with last := last', closed := true }, .closedErr "BadDecodingError")

end OpcuaVerif.C12
