import OpcuaVerif.Model.SrvConn

/-
C15 — the model of one server connection lives in `Model/SrvConn.lean` (shared with C10 and C12):
reading loop, `process_hello`, `process_chunk` / `process_final_chunk` for every chunk type
(MSG / OPN / CLO) and flag (C / F / A), `open_secure_channel` Issue / Renew, `close_secure_channel`,
service dispatch.  `guarded = false` there is the pinned source (no "MSG needs an issued channel"
guard).
-/
namespace OpcuaVerif.C15
export OpcuaVerif.SrvConn (Conn Frame Out step run)
end OpcuaVerif.C15
