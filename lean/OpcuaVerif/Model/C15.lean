import OpcuaVerif.Model.C12

/-
C15 — model of one server connection (`lib/src/server/comms/tcp_transport.rs`,
`secure_channel_service.rs`): the reading loop of `spawn_reading_loop_task` (`wait_for_hello`, then
only chunks; the first `Err` ends the loop), `process_hello`, `process_chunk` /
`process_final_chunk` dispatch for single-chunk OPN / MSG / CLO frames with valid contents on a
policy-None channel, `SecureChannelService::open_secure_channel` (Issue / Renew, `issued`,
channel-id and token-id counters) and `close_secure_channel`.

`guarded = false` is the pinned source (a MSG is dispatched to the service layer whether or not a
channel was issued), `guarded = true` the tree after the `fix:` commit (MSG before an Issue →
`BadTcpSecureChannelUnknown`, connection closed).
-/
namespace OpcuaVerif.C15
open OpcuaVerif.C11 OpcuaVerif.C12

inductive Phase where
  | waitingHello | processing | closed
deriving Repr, DecidableEq

structure Conn where
  phase : Phase
  issued : Bool              -- SecureChannelState.issued
  chanId : Nat               -- secure_channel.secure_channel_id()
  lastChanId : Nat           -- SecureChannelState.last_secure_channel_id
  tokenId : Nat              -- last_token_id
  lastSeq : Nat              -- last_received_sequence_number
deriving Repr, DecidableEq

def Conn.init : Conn :=
  { phase := .waitingHello, issued := false, chanId := 0, lastChanId := 0, tokenId := 0, lastSeq := 0 }

/-- contents of a HEL frame, as far as `process_hello` distinguishes them -/
inductive HelKind where
  | valid | badUrl | smallBuffers | protocol1
deriving Repr, DecidableEq

inductive Service where
  | getEndpoints | createSession
deriving Repr, DecidableEq

/-- one frame delivered by the codec -/
inductive Frame where
  | hel (k : HelKind)
  | ack                                  -- an ACK or ERR frame sent *to* the server
  | opn (renew : Bool) (c : CI)
  | msg (s : Service) (c : CI)
  | clo (c : CI)
deriving Repr, DecidableEq

/-- what the connection queues for the writer / how it ends -/
inductive Out where
  | ack
  | opnResponse (chan token req : Nat)
  | service (s : Service) (req : Nat)    -- a response produced by the service layer
  | closeErr (code : String)             -- Err(code): the loop ends, nothing is sent
  | ignored                              -- the connection is already closed: the frame is never read
deriving Repr, DecidableEq

def closeWith (c : Conn) (code : String) : Conn × Out := ({ c with phase := .closed }, .closeErr code)

/-- `process_hello` -/
def processHello (c : Conn) : HelKind → Conn × Out
  | .valid => ({ c with phase := .processing }, .ack)
  | .badUrl => closeWith c "BadTcpEndpointUrlInvalid"
  | .smallBuffers => closeWith c "BadCommunicationError"
  | .protocol1 => closeWith c "BadProtocolVersionUnsupported"

/-- `turn_received_chunks_into_message` for a single-chunk message: sequence / channel id check -/
def seqCheck (c : Conn) (ci : CI) : Conn ⊕ String :=
  match recv c.lastSeq c.chanId [some ci] with
  | .ok l => .inl { c with lastSeq := l }
  | .err e => .inr e
  | .panic => .inr "panic"     -- unreachable (`recv_total`)

/-- `process_chunk` → `process_final_chunk` for a final, single chunk -/
def processChunk (guarded : Bool) (c : Conn) : Frame → Conn × Out
  | .opn renew ci =>
    match seqCheck c ci with
    | .inr e => closeWith c e
    | .inl c1 =>
      if renew then
        if ¬ c1.issued then closeWith c1 "BadUnexpectedError"
        else
          let c2 := { c1 with tokenId := c1.tokenId + 1 }
          (c2, .opnResponse c2.chanId c2.tokenId ci.req)
      else
        let c2 := { c1 with issued := true, lastChanId := c1.lastChanId + 1, chanId := c1.lastChanId + 1,
                            tokenId := c1.tokenId + 1 }
        (c2, .opnResponse c2.chanId c2.tokenId ci.req)
  | .msg s ci =>
    -- the guard sits at the top of `process_final_chunk`, before validation and decoding
    if guarded ∧ ¬ c.issued then closeWith c "BadTcpSecureChannelUnknown"
    else
      match seqCheck c ci with
      | .inr e => closeWith c e
      | .inl c1 => (c1, .service s ci.req)
  | .clo ci =>
    match seqCheck c ci with
    | .inr e => closeWith c e
    | .inl c1 => closeWith c1 "BadConnectionClosed"
  | _ => closeWith c "BadCommunicationError"   -- not a chunk (handled by the loop, see `stepWith`)

/-- one iteration of the reading loop -/
def stepWith (guarded : Bool) (c : Conn) (f : Frame) : Conn × Out :=
  match c.phase with
  | .closed => (c, .ignored)
  | .waitingHello =>
    match f with
    | .hel k => processHello c k
    | _ => closeWith c "BadCommunicationError"      -- "Expected a hello message"
  | .processing =>
    match f with
    | .hel _ => closeWith c "BadCommunicationError"  -- "Received unexpected message"
    | .ack => closeWith c "BadCommunicationError"
    | f => processChunk guarded c f

/-- the source as it is now (after the fix) -/
def step := stepWith true

def runWith (guarded : Bool) : Conn → List Frame → List Out
  | _, [] => []
  | c, f :: fs => (stepWith guarded c f).2 :: runWith guarded (stepWith guarded c f).1 fs

def run := runWith true

end OpcuaVerif.C15
