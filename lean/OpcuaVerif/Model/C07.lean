import OpcuaVerif.Model.C09

/-!
C07 — model of the SENDING side of the chunk layer, to be composed with the receive path of
`OpcuaVerif.Model.C09`:

* `Chunker::encode`                       (lib/src/core/comms/chunker.rs:106)  → `encode`
* `MessageChunk::new`                     (message_chunk.rs:185)               → `newChunk`
* `MessageChunk::body_size_from_message_size` (message_chunk.rs:237)           → `maxBody`
* `SecureChannel::make_security_header / signature_size / minimum_padding / padding_size`
  (secure_channel.rs:237-455)                                                   → `secHdr`, `sigSize`, `paddingSize`
* `add_space_for_padding_and_signature`, `apply_security`, `asymmetric_sign_and_encrypt`,
  `symmetric_sign_and_encrypt`, `KeySize::calculate_cipher_text_size`, `PublicKey::public_encrypt`
  (block loop)                                                                  → `addPadSig`, `applySecurity`, `rsaEncAll`
* `ChunkInfo::new` (body offset / length) and the reassembly + final-flag check of `Chunker::decode`
                                                                                → `bodyOf`, `reassemble`

The message itself is an opaque byte string `data` (node id + encoded message: the codec is C01's
subject).  Crypto primitives of the sender are the parameter `SCrypto`.
-/
namespace OpcuaVerif.C07
open OpcuaVerif.C09

/-- the sending channel as far as the send path reads it (own certificate and the receiver's
certificate are present whenever the policy is not None — `make_security_header` / `padding_size`
`unwrap` them) -/
structure Sender where
  policy : Policy
  mode : Mode
  isClient : Bool
  chanId : Nat
  tokenId : Nat
  /-- DER bytes of our certificate -/
  cert : Bytes
  /-- size in bytes of our key (= asymmetric signature size) -/
  ownKey : Nat
  /-- size in bytes of the receiver's public key -/
  remoteKey : Nat
  /-- thumbprint of the receiver's certificate (20 bytes) -/
  thumb : Bytes
deriving Repr, DecidableEq

/-- the sender's primitives -/
structure SCrypto where
  mac : Policy → Bytes → Bytes
  aesEnc : Bytes → Bytes
  rsaSign : Policy → Bytes → Bytes
  /-- RSA encryption of one plain-text block (index, block) to one cipher-text block -/
  rsaEnc : Policy → Nat → Bytes → Bytes

inductive Fin where
  | intermediate | final
deriving Repr, DecidableEq

def Fin.byte : Fin → Nat
  | .intermediate => 67
  | .final => 70

def _root_.OpcuaVerif.C09.MType.code : MType → Bytes
  | .msg => [77, 83, 71]
  | .opn => [79, 80, 78]
  | .clo => [67, 76, 79]

def fld (b : Bytes) : Bytes := u32le b.length ++ b
def nullFld : Bytes := [255, 255, 255, 255]

/-- `make_security_header(..).encode` -/
def secHdr (s : Sender) (t : MType) : Bytes :=
  match t with
  | .opn =>
    if s.policy = .none then fld Policy.none.uri ++ nullFld ++ nullFld
    else fld s.policy.uri ++ fld s.cert ++ fld s.thumb
  | _ => u32le s.tokenId

/-- `signature_size` -/
def sigSize (s : Sender) (t : MType) : Nat :=
  match t with
  | .opn => if s.policy = .none then 0 else s.ownKey
  | _ => s.policy.symSig

/-- bytes RSA padding costs per block: `plain_text_block_size = size - overhead` -/
def _root_.OpcuaVerif.C09.Policy.rsaOverhead : Policy → Nat
  | .b128 => 11
  | .a256 => 66
  | _ => 42

/-- plain-text block size and "key length" used by `padding_size` -/
def blockAndKey (s : Sender) (t : MType) : Nat × Nat :=
  match t with
  | .opn => (s.remoteKey - s.policy.rsaOverhead, s.remoteKey)
  | _ => (16, s.policy.symSig)

def minPadding (keyLen : Nat) : Nat := if keyLen ≤ 256 then 1 else 2

/-- repaired defects of the send path (`true` = current source) -/
structure SFixes where
  /-- MSG/CLO chunks are padded only in SignAndEncrypt mode -/
  signNoPad : Bool
  /-- `body_size_from_message_size` shrinks the body until the padded chunk fits -/
  budget : Bool
deriving Repr, DecidableEq

def SFixes.pinned : SFixes := ⟨false, false⟩
def SFixes.current : SFixes := ⟨true, true⟩

/-- `padding_size` : (padding bytes including the length byte(s), minimum padding) -/
def paddingSizeW (X : SFixes) (s : Sender) (t : MType) (body : Nat) : Nat × Nat :=
  if s.policy ≠ .none ∧ s.mode ≠ .none then
    if X.signNoPad ∧ t ≠ .opn ∧ s.mode ≠ .signEncrypt then (0, 0) else
    let (ptbs, keyLen) := blockAndKey s t
    let mp := minPadding keyLen
    let es := 8 + body + sigSize s t + mp
    let pad := if es % ptbs ≠ 0 then ptbs - es % ptbs else 0
    (mp + pad, mp)
  else (0, 0)

def paddingSize := paddingSizeW SFixes.current

/-- `MessageChunk::new` -/
def chunkWith (s : Sender) (t : MType) (f : Fin) (size seq req : Nat) (body : Bytes) : Bytes :=
  t.code ++ [f.byte] ++ u32le size ++ u32le s.chanId ++ secHdr s t ++ u32le seq ++ u32le req ++ body

def newChunk (s : Sender) (t : MType) (f : Fin) (seq req : Nat) (body : Bytes) : Bytes :=
  chunkWith s t f (12 + (secHdr s t).length + 8 + body.length) seq req body

inductive EncRes where
  | chunks (cs : List Bytes)
  | err (tooLarge : Bool)        -- `true` = Bad{Request,Response}TooLarge, `false` = BadTcpInternalError
  | panic
deriving Repr, DecidableEq

/-- everything of a chunk that is not body: headers + padding of a 1-byte body + signature -/
def overheadW (X : SFixes) (s : Sender) (t : MType) : Nat :=
  12 + (secHdr s t).length + 8 + (paddingSizeW X s t 1).1 + sigSize s t

def overhead := overheadW SFixes.current

/-- the `while` loop of `body_size_from_message_size`: largest body ≤ the start value that `fits` (or 0) -/
def shrink (fits : Nat → Bool) : Nat → Nat
  | 0 => 0
  | b + 1 => if fits (b + 1) then b + 1 else shrink fits b

/-- headers + body + its padding + signature -/
def paddedSizeW (X : SFixes) (s : Sender) (t : MType) (body : Nat) : Nat :=
  12 + (secHdr s t).length + 8 + body + (paddingSizeW X s t body).1 + sigSize s t

/-- `body_size_from_message_size`: `none` = error (below `MIN_CHUNK_SIZE`) -/
def maxBodyW (X : SFixes) (s : Sender) (t : MType) (maxChunk : Nat) : Option Nat :=
  if maxChunk < 8196 then none
  else if X.budget then
    some (shrink (fun b => decide (paddedSizeW X s t b ≤ maxChunk)) (maxChunk - overheadW X s t))
  else some (maxChunk - overheadW X s t)

def maxBody := maxBodyW SFixes.current

/-- `data.chunks(n)` with the running index; `fuel` ≥ length -/
def split (n : Nat) : Nat → Bytes → List Bytes
  | 0, _ => []
  | _, [] => []
  | f + 1, d@(_ :: _) => d.take n :: split n f (d.drop n)

def mkChunks (s : Sender) (t : MType) (seq req : Nat) : Nat → List Bytes → List Bytes
  | _, [] => []
  | i, [b] => [newChunk s t .final (seq + i) req b]
  | i, b :: bs => newChunk s t .intermediate (seq + i) req b :: mkChunks s t seq req (i + 1) bs

/-- `Chunker::encode` after the message has been serialised: `msgLen` = `byte_len()` of the message
alone, `data` = node id ++ message -/
def encodeW (X : SFixes) (s : Sender) (t : MType) (seq req maxMsg maxChunk msgLen : Nat) (data : Bytes) : EncRes :=
  if maxMsg > 0 ∧ msgLen > maxMsg then .err true
  else if maxChunk > 0 then
    match maxBodyW X s t maxChunk with
    | none => .err false
    | some mb =>
      if maxChunk < overheadW X s t then .panic           -- usize underflow
      else if mb = 0 then .panic                       -- `chunks(0)`
      else .chunks (mkChunks s t seq req 0 (split mb data.length data))
  else .chunks [newChunk s t .final seq req data]

def encode := encodeW SFixes.current

/-- padding bytes as written by `add_space_for_padding_and_signature` -/
def padBytes (ps mp : Nat) : Bytes :=
  if ps = 0 then []
  else if mp = 1 then List.replicate ps ((ps - 1) % 256)
  else List.replicate (ps - 1) ((ps - 2) % 256) ++ [(ps - 2) / 256 % 256]

/-- `add_space_for_padding_and_signature`; `hdr` = offset of the body -/
def addPadSigW (X : SFixes) (s : Sender) (t : MType) (chunk : Bytes) : Bytes :=
  let hdr := 12 + (secHdr s t).length + 8
  let (ps, mp) := paddingSizeW X s t (chunk.length - hdr)
  let d := chunk ++ padBytes ps mp ++ List.replicate (sigSize s t) 0
  setSize d d.length

/-- the block loop of `PublicKey::public_encrypt` -/
def rsaEncAll (SC : SCrypto) (p : Policy) (ptbs : Nat) : Nat → Nat → Bytes → Bytes
  | 0, _, _ => []
  | _, _, [] => []
  | f + 1, i, d@(_ :: _) => SC.rsaEnc p i (d.take ptbs) ++ rsaEncAll SC p ptbs f (i + 1) (d.drop ptbs)

def secured (s : Sender) : Prop := s.policy ≠ .none ∧ (s.mode = .sign ∨ s.mode = .signEncrypt)

instance (s : Sender) : Decidable (secured s) := by unfold secured; infer_instance

/-- `apply_security` (destination buffer assumed large enough) -/
def applySecurityW (X : SFixes) (SC : SCrypto) (s : Sender) (t : MType) (chunk : Bytes) : Bytes :=
  if secured s then
    let d := addPadSigW X s t chunk
    let start := 12 + (secHdr s t).length
    match t with
    | .opn =>
      let ptbs := s.remoteKey - s.policy.rsaOverhead
      let signedLen := d.length - s.ownKey
      let plainLen := d.length - start
      let blocks := if plainLen % ptbs = 0 then plainLen / ptbs else plainLen / ptbs + 1
      let tmp := setSize (d.take signedLen) (start + blocks * s.remoteKey)
      let plain := (tmp ++ SC.rsaSign s.policy tmp).drop start
      tmp.take start ++ rsaEncAll SC s.policy ptbs plain.length 0 plain
    | _ =>
      let signed := d.take (d.length - s.policy.symSig)
      let full := signed ++ SC.mac s.policy signed
      if s.mode = .signEncrypt then full.take 16 ++ SC.aesEnc (full.drop 16) else full
  else chunk

def applySecurity := applySecurityW SFixes.current

/-! ### receiver side above `verify_and_remove_security` -/

/-- `ChunkInfo::new`: final flag and body (`data[body_offset..]`) of a verified chunk -/
def bodyOf (ch : Chan) (d : Bytes) : Option (Nat × Bytes) :=
  match rdHeader d with
  | none => none
  | some (.opn, _, rest) =>
    match rdAsym ch rest with
    | none => none
    | some (ah, rest') =>
      if (policyOfUri ah.uri.bytes).isNone ∧ ah.uri ≠ .null then none
      else if rest'.length < 8 then none else some ((d.drop 3).headD 0, rest'.drop 8)
  | some (_, _, rest) => if rest.length < 12 then none else some ((d.drop 3).headD 0, rest.drop 12)

/-- the body-collecting part of `Chunker::decode`: flags must be C…CF; `none` = error -/
def reassemble (ch : Chan) : List Bytes → Option Bytes
  | [] => some []
  | [d] => match bodyOf ch d with
    | some (70, b) => some b
    | _ => none
  | d :: ds => match bodyOf ch d with
    | some (67, b) => (reassemble ch ds).map (b ++ ·)
    | _ => none

/-- receive all chunks in order (`none` = some chunk was rejected or the path panicked) -/
def recvAll (C : Crypto) : Chan → List Bytes → Option (List Bytes)
  | _, [] => some []
  | ch, w :: ws =>
    match recv C ch w with
    | (ch', .ok d) => (recvAll C ch' ws).map (d :: ·)
    | _ => none

/-! ### toy primitives (used by the driver and by the concrete examples) -/

/-- toy sender primitives for a receiver key of `k` bytes and a sender key of `vk` bytes: mac and
signature are zeros, AES is the identity, an RSA block is the plain block, zero fill, 2 length bytes -/
def toySC (k vk : Nat) : SCrypto where
  mac := fun p _ => List.replicate p.symSig 0
  aesEnc := id
  rsaSign := fun _ _ => List.replicate vk 0
  rsaEnc := fun _ _ b => b ++ List.replicate (k - b.length - 2) 0 ++ [b.length % 256, b.length / 256]

/-- the matching receiver primitives -/
def toyRC (vk : Nat) : Crypto where
  x509 := fun _ => some (some vk)
  thumbEq := fun _ => true
  rsaDec := fun _ _ blk =>
    let k := blk.length
    let n := (blk.drop (k - 2)).headD 0 + 256 * (blk.drop (k - 1)).headD 0
    -- only blocks of the toy format decrypt (anything else is "not a valid cipher text")
    if n + 2 ≤ k ∧ ((blk.drop n).take (k - 2 - n)).all (· == 0) then some (blk.take n) else none
  rsaVerify := fun _ _ _ _ => some true
  aesDec := fun b => some b
  hmacOk := fun _ _ _ => true

/-- the receiving channel that belongs to a sender -/
def receiverOf (s : Sender) : Chan :=
  { policy := s.policy, mode := s.mode, ownCert := some s.remoteKey, ownKey := some s.remoteKey,
    keys := true, maxStr := 65535, maxBs := 65535 }

end OpcuaVerif.C07
