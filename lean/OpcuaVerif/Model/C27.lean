import OpcuaVerif.Model.C22

/-
C27 — model of `Subscriptions::tick` for a session with several subscriptions
(`lib/src/server/subscriptions/subscriptions.rs`: the priority sort, the loop that ticks every
subscription and pairs its notifications with queued publish requests, removal of closed
subscriptions, the transmission queue) and of `enqueue_publish_request`.

Each subscription is the C22 machine (`OpcuaVerif.C22.Subn`, `subTickWith`).  The `BTreeMap` of
subscriptions is a list of entries sorted by id.  Responses carry the priority of their
subscription as a ghost field (not printed by the driver).
-/
namespace OpcuaVerif.C27

open OpcuaVerif.C22 (Subn Msg Variant subTickWith pairLoop readyToRemove)

structure Entry where
  id : Nat
  prio : Nat
  s : Subn
deriving Repr, DecidableEq

structure MSess where
  subs : List Entry            -- ascending id (BTreeMap iteration order)
  reqs : List Nat              -- publish_request_queue, oldest first
deriving Repr, DecidableEq

/-- a published response: request id, subscription id, its priority (ghost), kind, sequence number -/
structure MResp where
  rid : Nat
  sub : Nat
  prio : Nat
  kind : Msg
  seq : Nat
deriving Repr, DecidableEq

/-- `a` is placed before `b` by the comparator: `desc = true` is the current source
(`s2.1.cmp(&s1.1)`, highest priority first), `false` the pinned one (`s1.1.cmp(&s2.1)`) -/
def before (desc : Bool) (a b : Entry) : Bool :=
  if desc then decide (a.prio > b.prio) else decide (a.prio < b.prio)

/-- stable insertion: `x` came before every element of the (already sorted) tail in the map -/
def insertBy (desc : Bool) (x : Entry) : List Entry → List Entry
  | [] => [x]
  | y :: ys => if before desc y x then y :: insertBy desc x ys else x :: y :: ys

/-- `sort_by` (stable) of the subscriptions taken in map order -/
def sortBy (desc : Bool) : List Entry → List Entry
  | [] => []
  | x :: xs => insertBy desc x (sortBy desc xs)

/-- what the loop body of `Subscriptions::tick` does for one subscription id; also reports
(ghost) whether a publish request was available to that subscription.  `none` = panic. -/
def processOne (v : Variant) (timer e : Bool) (z : MSess) (o : Entry) :
    Option (MSess × List MResp × Bool) :=
  match z.subs.find? (fun x => x.id == o.id) with
  | none => none                       -- `get_mut(&subscription_id).unwrap()`
  | some en =>
    let offered := !z.reqs.isEmpty
    match subTickWith v en.s timer e offered with
    | none => none
    | some s' =>
      let (out, rs, ms) := pairLoop z.reqs s'.notifs
      let s'' : Subn := { s' with notifs := ms }
      let subs' :=
        if readyToRemove s'' then z.subs.filter (fun x => x.id != o.id)
        else z.subs.map (fun x => if x.id == o.id then { x with s := s'' } else x)
      some ({ subs := subs', reqs := rs },
        out.map (fun r => { rid := r.1, sub := o.id, prio := o.prio, kind := r.2.1, seq := r.2.2 }),
        offered)

/-- the loop over the sorted ids; returns the responses in transmission order and the ghost list
(subscription, was a request available when it was ticked) -/
def tickList (v : Variant) (timer e : Bool) : MSess → List Entry →
    Option (MSess × List MResp × List (Entry × Bool))
  | z, [] => some (z, [], [])
  | z, o :: os =>
    match processOne v timer e z o with
    | none => none
    | some (z1, out1, off) =>
      match tickList v timer e z1 os with
      | none => none
      | some (z2, out2, offs) => some (z2, out1 ++ out2, (o, off) :: offs)

/-- `Subscriptions::tick` -/
def tickWith (v : Variant) (desc : Bool) (z : MSess) (timer e : Bool) :
    Option (MSess × List MResp × List (Entry × Bool)) :=
  tickList v timer e z (sortBy desc z.subs)

inductive PubOut where
  | ok (z : MSess) (out : List MResp)
  | tooMany (z : MSess) (out : List MResp)
  | panic
deriving Repr, DecidableEq

/-- `Subscriptions::enqueue_publish_request` (requests carry no acknowledgements) -/
def publishWith (v : Variant) (desc : Bool) (z : MSess) (rid : Nat) : PubOut :=
  let maxR := 2 * z.subs.length
  let first : Option (MSess × List MResp) :=
    if z.reqs.length ≥ maxR then (tickWith v desc z false false).map fun r => (r.1, r.2.1)
    else some (z, [])
  match first with
  | none => .panic
  | some (z1, out1) =>
    if z1.reqs.length ≥ maxR then .tooMany z1 out1
    else
      match tickWith v desc { z1 with reqs := z1.reqs ++ [rid] } false false with
      | none => .panic
      | some (z2, out2, _) => .ok z2 (out1 ++ out2)

/-- a client write to the variable every item monitors -/
def write (z : MSess) : MSess :=
  { z with subs := z.subs.map fun x => { x with s := { x.s with pending := x.s.hasItem } } }

/-- `get_mut(id)` + `Subscription::set_priority` (what ModifySubscription does); `none` = no such
subscription -/
def setPrio (z : MSess) (id prio : Nat) : Option MSess :=
  if z.subs.any (fun x => x.id == id) then
    some { z with subs := z.subs.map fun x => if x.id == id then { x with prio := prio } else x }
  else none

/-- `Subscriptions::remove` (what DeleteSubscriptions does): (session, was it there) -/
def remove (z : MSess) (id : Nat) : MSess × Bool :=
  ({ z with subs := z.subs.filter fun x => x.id != id }, z.subs.any fun x => x.id == id)

/-- insertion into the map, keeping ascending ids; an existing id is replaced -/
def insertById (x : Entry) : List Entry → List Entry
  | [] => [x]
  | y :: ys => if x.id < y.id then x :: y :: ys else if x.id = y.id then x :: ys else y :: insertById x ys

/-- `Subscriptions::insert` of a new subscription (state Creating) -/
def add (z : MSess) (x : Entry) : MSess := { z with subs := insertById x z.subs }

/-- the current source: descending priority -/
def tick := tickWith C22.current true
def publish := publishWith C22.current true

end OpcuaVerif.C27
