import OpcuaVerif.Model.C24

/-
C23 — model of the parameter revision functions
(`lib/src/server/services/subscription.rs`: `revise_subscription_values`;
`lib/src/server/subscriptions/monitored_item.rs`: `sanitize_sampling_interval`,
`sanitize_queue_size` — the latter is `OpcuaVerif.C24.sanitize`).

An `f64` is its 64-bit pattern (a `Nat` < 2^64).  The code only compares and selects floats
(`<`, `==`, `f64::max`, `is_nan`), never computes with them, so the exact IEEE-754 semantics needed
is the order of non-NaN values: sign-magnitude order of the patterns with −0 = +0.
-/
namespace OpcuaVerif.C23

/-- IEEE-754 binary64: NaN = exponent all ones and a non-zero fraction -/
def isNaN (b : Nat) : Bool := decide (b / 2 ^ 52 % 2048 = 2047) && decide (b % 2 ^ 52 ≠ 0)

/-- order key of a non-NaN pattern: sign-magnitude as an integer (both zeros map to 0) -/
def key (b : Nat) : Int :=
  if b / 2 ^ 63 % 2 = 0 then Int.ofNat (b % 2 ^ 63) else - Int.ofNat (b % 2 ^ 63)

/-- `a < b` on `f64` -/
def flt (a b : Nat) : Bool := !isNaN a && !isNaN b && decide (key a < key b)
/-- `a == b` on `f64` -/
def feq (a b : Nat) : Bool := !isNaN a && !isNaN b && decide (key a = key b)
/-- `a >= b` on `f64` -/
def fge (a b : Nat) : Bool := !isNaN a && !isNaN b && decide (key b ≤ key a)

/-- `f64::max(a, b)`: a NaN operand is ignored; of two equal values the first is returned (they
are the same pattern unless they are the two zeros, which the harness never pairs) -/
def fmax (a b : Nat) : Nat :=
  if isNaN a then b else if isNaN b then a else if flt a b then b else a

def zero : Nat := 0                          -- 0.0
def minusOne : Nat := 0xBFF0000000000000     -- -1.0

/-- the limits kept in `ServerState` -/
structure Limits where
  minPub : Nat        -- min_publishing_interval_ms (f64 pattern)
  minSamp : Nat       -- min_sampling_interval_ms (f64 pattern)
  defaultKa : Nat     -- default_keep_alive_count
  maxKa : Nat         -- max_keep_alive_count
  maxLife : Nat       -- max_lifetime_count
  maxQueue : Nat      -- max_monitored_item_queue_size
deriving Repr, DecidableEq

def reviseInterval (l : Limits) (req : Nat) : Nat := fmax req l.minPub

def reviseKa (l : Limits) (req : Nat) : Nat :=
  if req > l.maxKa then l.maxKa else if req = 0 then l.defaultKa else req

/-- `revised_max_keep_alive_count * 3` on `u32` (dev profile: overflow panics = `none`), then the
lifetime selection -/
def reviseLife (l : Limits) (ka req : Nat) : Option Nat :=
  let minLife := ka * 3
  if minLife ≥ 2 ^ 32 then none
  else some (if req < minLife then minLife else if req > l.maxLife then l.maxLife else req)

/-- `revise_subscription_values` → (interval, keep-alive count, lifetime count) -/
def revise (l : Limits) (interval ka life : Nat) : Option (Nat × Nat × Nat) :=
  let ka' := reviseKa l ka
  (reviseLife l ka' life).map fun life' => (reviseInterval l interval, ka', life')

/-- `sanitize_sampling_interval`.  `fixed = false` is the pinned source (no `is_nan` test). -/
def sanitizeSamplingWith (fixed : Bool) (l : Limits) (req : Nat) : Nat :=
  if flt req zero then minusOne
  else if feq req zero || (fixed && isNaN req) || flt req l.minSamp then l.minSamp
  else req

def sanitizeSampling := sanitizeSamplingWith true

/-- `sanitize_queue_size` -/
def sanitizeQueue (l : Limits) (req : Nat) : Nat := C24.sanitize l.maxQueue req

end OpcuaVerif.C23
