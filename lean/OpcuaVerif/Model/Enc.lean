/-
Enc — shared model of the OPC UA binary codec of `lib/src/types` (properties C01, C02, C03).

Modelled (file : function):
  encoding.rs        : read_/write_ u8..u64/i8..i64/f32/f64 (little endian), read_array (the
                       dimension array of a Variant), DepthLock/DepthGauge, DecodingOptions limits
  basic_types.rs     : bool / integer / float `BinaryEncoder` impls
  string.rs, byte_string.rs : UAString / ByteString (−1 = null, limits, UTF-8 validation)
  guid.rs, date_time.rs, status_code.rs, node_id.rs, expanded_node_id.rs, qualified_name.rs,
  localized_text.rs, extension_object.rs (body kept as bytes)
  variant.rs         : Variant::{byte_len, encode, decode, encode_variant_value,
                       decode_variant_value, encoding_mask}, array.rs : Array::encoding_mask /
                       encoded_dimensions / new / new_multi checks
  data_value.rs, diagnostic_info.rs : byte_len / encode / decode / encoding_mask
  core/comms/message_chunk.rs : MessageChunkHeader::decode, MessageChunk::decode

Conventions.  A byte is a `Nat`; encoders only produce numbers < 256, decoders reduce every byte
they interpret `% 256` (so the theorems quantify over all `List Nat`).  Integers are unbounded
`Nat`/`Int` with explicit range predicates in `WF`; floats are their IEEE bit patterns.
`client_offset` of the decoding options is zero (it only shifts DateTime values).

Resources are explicit:
  * `fuel` is the native call-stack budget: every `decode` frame of the recursive family
    (`Variant::decode`, `decode_variant_value`, `DataValue::decode`, `DiagnosticInfo::decode`)
    costs one unit; running out is the outcome `fault .stack` (the process would abort).
  * `cap` is the largest single allocation request (in elements) the process can satisfy; a larger
    request (`vec![0; n]`, `Vec::with_capacity(n)`) is the outcome `fault .alloc`.
  * `d` is the value of the decoding depth gauge (number of `DepthLock`s held).
`lk = true` is the current source (depth locks in `DataValue::decode` / `DiagnosticInfo::decode`),
`lk = false` the source before that fix; `ed = true` is the current encoder (no dimensions written
for an array without values), `ed = false` the one before that fix.
-/
namespace OpcuaVerif.Enc

abbrev Bytes := List Nat

/-- `DecodingOptions` (limits only) -/
structure Opts where
  maxStr : Nat      -- max_string_length
  maxBytes : Nat    -- max_byte_string_length
  maxArr : Nat      -- max_array_length
  maxDepth : Nat    -- decoding_depth_gauge.max_depth
  maxMsg : Nat      -- max_message_size (0 = no limit)
deriving Repr, DecidableEq

/-- `DecodingOptions::default()` -/
def Opts.default : Opts := { maxStr := 65535, maxBytes := 65535, maxArr := 1000, maxDepth := 10, maxMsg := 327675 }
/-- `DecodingOptions::minimal()` -/
def Opts.minimal : Opts := { maxStr := 8192, maxBytes := 8192, maxArr := 8192, maxDepth := 1, maxMsg := 327675 }

inductive Fault where
  | stack | alloc | panic
deriving Repr, DecidableEq

inductive Res (α : Type) where
  | ok (v : α) (rest : Bytes)
  | err
  | fault (f : Fault)
deriving Repr

def Res.bind {α β : Type} (x : Res α) (f : α → Bytes → Res β) : Res β :=
  match x with
  | .ok v r => f v r
  | .err => .err
  | .fault k => .fault k

def Res.map {α β : Type} (f : α → β) (x : Res α) : Res β :=
  match x with
  | .ok v r => .ok (f v) r
  | .err => .err
  | .fault k => .fault k

def Res.ofOpt {α : Type} : Option (α × Bytes) → Res α
  | some (v, r) => .ok v r
  | none => .err

/-- the part of a result the properties talk about -/
def Res.val? {α : Type} : Res α → Option (α × Bytes)
  | .ok v r => some (v, r)
  | _ => none

def Res.isFault {α : Type} : Res α → Option Fault
  | .fault f => some f
  | _ => none

/-! ### little-endian integers -/

def le16 (n : Nat) : Bytes := [n % 256, n / 256 % 256]
def le32 (n : Nat) : Bytes := [n % 256, n / 256 % 256, n / 65536 % 256, n / 16777216 % 256]
def le64 (n : Nat) : Bytes :=
  [n % 256, n / 256 % 256, n / 65536 % 256, n / 16777216 % 256, n / 4294967296 % 256,
   n / 1099511627776 % 256, n / 281474976710656 % 256, n / 72057594037927936 % 256]

def rd8 : Bytes → Option (Nat × Bytes)
  | a :: r => some (a % 256, r)
  | _ => none
def rd16 : Bytes → Option (Nat × Bytes)
  | a :: b :: r => some (a % 256 + 256 * (b % 256), r)
  | _ => none
def rd32 : Bytes → Option (Nat × Bytes)
  | a :: b :: c :: d :: r =>
    some (a % 256 + 256 * (b % 256) + 65536 * (c % 256) + 16777216 * (d % 256), r)
  | _ => none
def rd64 : Bytes → Option (Nat × Bytes)
  | a :: b :: c :: d :: e :: f :: g :: h :: r =>
    some (a % 256 + 256 * (b % 256) + 65536 * (c % 256) + 16777216 * (d % 256)
      + 4294967296 * (e % 256) + 1099511627776 * (f % 256) + 281474976710656 * (g % 256)
      + 72057594037927936 * (h % 256), r)
  | _ => none

/-- two's complement -/
def ofS8 (i : Int) : Nat := (i % 256).toNat
def ofS16 (i : Int) : Nat := (i % 65536).toNat
def ofS32 (i : Int) : Nat := (i % 4294967296).toNat
def ofS64 (i : Int) : Nat := (i % 18446744073709551616).toNat
def toS8 (n : Nat) : Int := if n < 128 then (n : Int) else (n : Int) - 256
def toS16 (n : Nat) : Int := if n < 32768 then (n : Int) else (n : Int) - 65536
def toS32 (n : Nat) : Int := if n < 2147483648 then (n : Int) else (n : Int) - 4294967296
def toS64 (n : Nat) : Int :=
  if n < 9223372036854775808 then (n : Int) else (n : Int) - 18446744073709551616

/-- an allocation request of `n` elements -/
def guardAlloc {α : Type} (cap n : Nat) (k : Res α) : Res α :=
  if n > cap then .fault .alloc else k

/-! ### UTF-8 validation (`String::from_utf8`) -/

def isCont (b : Nat) : Bool := 128 ≤ b && b ≤ 191

def utf8Valid : Bytes → Bool
  | [] => true
  | a :: rest =>
    if a < 128 then utf8Valid rest
    else if 194 ≤ a ∧ a ≤ 223 then
      match rest with
      | b :: rest => isCont b && utf8Valid rest
      | _ => false
    else if 224 ≤ a ∧ a ≤ 239 then
      match rest with
      | b :: c :: rest =>
        (if a = 224 then (160 ≤ b && b ≤ 191) else if a = 237 then (128 ≤ b && b ≤ 159) else isCont b)
          && isCont c && utf8Valid rest
      | _ => false
    else if 240 ≤ a ∧ a ≤ 244 then
      match rest with
      | b :: c :: d :: rest =>
        (if a = 240 then (144 ≤ b && b ≤ 191) else if a = 244 then (128 ≤ b && b ≤ 143) else isCont b)
          && isCont c && isCont d && utf8Valid rest
      | _ => false
    else false

/-! ### strings, byte strings, guid, date time -/

/-- `UAString` / `XmlElement`: `none` = null, otherwise the UTF-8 bytes -/
abbrev UAStr := Option Bytes

/-- `UAString::encode`, `ByteString::encode` (`len as i32`, then the bytes) -/
def encStr : Option Bytes → Bytes
  | none => [255, 255, 255, 255]
  | some s => le32 s.length ++ s

def lenStr : Option Bytes → Nat
  | none => 4
  | some s => 4 + s.length

/-- `UAString::decode` -/
def decStr (o : Opts) (cap : Nat) (b : Bytes) : Res UAStr :=
  match rd32 b with
  | none => .err
  | some (n, r) =>
    if n = 4294967295 then .ok none r
    else if n ≥ 2147483648 then .err
    else if n > o.maxStr then .err
    else guardAlloc cap n
      (if r.length < n then .err
       else if utf8Valid (r.take n) then .ok (some (r.take n)) (r.drop n) else .err)

/-- `ByteString::decode` -/
def decBStr (o : Opts) (cap : Nat) (b : Bytes) : Res (Option Bytes) :=
  match rd32 b with
  | none => .err
  | some (n, r) =>
    if n = 4294967295 then .ok none r
    else if n ≥ 2147483648 then .err
    else if n > o.maxBytes then .err
    else guardAlloc cap n
      (if r.length < n then .err else .ok (some (r.take n)) (r.drop n))

/-- `Guid::decode`: 16 raw bytes -/
def decGuid (b : Bytes) : Res Bytes :=
  if b.length < 16 then .err else .ok (b.take 16) (b.drop 16)

/-- ticks (100 ns since 1601-01-01) of 9999-12-31T23:59:59 -/
def endTicks : Int := 2650467743990000000
def i64Max : Int := 9223372036854775807
/-- `chrono` panics when `epoch + duration` leaves its date range (years ±262 000); in ticks that
is beyond ±8·10^19 (a lower bound of the true limit is enough: it exceeds the `i64` range). -/
def chronoLimit : Int := 80000000000000000000

/-- `DateTime::checked_ticks` -/
def dtChecked (t : Int) : Int := if t < 0 then 0 else if t > endTicks then i64Max else t

/-- `DateTime::ticks()` / `duration_to_ticks` BEFORE the fix: `seconds * TICKS_PER_SECOND + nanos / 100`
in `i64` with the dev-profile overflow check — `none` = panic ("attempt to multiply with overflow").
A `DateTime` is the tick count `t` of the chrono value it wraps (any year −262143..262142, so `t` may lie
outside the `i64` range: `DateTime::ymd(40000, 1, 1)`, `From<chrono::DateTime<Utc>>`, arithmetic). -/
def ticksOld (t : Int) : Option Int :=
  -- `seconds * TICKS_PER_SECOND`, `seconds` = whole seconds truncated towards zero
  let p := if t ≥ 0 then t / 10000000 * 10000000 else -((-t) / 10000000 * 10000000)
  if p > i64Max ∨ p < -i64Max - 1 then none
  else if t > i64Max ∨ t < -i64Max - 1 then none
  else some t

/-- `DateTime::ticks()` after the fix: saturating arithmetic -/
def ticksSat (t : Int) : Int := if t > i64Max then i64Max else if t < -i64Max - 1 then -i64Max - 1 else t

/-- `DateTime::encode` = `write_i64(checked_ticks())`; `checked_ticks` clamps `ticks()` to 0 below the
epoch and to `i64::MAX` above 9999-12-31, so with the saturating `ticks()` it is `dtChecked t` for every `t`
(`dtChecked_ticksSat` in `Lemmas/EncLeaf.lean`). -/
def encDateTime (t : Int) : Bytes := le64 (ofS64 (dtChecked t))

/-- `DateTime::encode` before the fix: `none` = panic -/
def encDateTimeOld (t : Int) : Option Bytes := (ticksOld t).map fun x => le64 (ofS64 (dtChecked x))

/-- `DateTime::from(i64)`; `none` = the `chrono` addition panics -/
def dtFromTicks (t : Int) : Option Int :=
  if t = i64Max then some endTicks
  else if t > chronoLimit ∨ t < -chronoLimit then none
  else some t

/-- `DateTime::decode` (client offset 0) -/
def decDateTime (b : Bytes) : Res Int :=
  match rd64 b with
  | none => .err
  | some (n, r) =>
    match dtFromTicks (toS64 n) with
    | some t => .ok t r
    | none => .fault .panic

/-! ### node ids and the other structured scalars -/

inductive NodeIdent where
  | num (n : Nat)
  | str (s : UAStr)
  | guid (g : Bytes)
  | bstr (b : Option Bytes)
deriving Repr, DecidableEq

structure NodeId where
  ns : Nat
  id : NodeIdent
deriving Repr, DecidableEq

/-- body of `NodeId::encode` after the first byte's low nibble `k` has been chosen; the first byte
is `hi + k` (`hi` = the ExpandedNodeId flags, 0 for a plain NodeId) -/
def encNodeIdWith (hi : Nat) (n : NodeId) : Bytes :=
  match n.id with
  | .num v =>
    if n.ns = 0 ∧ v ≤ 255 then [hi, v % 256]
    else if n.ns ≤ 255 ∧ v ≤ 65535 then (hi + 1) :: n.ns % 256 :: le16 v
    else (hi + 2) :: (le16 n.ns ++ le32 v)
  | .str s => (hi + 3) :: (le16 n.ns ++ encStr s)
  | .guid g => (hi + 4) :: (le16 n.ns ++ g)
  | .bstr s => (hi + 5) :: (le16 n.ns ++ encStr s)

def encNodeId (n : NodeId) : Bytes := encNodeIdWith 0 n

def lenNodeId (n : NodeId) : Nat :=
  match n.id with
  | .num v => if n.ns = 0 ∧ v ≤ 255 then 2 else if n.ns ≤ 255 ∧ v ≤ 65535 then 4 else 7
  | .str s => 3 + lenStr s
  | .guid _ => 3 + 16
  | .bstr s => 3 + lenStr s

/-- the part of `NodeId::decode` after the type nibble `k` was read -/
def decNodeIdBody (o : Opts) (cap : Nat) (k : Nat) (b : Bytes) : Res NodeId :=
  if k = 0 then (Res.ofOpt (rd8 b)).map fun v => ⟨0, .num v⟩
  else if k = 1 then
    (Res.ofOpt (rd8 b)).bind fun ns b => (Res.ofOpt (rd16 b)).map fun v => ⟨ns, .num v⟩
  else if k = 2 then
    (Res.ofOpt (rd16 b)).bind fun ns b => (Res.ofOpt (rd32 b)).map fun v => ⟨ns, .num v⟩
  else if k = 3 then
    (Res.ofOpt (rd16 b)).bind fun ns b => (decStr o cap b).map fun s => ⟨ns, .str s⟩
  else if k = 4 then
    (Res.ofOpt (rd16 b)).bind fun ns b => (decGuid b).map fun g => ⟨ns, .guid g⟩
  else if k = 5 then
    (Res.ofOpt (rd16 b)).bind fun ns b => (decBStr o cap b).map fun s => ⟨ns, .bstr s⟩
  else .err

/-- `NodeId::decode` -/
def decNodeId (o : Opts) (cap : Nat) (b : Bytes) : Res NodeId :=
  (Res.ofOpt (rd8 b)).bind fun k b => decNodeIdBody o cap k b

structure ExpNodeId where
  node : NodeId
  uri : UAStr
  server : Nat
deriving Repr, DecidableEq

def encExpNodeId (x : ExpNodeId) : Bytes :=
  encNodeIdWith ((if x.uri.isSome then 128 else 0) + (if x.server ≠ 0 then 64 else 0)) x.node
    ++ (if x.uri.isSome then encStr x.uri else [])
    ++ (if x.server ≠ 0 then le32 x.server else [])

def lenExpNodeId (x : ExpNodeId) : Nat :=
  lenNodeId x.node + (if x.uri.isSome then lenStr x.uri else 0) + (if x.server ≠ 0 then 4 else 0)

/-- `ExpandedNodeId::decode` -/
def decExpNodeId (o : Opts) (cap : Nat) (b : Bytes) : Res ExpNodeId :=
  (Res.ofOpt (rd8 b)).bind fun m b =>
  (decNodeIdBody o cap (m % 16) b).bind fun node b =>
  (if m / 128 % 2 = 1 then decStr o cap b else .ok none b).bind fun uri b =>
  (if m / 64 % 2 = 1 then Res.ofOpt (rd32 b) else .ok 0 b).map fun server =>
  ⟨node, uri, server⟩

inductive EoBody where
  | none
  | bstr (b : Option Bytes)
  | xml (s : UAStr)
deriving Repr, DecidableEq

structure ExtObj where
  node : NodeId
  body : EoBody
deriving Repr, DecidableEq

def encExtObj (x : ExtObj) : Bytes :=
  encNodeId x.node ++
    match x.body with
    | .none => [0]
    | .bstr s => 1 :: encStr s
    | .xml s => 2 :: encStr s

def lenExtObj (x : ExtObj) : Nat :=
  lenNodeId x.node +
    match x.body with
    | .none => 1
    | .bstr s => 1 + lenStr s
    | .xml s => 1 + lenStr s

/-- `ExtensionObject::decode` (takes a depth lock; the body stays a byte string) -/
def decExtObj (o : Opts) (cap : Nat) (d : Nat) (b : Bytes) : Res ExtObj :=
  if d ≥ o.maxDepth then .err else
  (decNodeId o cap b).bind fun node b =>
  (Res.ofOpt (rd8 b)).bind fun t b =>
  if t = 0 then .ok ⟨node, .none⟩ b
  else if t = 1 then (decBStr o cap b).map fun s => ⟨node, .bstr s⟩
  else if t = 2 then (decStr o cap b).map fun s => ⟨node, .xml s⟩
  else .err

/-! ### scalars of a Variant -/

inductive Scalar where
  | bool (b : Bool)
  | sbyte (i : Int)
  | byte (n : Nat)
  | int16 (i : Int)
  | uint16 (n : Nat)
  | int32 (i : Int)
  | uint32 (n : Nat)
  | int64 (i : Int)
  | uint64 (n : Nat)
  | float (bits : Nat)
  | double (bits : Nat)
  | str (s : UAStr)
  | dateTime (t : Int)
  | guid (g : Bytes)
  | bstr (b : Option Bytes)
  | xml (s : UAStr)
  | nodeId (n : NodeId)
  | expNodeId (n : ExpNodeId)
  | status (n : Nat)
  | qname (ns : Nat) (name : UAStr)
  | ltext (locale text : UAStr)
  | extObj (e : ExtObj)
deriving Repr, DecidableEq

/-- the built-in type id = `EncodingMask` value -/
def Scalar.tid : Scalar → Nat
  | .bool _ => 1 | .sbyte _ => 2 | .byte _ => 3 | .int16 _ => 4 | .uint16 _ => 5
  | .int32 _ => 6 | .uint32 _ => 7 | .int64 _ => 8 | .uint64 _ => 9 | .float _ => 10
  | .double _ => 11 | .str _ => 12 | .dateTime _ => 13 | .guid _ => 14 | .bstr _ => 15
  | .xml _ => 16 | .nodeId _ => 17 | .expNodeId _ => 18 | .status _ => 19 | .qname _ _ => 20
  | .ltext _ _ => 21 | .extObj _ => 22

/-- `UAString::is_empty`: null or "" -/
def strEmpty : UAStr → Bool
  | none => true
  | some s => s.isEmpty

def encLText (locale text : UAStr) : Bytes :=
  ((if strEmpty locale then 0 else 1) + (if strEmpty text then 0 else 2))
    :: ((if strEmpty locale then [] else encStr locale) ++ (if strEmpty text then [] else encStr text))

def lenLText (locale text : UAStr) : Nat :=
  1 + (if strEmpty locale then 0 else lenStr locale) + (if strEmpty text then 0 else lenStr text)

/-- `LocalizedText::decode` -/
def decLText (o : Opts) (cap : Nat) (b : Bytes) : Res (UAStr × UAStr) :=
  (Res.ofOpt (rd8 b)).bind fun m b =>
  (if m % 2 = 1 then decStr o cap b else .ok none b).bind fun locale b =>
  (if m / 2 % 2 = 1 then decStr o cap b else .ok none b).map fun text => (locale, text)

def encScalar : Scalar → Bytes
  | .bool b => [if b then 1 else 0]
  | .sbyte i => [ofS8 i]
  | .byte n => [n % 256]
  | .int16 i => le16 (ofS16 i)
  | .uint16 n => le16 n
  | .int32 i => le32 (ofS32 i)
  | .uint32 n => le32 n
  | .int64 i => le64 (ofS64 i)
  | .uint64 n => le64 n
  | .float n => le32 n
  | .double n => le64 n
  | .str s => encStr s
  | .dateTime t => encDateTime t
  | .guid g => g
  | .bstr s => encStr s
  | .xml s => encStr s
  | .nodeId n => encNodeId n
  | .expNodeId n => encExpNodeId n
  | .status n => le32 n
  | .qname ns name => le16 ns ++ encStr name
  | .ltext l t => encLText l t
  | .extObj e => encExtObj e

/-- `byte_len` of the scalar -/
def lenScalar : Scalar → Nat
  | .bool _ => 1 | .sbyte _ => 1 | .byte _ => 1 | .int16 _ => 2 | .uint16 _ => 2
  | .int32 _ => 4 | .uint32 _ => 4 | .int64 _ => 8 | .uint64 _ => 8 | .float _ => 4
  | .double _ => 8
  | .str s => lenStr s
  | .dateTime _ => 8
  | .guid _ => 16
  | .bstr s => lenStr s
  | .xml s => lenStr s
  | .nodeId n => lenNodeId n
  | .expNodeId n => lenExpNodeId n
  | .status _ => 4
  | .qname _ name => 2 + lenStr name
  | .ltext l t => lenLText l t
  | .extObj e => lenExtObj e

/-- the scalar arms (`encoding_mask` 1..22) of `Variant::decode_variant_value` -/
def decScalar (o : Opts) (cap : Nat) (d : Nat) (em : Nat) (b : Bytes) : Res Scalar :=
  if em = 1 then (Res.ofOpt (rd8 b)).map fun n => .bool (n = 1)
  else if em = 2 then (Res.ofOpt (rd8 b)).map fun n => .sbyte (toS8 n)
  else if em = 3 then (Res.ofOpt (rd8 b)).map .byte
  else if em = 4 then (Res.ofOpt (rd16 b)).map fun n => .int16 (toS16 n)
  else if em = 5 then (Res.ofOpt (rd16 b)).map .uint16
  else if em = 6 then (Res.ofOpt (rd32 b)).map fun n => .int32 (toS32 n)
  else if em = 7 then (Res.ofOpt (rd32 b)).map .uint32
  else if em = 8 then (Res.ofOpt (rd64 b)).map fun n => .int64 (toS64 n)
  else if em = 9 then (Res.ofOpt (rd64 b)).map .uint64
  else if em = 10 then (Res.ofOpt (rd32 b)).map .float
  else if em = 11 then (Res.ofOpt (rd64 b)).map .double
  else if em = 12 then (decStr o cap b).map .str
  else if em = 13 then (decDateTime b).map .dateTime
  else if em = 14 then (decGuid b).map .guid
  else if em = 15 then (decBStr o cap b).map .bstr
  else if em = 16 then (decStr o cap b).map .xml
  else if em = 17 then (decNodeId o cap b).map .nodeId
  else if em = 18 then (decExpNodeId o cap b).map .expNodeId
  else if em = 19 then (Res.ofOpt (rd32 b)).map .status
  else if em = 20 then
    (Res.ofOpt (rd16 b)).bind fun ns b => (decStr o cap b).map fun name => .qname ns name
  else if em = 21 then (decLText o cap b).map fun p => .ltext p.1 p.2
  else if em = 22 then (decExtObj o cap d b).map .extObj
  else .err

/-! ### Variant, DataValue, DiagnosticInfo -/

/-- the optional non-recursive fields of a `DataValue` -/
structure DVRest where
  status : Option Nat
  srcTs : Option Int
  srcPs : Option Nat
  srvTs : Option Int
  srvPs : Option Nat
deriving Repr, DecidableEq

/-- the optional non-recursive fields of a `DiagnosticInfo` -/
structure DIF where
  symbolic : Option Int
  ns : Option Int
  locale : Option Int
  ltext : Option Int
  addInfo : Option UAStr
  innerStatus : Option Nat
deriving Repr, DecidableEq

mutual
/-- `Variant` -/
inductive V where
  | empty
  | sc (s : Scalar)
  | var (v : V)                   -- Variant::Variant
  | dv (d : DV)                   -- Variant::DataValue
  | di (d : DI)                   -- Variant::DiagnosticInfo
  | arr (ty : Nat) (elems : List V) (dims : Option (List Nat))   -- Variant::Array (ty = element type id)
/-- `DataValue`: without (`mk0`) / with (`mk1`) a value -/
inductive DV where
  | mk0 (r : DVRest)
  | mk1 (v : V) (r : DVRest)
/-- `DiagnosticInfo`: without (`leaf`) / with (`nest`) an inner diagnostic info -/
inductive DI where
  | leaf (f : DIF)
  | nest (f : DIF) (inner : DI)
end

/-- `Variant::type_id` as an encoding-mask value (26 stands for `VariantTypeId::Array`) -/
def V.tid : V → Nat
  | .empty => 0
  | .sc s => s.tid
  | .var _ => 24
  | .dv _ => 23
  | .di _ => 25
  | .arr _ _ _ => 26

/-- `DataValue::encoding_mask` -/
def dvMask (hasValue : Bool) (r : DVRest) : Nat :=
  (if hasValue then 1 else 0) + (if r.status.isSome then 2 else 0)
  + (if r.srcTs.isSome then 4 else 0) + (if r.srvTs.isSome then 8 else 0)
  + (if r.srcTs.isSome ∧ r.srcPs.isSome then 16 else 0)
  + (if r.srvTs.isSome ∧ r.srvPs.isSome then 32 else 0)

def encOptWith {α : Type} (f : α → Bytes) : Option α → Bytes
  | none => []
  | some x => f x

/-- the fields after the value -/
def encDVRest (r : DVRest) : Bytes :=
  encOptWith le32 r.status
  ++ (match r.srcTs with
      | none => []
      | some t => encDateTime t ++ encOptWith le16 r.srcPs)
  ++ (match r.srvTs with
      | none => []
      | some t => encDateTime t ++ encOptWith le16 r.srvPs)

def lenDVRest (r : DVRest) : Nat :=
  (if r.status.isSome then 4 else 0)
  + (if r.srcTs.isSome then 8 + (if r.srcPs.isSome then 2 else 0) else 0)
  + (if r.srvTs.isSome then 8 + (if r.srvPs.isSome then 2 else 0) else 0)

/-- the part of `DataValue::decode` after the value: mask `m` -/
def decDVRest (m : Nat) (b : Bytes) : Res DVRest :=
  (if m / 2 % 2 = 1 then (Res.ofOpt (rd32 b)).map some else .ok none b).bind fun status b =>
  (if m / 4 % 2 = 1 then (decDateTime b).map some else .ok none b).bind fun srcTs b =>
  (if m / 16 % 2 = 1 then (Res.ofOpt (rd16 b)).map some else .ok none b).bind fun srcPs b =>
  (if m / 8 % 2 = 1 then (decDateTime b).map some else .ok none b).bind fun srvTs b =>
  (if m / 32 % 2 = 1 then (Res.ofOpt (rd16 b)).map some else .ok none b).map fun srvPs =>
  { status := status, srcTs := srcTs, srcPs := if srcTs.isSome then srcPs else none,
    srvTs := srvTs, srvPs := if srvTs.isSome then srvPs else none }

/-- `DiagnosticInfo::encoding_mask` -/
def diMask (hasInner : Bool) (f : DIF) : Nat :=
  (if f.symbolic.isSome then 1 else 0) + (if f.ns.isSome then 2 else 0)
  + (if f.ltext.isSome then 4 else 0) + (if f.locale.isSome then 8 else 0)
  + (if f.addInfo.isSome then 16 else 0) + (if f.innerStatus.isSome then 32 else 0)
  + (if hasInner then 64 else 0)

def encI32 (i : Int) : Bytes := le32 (ofS32 i)

def encDIF (f : DIF) : Bytes :=
  encOptWith encI32 f.symbolic ++ encOptWith encI32 f.ns ++ encOptWith encI32 f.locale
  ++ encOptWith encI32 f.ltext ++ encOptWith encStr f.addInfo ++ encOptWith le32 f.innerStatus

def lenDIF (f : DIF) : Nat :=
  (if f.symbolic.isSome then 4 else 0) + (if f.ns.isSome then 4 else 0)
  + (if f.locale.isSome then 4 else 0) + (if f.ltext.isSome then 4 else 0)
  + (match f.addInfo with
     | none => 0
     | some s => lenStr s)
  + (if f.innerStatus.isSome then 4 else 0)

def rdI32 (b : Bytes) : Res Int := (Res.ofOpt (rd32 b)).map toS32

/-- the non-recursive part of `DiagnosticInfo::decode`: mask `m` -/
def decDIF (o : Opts) (cap : Nat) (m : Nat) (b : Bytes) : Res DIF :=
  (if m % 2 = 1 then (rdI32 b).map some else .ok none b).bind fun symbolic b =>
  (if m / 2 % 2 = 1 then (rdI32 b).map some else .ok none b).bind fun ns b =>
  (if m / 8 % 2 = 1 then (rdI32 b).map some else .ok none b).bind fun locale b =>
  (if m / 4 % 2 = 1 then (rdI32 b).map some else .ok none b).bind fun ltext b =>
  (if m / 16 % 2 = 1 then (decStr o cap b).map some else .ok none b).bind fun addInfo b =>
  (if m / 32 % 2 = 1 then (Res.ofOpt (rd32 b)).map some else .ok none b).map fun innerStatus =>
  { symbolic := symbolic, ns := ns, locale := locale, ltext := ltext, addInfo := addInfo,
    innerStatus := innerStatus }

/-- `Array::encoded_dimensions` (`ed = false`: the encoder before the fix wrote the dimensions of
an array without values too) -/
def encodedDims (ed : Bool) (elems : List V) (dims : Option (List Nat)) : Option (List Nat) :=
  if ed ∧ elems.isEmpty then none else dims

def encDimList : List Nat → Bytes
  | [] => []
  | x :: xs => le32 x ++ encDimList xs

def encDimsOpt : Option (List Nat) → Bytes
  | none => []
  | some ds => le32 ds.length ++ encDimList ds

/-- `Array::encoding_mask` -/
def arrMask (ed : Bool) (ty : Nat) (elems : List V) (dims : Option (List Nat)) : Nat :=
  ty + 128 + (if (encodedDims ed elems dims).isSome then 64 else 0)

section codec
variable (ed : Bool)

mutual
/-- `Variant::encode` -/
def encV : V → Bytes
  | .empty => [0]
  | .sc s => s.tid :: encScalar s
  | .var v => 24 :: encV v
  | .dv d => 23 :: encDV d
  | .di d => 25 :: encDI d
  | .arr ty elems dims =>
    arrMask ed ty elems dims ::
      (le32 elems.length ++ encVals elems ++ encDimsOpt (encodedDims ed elems dims))
/-- `Variant::encode_variant_value` (an array is not a legal element: the real code returns
`BadEncodingError`; such values are outside `WF`) -/
def encVal : V → Bytes
  | .empty => []
  | .sc s => encScalar s
  | .var v => encV v
  | .dv d => encDV d
  | .di d => encDI d
  | .arr _ _ _ => []
def encVals : List V → Bytes
  | [] => []
  | v :: vs => encVal v ++ encVals vs
/-- `DataValue::encode` -/
def encDV : DV → Bytes
  | .mk0 r => dvMask false r :: encDVRest r
  | .mk1 v r => dvMask true r :: (encV v ++ encDVRest r)
/-- `DiagnosticInfo::encode` -/
def encDI : DI → Bytes
  | .leaf f => diMask false f :: encDIF f
  | .nest f inner => diMask true f :: (encDIF f ++ encDI inner)
end

mutual
/-- `Variant::byte_len` -/
def lenV : V → Nat
  | .empty => 1
  | .sc s => 1 + lenScalar s
  | .var v => 1 + lenV v
  | .dv d => 1 + lenDV d
  | .di d => 1 + lenDI d
  | .arr _ elems dims =>
    1 + (4 + lenVals elems +
      match encodedDims ed elems dims with
      | none => 0
      | some ds => 4 + ds.length * 4)
/-- `Variant::byte_len_variant_value` -/
def lenVal : V → Nat
  | .empty => 0
  | .sc s => lenScalar s
  | .var v => lenV v
  | .dv d => lenDV d
  | .di d => lenDI d
  | .arr _ _ _ => 0
def lenVals : List V → Nat
  | [] => 0
  | v :: vs => lenVal v + lenVals vs
/-- `DataValue::byte_len` -/
def lenDV : DV → Nat
  | .mk0 r => 1 + lenDVRest r
  | .mk1 v r => 1 + (lenV v + lenDVRest r)
/-- `DiagnosticInfo::byte_len` -/
def lenDI : DI → Nat
  | .leaf f => 1 + lenDIF f
  | .nest f inner => 1 + (lenDIF f + lenDI inner)
end

end codec

/-- a counted loop `for _ in 0..n { values.push(decode(stream)?) }` -/
def decList {α : Type} (g : Bytes → Res α) : Nat → Bytes → Res (List α)
  | 0, b => .ok [] b
  | n + 1, b => (g b).bind fun v b => (decList g n b).map fun vs => v :: vs

/-- `read_array::<u32>` for the dimensions of a Variant array; `none` = null array -/
def decDimArray (o : Opts) (cap : Nat) (b : Bytes) : Res (Option (List Nat)) :=
  match rd32 b with
  | none => .err
  | some (n, r) =>
    if n = 4294967295 then .ok none r
    else if n ≥ 2147483648 then .err
    else if n > o.maxArr then .err
    else guardAlloc cap n ((decList (fun b => Res.ofOpt (rd32 b)) n r).map some)

/-- the `checked_mul` loop over the dimensions (`none` = overflow of `u32`) -/
def dimProduct : List Nat → Nat → Option Nat
  | [], acc => some acc
  | x :: xs, acc => if acc * x ≥ 4294967296 then none else dimProduct xs (acc * x)

/-- what `Variant::decode` does with the dimensions it read, for `n` decoded values -/
def checkDims (n : Nat) : Option (List Nat) → Bool
  | none => false
  | some ds => !ds.any (· == 0) && dimProduct ds 1 == some n

section decoders
variable (o : Opts) (cap : Nat) (lk : Bool)

mutual
/-- `Variant::decode` -/
def decV : Nat → Nat → Bytes → Res V
  | 0, _, _ => .fault .stack
  | fuel + 1, d, b =>
    match b with
    | [] => .err
    | m0 :: b =>
      let em := m0 % 64
      if m0 / 128 % 2 = 1 then
        match rd32 b with
        | none => .err
        | some (n, b) =>
          if n ≥ 2147483648 ∧ n ≠ 4294967295 then .err
          else if n = 4294967295 ∨ n = 0 then
            (if em = 0 ∨ em > 25 then .err else .ok (.arr em [] (some [])) b)
          else if n > o.maxArr then .err
          else guardAlloc cap n
            ((decList (decVal fuel d em) n b).bind fun vals b =>
              if em > 25 then .err
              else if m0 / 64 % 2 = 1 then
                (decDimArray o cap b).bind fun dims b =>
                  if checkDims n dims ∧ em ≠ 0 then .ok (.arr em vals dims) b else .err
              else if em = 0 then .err
              else .ok (.arr em vals none) b)
      else if m0 / 64 % 2 = 1 then .err
      else decVal fuel d em b
termination_by structural fuel => fuel
/-- `Variant::decode_variant_value` -/
def decVal : Nat → Nat → Nat → Bytes → Res V
  | 0, _, _, _ => .fault .stack
  | fuel + 1, d, em, b =>
    if em = 0 then .ok .empty b
    else if em ≤ 22 then (decScalar o cap d em b).map .sc
    else if em = 24 then
      (if d ≥ o.maxDepth then .err else (decV fuel (d + 1) b).map .var)
    else if em = 23 then (decDV fuel d b).map .dv
    else if em = 25 then (decDI fuel d b).map .di
    else .ok .empty b
termination_by structural fuel => fuel
/-- `DataValue::decode` -/
def decDV : Nat → Nat → Bytes → Res DV
  | 0, _, _ => .fault .stack
  | fuel + 1, d, b =>
    if lk ∧ d ≥ o.maxDepth then .err else
    match b with
    | [] => .err
    | m :: b =>
      if m % 2 = 1 then
        (decV fuel (if lk then d + 1 else d) b).bind fun v b => (decDVRest m b).map fun r => .mk1 v r
      else (decDVRest m b).map .mk0
termination_by structural fuel => fuel
/-- `DiagnosticInfo::decode` -/
def decDI : Nat → Nat → Bytes → Res DI
  | 0, _, _ => .fault .stack
  | fuel + 1, d, b =>
    if lk ∧ d ≥ o.maxDepth then .err else
    match b with
    | [] => .err
    | m :: b =>
      (decDIF o cap m b).bind fun f b =>
        if m / 64 % 2 = 1 then (decDI fuel (if lk then d + 1 else d) b).map fun i => .nest f i
        else .ok (.leaf f) b
termination_by structural fuel => fuel
end

end decoders

/-! ### message chunks (`core/comms/message_chunk.rs`) -/

/-- `MessageChunkHeader::decode`: message type (MSG/OPN/CLO), chunk type (F/C/A), size, channel id;
the result keeps the four header fields as numbers -/
def decChunkHeader (b : Bytes) : Res (Bytes × Nat × Nat × Nat) :=
  match b with
  | t0 :: t1 :: t2 :: b =>
    let ty := [t0 % 256, t1 % 256, t2 % 256]
    if ty = [77, 83, 71] ∨ ty = [79, 80, 78] ∨ ty = [67, 76, 79] then
      (Res.ofOpt (rd8 b)).bind fun fin b =>
        if fin = 70 ∨ fin = 67 ∨ fin = 65 then
          (Res.ofOpt (rd32 b)).bind fun size b =>
          (Res.ofOpt (rd32 b)).map fun chan => (ty, fin, size, chan)
        else .err
    else .err
  | _ => .err

/-- `MessageChunk::decode`: returns the chunk's data (header re-encoded, then the body; bytes the
stream could not supply stay zero because the result of `read_exact` is ignored) -/
def decChunk (o : Opts) (cap : Nat) (b : Bytes) : Res Bytes :=
  (decChunkHeader b).bind fun h b =>
    let (ty, fin, size, chan) := h
    if o.maxMsg > 0 ∧ size > o.maxMsg then .err
    else guardAlloc cap size
      (let hdr := ty ++ [fin] ++ le32 size ++ le32 chan
       let bodyLen := size - 12
       if b.length < bodyLen then
         -- `read_exact` fails: the buffer keeps what was read so far (unspecified by `Read`,
         -- for a `Cursor` it is left untouched) — all zero here
         .ok (hdr ++ List.replicate bodyLen 0) []
       else .ok (hdr ++ (b.take bodyLen).map (· % 256)) (b.drop bodyLen))

end OpcuaVerif.Enc
