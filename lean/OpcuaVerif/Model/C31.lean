/-
C31 — model of TranslateBrowsePathsToNodeIds.

Code modelled (repository copy, after the `fix:` commit for non-standard reference type ids):
* `lib/src/server/address_space/relative_path.rs` : `find_nodes_relative_path` (element loop,
  BadNodeIdUnknown / BadNothingToDo / BadBrowseNameInvalid / BadNoMatch), `follow_relative_path`
  (reference filter, direction, target must be a node whose browse name equals the target name,
  per-source de-duplication through a HashSet)
* `lib/src/server/address_space/references.rs` : `find_references`, `find_inverse_references`,
  `filter_references_by_type`, `reference_type_matches` (stack DFS over HasSubtype references)
* `lib/src/server/services/view.rs` : `translate_browse_paths_to_node_ids` (status + targets).

Abstractions: node ids, reference type ids and browse names (namespace + name) are naturals, 0 =
null; the address space is a list of nodes and a list of reference triples (the per-source vectors
and the `referenced_by_map` only determine an order, and results are compared as sorted lists);
`reference_type_matches` is a fuel-bounded depth-first search (fuel = number of references, enough
on acyclic HasSubtype graphs; cyclic ones make the real loop spin and belong to C33).
-/
namespace OpcuaVerif.C31

/-- NodeId of the HasSubtype reference type -/
def hasSubtype : Nat := 45

structure Graph where
  nodes : List (Nat × Nat)            -- node id ↦ browse name
  refs : List (Nat × Nat × Nat)       -- (source, reference type, target)
deriving Repr, DecidableEq

structure Elem where
  refType : Nat                       -- 0 = null NodeId
  inverse : Bool
  sub : Bool                          -- include_subtypes
  name : Nat                          -- 0 = null QualifiedName
deriving Repr, DecidableEq

def nodeName? : List (Nat × Nat) → Nat → Option Nat
  | [], _ => none
  | (i, nm) :: rest, n => if i = n then some nm else nodeName? rest n

/-- direct subtypes of `t`: targets of its HasSubtype references -/
def children (refs : List (Nat × Nat × Nat)) (t : Nat) : List Nat :=
  (refs.filter fun r => r.1 = t ∧ r.2.1 = hasSubtype).map fun r => r.2.2

/-- `t` is reachable from `base` through HasSubtype references (depth-first, `fuel` levels) -/
def reach (refs : List (Nat × Nat × Nat)) : Nat → Nat → Nat → Bool
  | 0, base, t => base == t
  | f + 1, base, t => base == t || (children refs base).any fun c => reach refs f c t

/-- `reference_type_matches(ref_type = flt, ref_subtype = t, include_subtypes)` -/
def tyMatches (g : Graph) (flt : Nat) (sub : Bool) (t : Nat) : Bool :=
  flt == t || (sub && reach g.refs g.refs.length flt t)

/-- NodeId::as_reference_type_id succeeds: a namespace-0 numeric id of a standard reference type.
Ids ≥ 1000 stand for reference types in another namespace, 9999 for a namespace-0 id that is not a
reference type. -/
def isStdTy (t : Nat) : Bool := 31 ≤ t && t < 1000

/-- the reference filter of `follow_relative_path`.  `fixed = false` is the pinned source: an id
that is not a standard namespace-0 reference type DISABLES the filter. -/
def filterOf (fixed : Bool) (e : Elem) : Option (Nat × Bool) :=
  if e.refType = 0 then none
  else if fixed then some (e.refType, e.sub)
  else if isStdTy e.refType then some (e.refType, e.sub) else none

def passes (g : Graph) (flt : Option (Nat × Bool)) (ty : Nat) : Bool :=
  match flt with
  | none => true
  | some (f, sub) => tyMatches g f sub ty

/-- candidate targets of one element from node `n`: forward → targets of n's references, inverse →
sources of references to n -/
def candidates (g : Graph) (flt : Option (Nat × Bool)) (inverse : Bool) (n : Nat) : List Nat :=
  if inverse then (g.refs.filter fun r => r.2.2 = n ∧ passes g flt r.2.1).map fun r => r.1
  else (g.refs.filter fun r => r.1 = n ∧ passes g flt r.2.1).map fun r => r.2.2

/-- `Vec → HashSet → Vec` -/
def dedup : List Nat → List Nat
  | [] => []
  | x :: xs => if x ∈ dedup xs then dedup xs else x :: dedup xs

/-- `follow_relative_path`: the de-duplicated targets that exist and carry the target name -/
def followWith (fixed : Bool) (g : Graph) (e : Elem) (n : Nat) : List Nat :=
  (candidates g (filterOf fixed e) e.inverse n).filter (fun t =>
      match nodeName? g.nodes t with
      | some nm => e.name = 0 ∨ nm = e.name
      | none => false) |> dedup

inductive Status where
  | good | badNodeIdUnknown | badNothingToDo | badBrowseNameInvalid | badNoMatch | badTooManyOperations
deriving Repr, DecidableEq

/-- the element loop of `find_nodes_relative_path` -/
def walkWith (fixed : Bool) (g : Graph) : List Elem → List Nat → Except Status (List Nat)
  | [], cur => .ok cur
  | e :: es, cur =>
    if e.name = 0 then .error .badBrowseNameInvalid
    else
      let next := cur.flatMap (followWith fixed g e)
      if next.isEmpty then .ok [] else walkWith fixed g es next

/-- `find_nodes_relative_path` (elements present) -/
def translateWith (fixed : Bool) (g : Graph) (start : Nat) (es : List Elem) : Except Status (List Nat) :=
  match nodeName? g.nodes start with
  | none => .error .badNodeIdUnknown
  | some _ =>
    if es.isEmpty then .error .badNothingToDo
    else match walkWith fixed g es [start] with
      | .error s => .error s
      | .ok [] => .error .badNoMatch
      | .ok ns => .ok ns

/-- the current source -/
def translate := translateWith true

/-! ### the graph changes between translations -/

/-- `AddressSpace::delete_reference(source, target, type)`: removes exactly that triple; true iff it existed -/
def deleteRef (g : Graph) (s ty t : Nat) : Graph × Bool :=
  ({ g with refs := g.refs.filter fun r => !(r.1 = s ∧ r.2.1 = ty ∧ r.2.2 = t) }, g.refs.contains (s, ty, t))

/-- `find_aggregates_of`: targets of the references of `id` whose type is Aggregates (44) or a subtype -/
def aggChildren (g : Graph) (id : Nat) : List Nat :=
  (g.refs.filter fun r => r.1 = id ∧ tyMatches g 44 true r.2.1).map fun r => r.2.2

/-- `AddressSpace::delete_visiting`: every node once (visited set), children first, then the node,
then — with `delete_target_references` — every reference from or to it.  Returns the graph, the
visited set and the function's result (`removed_node || removed_target_references`). -/
def deleteVisiting : Nat → Graph → Nat → Bool → List Nat → Graph × List Nat × Bool
  | 0, g, _, _, vis => (g, vis, false)
  | f + 1, g, id, dtr, vis =>
    if vis.contains id then (g, vis, false) else
    let r := (aggChildren g id).foldl
      (fun (acc : Graph × List Nat) c => let x := deleteVisiting f acc.1 c dtr acc.2; (x.1, x.2.1)) (g, id :: vis)
    let g1 := r.1
    let removedNode := (nodeName? g1.nodes id).isSome
    let hadRefs := g1.refs.any fun e => e.1 = id ∨ e.2.2 = id
    let g2 : Graph :=
      { nodes := g1.nodes.filter fun n => n.1 ≠ id
        refs := if dtr then g1.refs.filter fun e => !(e.1 = id ∨ e.2.2 = id) else g1.refs }
    (g2, r.2, removedNode || (dtr && hadRefs))

/-- `AddressSpace::delete(node, delete_target_references)` -/
def deleteNode (g : Graph) (id : Nat) (dtr : Bool) : Graph × Bool :=
  let r := deleteVisiting (g.refs.length + 1) g id dtr []
  (r.1, r.2.2)

/-- answer of the TranslateBrowsePathsToNodeIds service: a service fault, or one result per path -/
inductive ReqOut where
  | fault (s : Status)
  | results (rs : List (Except Status (List Nat)))

/-- `ViewService::translate_browse_paths_to_node_ids`: empty request → BadNothingToDo, more paths
than `max_nodes_per_translate_browse_paths_to_node_ids` → BadTooManyOperations, a path without an
element array → BadNothingToDo for that path -/
def translateRequest (limit : Nat) (g : Graph) (paths : List (Nat × Option (List Elem))) : ReqOut :=
  if paths.isEmpty then .fault .badNothingToDo
  else if paths.length ≤ limit then
    .results (paths.map fun p => match p.2 with
      | none => .error .badNothingToDo
      | some es => translate g p.1 es)
  else .fault .badTooManyOperations

end OpcuaVerif.C31
