/-
C30 — model of Browse / BrowseNext paging and the per-session continuation-point store.

Code modelled (repository copy, after the `fix:` commit for delete / delete_reference):
* `lib/src/server/services/view.rs`  : `browse` (clamp of requested_max_references_per_node),
  `browse_node` (reference filter, node-class mask, result mask, `is_forward`),
  `browse_next`, `browse_from_continuation_point`, `reference_description_to_browse_result`
* `lib/src/server/session.rs`        : `add_browse_continuation_point` (bounded VecDeque),
  `find_browse_continuation_point` (find REMOVES), `remove_expired_browse_continuation_points`,
  `remove_browse_continuation_points`
* `lib/src/server/continuation_point.rs` : `is_valid_browse_continuation_point`
* `lib/src/server/address_space/address_space.rs` : `insert`, `insert_reference`, `delete`,
  `delete_reference`, `update_last_modified`; `references.rs` : `find_references_by_direction`,
  `filter_references_by_type`, `reference_type_matches`, `delete_node_references`.

Abstractions: node ids, reference type ids and node classes are naturals; `last_modified` (a wall
clock reading) is a counter that strictly increases at every `update_last_modified`; continuation
point ids (6 random bytes) are fresh naturals in order of issue; the `referenced_by_map` is the
derived inverse of `references_map` (its consistency is property C28) and the order in which its
`HashSet`s iterate is unspecified: the model uses the order of the forward map, drivers print
inverse results order-insensitively.  The HasSubtype tree of the reference types used is the fixed
table `parentTy` (the harness installs exactly these HasSubtype references).
The graph-mutation part is faithful on graphs whose references go from a smaller to a larger node
id (no cycles, no opposite-direction pairs) — the driver rejects other `ref` ops.
-/
namespace OpcuaVerif.C30

structure Ref where
  ty : Nat
  target : Nat
deriving Repr, DecidableEq

/-- the printed part of a `ReferenceDescription` -/
structure Desc where
  target : Nat
  ty : Nat          -- 0 (null) when the result mask hides it
  fwd : Bool
  cls : Nat         -- 0 (Unspecified) when the result mask hides it
deriving Repr, DecidableEq

structure Space where
  nodes : List (Nat × Nat)          -- node_map: id ↦ node class bit
  refs : List (Nat × List Ref)      -- references_map: source ↦ references in insertion order
  lastMod : Nat
deriving Repr, DecidableEq

/-! ### reference types -/

/-- HasSubtype parent of the standard reference types the model knows. -/
def parentTy : Nat → Option Nat
  | 32 => some 31 | 33 => some 31 | 34 => some 33 | 35 => some 33 | 40 => some 32
  | 44 => some 34 | 45 => some 34 | 46 => some 44 | 47 => some 44
  | _ => none

def stdTypes : List Nat := [31, 32, 33, 34, 35, 40, 44, 45, 46, 47]

/-- `NodeId::as_reference_type_id` succeeds (restricted to the ids the driver admits) -/
def isStdTy (t : Nat) : Bool := stdTypes.contains t

/-- `t` is `base` or below it in the HasSubtype tree -/
def isSubTy : Nat → Nat → Nat → Bool
  | 0, t, base => t == base
  | f + 1, t, base => t == base || (match parentTy t with
      | some p => isSubTy f p base
      | none => false)

/-- `reference_type_matches(ref_type = f, ref_subtype = t, include_subtypes)` -/
def tyMatches (f : Nat) (sub : Bool) (t : Nat) : Bool :=
  f == t || (sub && isSubTy 6 t f)

/-- the filter `browse_node` derives from `reference_type_id` / `include_subtypes` -/
def filterOf (ty : Nat) (sub : Bool) : Option (Nat × Bool) :=
  if ty = 0 then none else if isStdTy ty then some (ty, sub) else none

def filterRefs (flt : Option (Nat × Bool)) (rs : List Ref) : List Ref :=
  match flt with
  | none => rs
  | some (f, sub) => rs.filter fun r => tyMatches f sub r.ty

/-! ### address space queries -/

def lookupRefs : List (Nat × List Ref) → Nat → List Ref
  | [], _ => []
  | (s, rs) :: rest, n => if s = n then rs else lookupRefs rest n

def nodeClass? : List (Nat × Nat) → Nat → Option Nat
  | [], _ => none
  | (i, c) :: rest, n => if i = n then some c else nodeClass? rest n

/-- inverse references of `n` (as `Reference { type, target := source }`) -/
def invRefs (refs : List (Nat × List Ref)) (n : Nat) : List Ref :=
  refs.flatMap fun (s, rs) => (rs.filter fun r => r.target = n).map fun r => ⟨r.ty, s⟩

/-- `find_references_by_direction`: references tagged with `idx < inverse_ref_idx` -/
def refsByDirection (sp : Space) (n dir : Nat) (flt : Option (Nat × Bool)) : List (Ref × Bool) :=
  let fs := (filterRefs flt (lookupRefs sp.refs n)).map fun r => (r, true)
  let is := (filterRefs flt (invRefs sp.refs n)).map fun r => (r, false)
  if dir = 0 then fs else if dir = 1 then is else if dir = 2 then fs ++ is else []

def describe (sp : Space) (mask rmask : Nat) (p : Ref × Bool) : Option Desc :=
  match nodeClass? sp.nodes p.1.target with
  | none => none
  | some c =>
    let m := mask % 256                       -- NodeClassMask::from_bits_truncate
    if c ≠ 0 ∧ m ≠ 0 ∧ (m / c) % 2 = 0 then none
    else some { target := p.1.target
                ty := if rmask % 2 = 1 then p.1.ty else 0
                fwd := if rmask / 2 % 2 = 1 then p.2 else true
                cls := if rmask / 4 % 2 = 1 then c else 0 }

/-- the reference descriptions `browse_node` builds; `none` = BadNodeIdUnknown -/
def browseDescs (sp : Space) (n dir ty : Nat) (sub : Bool) (mask rmask : Nat) : Option (List Desc) :=
  match nodeClass? sp.nodes n with
  | none => none
  | some _ => some ((refsByDirection sp n dir (filterOf ty sub)).filterMap (describe sp mask rmask))

/-! ### address space mutations -/

/-- `update_last_modified` -/
def bump (sp : Space) : Space := { sp with lastMod := sp.lastMod + 1 }

/-- `AddressSpace::insert(node, None)` -/
def insertNode (sp : Space) (id cls : Nat) : Space × Bool :=
  match nodeClass? sp.nodes id with
  | some _ => (sp, false)
  | none => (bump { sp with nodes := sp.nodes ++ [(id, cls)] }, true)

def addRef : List (Nat × List Ref) → Nat → Ref → List (Nat × List Ref)
  | [], s, r => [(s, [r])]
  | (s', rs) :: rest, s, r =>
    if s' = s then (s', if rs.contains r then rs else rs ++ [r]) :: rest
    else (s', rs) :: addRef rest s r

/-- `AddressSpace::insert_reference` -/
def insertRef (sp : Space) (s t ty : Nat) : Space :=
  bump { sp with refs := addRef sp.refs s ⟨ty, t⟩ }

def dropEmpty (refs : List (Nat × List Ref)) : List (Nat × List Ref) :=
  refs.filter fun e => !e.2.isEmpty

/-- `AddressSpace::delete_reference`; `bumpOnDelete = false` is the pinned source, which forgot
`update_last_modified` -/
def deleteRefWith (bumpOnDelete : Bool) (sp : Space) (s t ty : Nat) : Space × Bool :=
  let deleted := (lookupRefs sp.refs s).contains ⟨ty, t⟩
  let refs := dropEmpty (sp.refs.map fun e =>
    if e.1 = s then (e.1, e.2.filter fun r => !(r.ty = ty ∧ r.target = t)) else e)
  let sp' := { sp with refs := refs }
  (if bumpOnDelete then bump sp' else sp', deleted)

/-- `References::delete_node_references` -/
def deleteNodeRefs (sp : Space) (id : Nat) : Space × Bool :=
  let hadOut := !(lookupRefs sp.refs id).isEmpty
  let hadIn := !(invRefs sp.refs id).isEmpty
  let refs := dropEmpty ((sp.refs.filter fun e => e.1 ≠ id).map fun e =>
    (e.1, e.2.filter fun r => r.target ≠ id))
  ({ sp with refs := refs }, hadOut || hadIn)

/-- targets of `find_aggregates_of` -/
def aggregatesOf (sp : Space) (id : Nat) : List Nat :=
  (filterRefs (some (44, true)) (lookupRefs sp.refs id)).map (·.target)

/-- `AddressSpace::delete` (recursion on the aggregated children, collected before recursing).
`fuel` bounds the recursion depth; on the acyclic graphs the driver admits the depth is at most
the number of sources. -/
def deleteNodeWith (bumpOnDelete : Bool) : Nat → Space → Nat → Bool → Space × Bool
  | 0, sp, _, _ => (sp, false)
  | f + 1, sp, id, dtr =>
    let sp1 := (aggregatesOf sp id).foldl (fun sp c => (deleteNodeWith bumpOnDelete f sp c dtr).1) sp
    let removedNode := (nodeClass? sp1.nodes id).isSome
    let sp2 := { sp1 with nodes := sp1.nodes.filter fun e => e.1 ≠ id }
    let r := if dtr then deleteNodeRefs sp2 id else (sp2, false)
    (if bumpOnDelete then bump r.1 else r.1, removedNode || r.2)

/-! ### continuation points -/

structure CP where
  id : Nat
  lm : Nat            -- address_space_last_modified
  maxRefs : Nat
  start : Nat
  descs : List Desc
deriving Repr, DecidableEq

structure Sess where
  cps : List CP       -- oldest first
  nextId : Nat
deriving Repr, DecidableEq

/-- MAX_BROWSE_CONTINUATION_POINTS -/
def maxCPs : Nat := 20

/-- `add_browse_continuation_point`: pop the front while `len ≥ max`, then push -/
def addCP (cps : List CP) (c : CP) : List CP :=
  cps.drop (cps.length + 1 - maxCPs) ++ [c]

inductive Status where
  | good | cpInvalid | nodeUnknown
deriving Repr, DecidableEq

structure BrowseResult where
  status : Status
  cp : Option Nat
  refs : Option (List Desc)
deriving Repr, DecidableEq

def invalidResult : BrowseResult := ⟨.cpInvalid, none, none⟩

/-- `reference_description_to_browse_result`; `none` = panic (`len - starting_index` on `usize`) -/
def toResult (lastMod : Nat) (s : Sess) (descs : List Desc) (start k : Nat) :
    Option (Sess × BrowseResult) :=
  if descs.length < start then none
  else if 0 < k ∧ k < descs.length - start then
    let id := s.nextId
    let c : CP := { id := id, lm := lastMod, maxRefs := k, start := start + k, descs := descs }
    some ({ cps := addCP s.cps c, nextId := id + 1 }, ⟨.good, some id, some ((descs.drop start).take k)⟩)
  else some (s, ⟨.good, none, some (descs.drop start)⟩)

/-- the clamp in `browse` (DEFAULT_MAX_REFERENCES_PER_NODE = 255) -/
def clampMax (req : Nat) : Nat := if req = 0 then 255 else if req > 255 then 255 else req

def browse (sp : Space) (s : Sess) (n dir ty : Nat) (sub : Bool) (mask rmask req : Nat) :
    Option (Sess × BrowseResult) :=
  match browseDescs sp n dir ty sub mask rmask with
  | none => some (s, ⟨.nodeUnknown, none, none⟩)
  | some ds => toResult sp.lastMod s ds 0 (clampMax req)

/-- `browse_nodes`: the nodes of one Browse request in order, each may add a continuation point -/
def browseMany (sp : Space) (dir ty : Nat) (sub : Bool) (mask rmask req : Nat) :
    Sess → List Nat → Option (Sess × List BrowseResult)
  | s, [] => some (s, [])
  | s, n :: ns =>
    match browse sp s n dir ty sub mask rmask req with
    | none => none
    | some (s', r) =>
      match browseMany sp dir ty sub mask rmask req s' ns with
      | none => none
      | some (s'', rs) => some (s'', r :: rs)

/-- `remove_expired_browse_continuation_points` -/
def removeExpired (lastMod : Nat) (cps : List CP) : List CP :=
  cps.filter fun c => lastMod ≤ c.lm

/-- `find_browse_continuation_point`: first match, REMOVED -/
def findCP : List CP → Nat → Option CP × List CP
  | [], _ => (none, [])
  | c :: rest, id =>
    if c.id = id then (some c, rest)
    else ((findCP rest id).1, c :: (findCP rest id).2)

/-- `browse_from_continuation_point` -/
def nextOne (lastMod : Nat) (s : Sess) (id : Nat) : Option (Sess × BrowseResult) :=
  match findCP s.cps id with
  | (none, _) => some (s, invalidResult)
  | (some c, rest) => toResult lastMod { s with cps := rest } c.descs c.start c.maxRefs

def nextMany (lastMod : Nat) : Sess → List Nat → Option (Sess × List BrowseResult)
  | s, [] => some (s, [])
  | s, id :: ids =>
    match nextOne lastMod s id with
    | none => none
    | some (s', r) =>
      match nextMany lastMod s' ids with
      | none => none
      | some (s'', rs) => some (s'', r :: rs)

/-- `remove_browse_continuation_points` -/
def release (cps : List CP) (ids : List Nat) : List CP :=
  cps.filter fun c => !ids.contains c.id

/-! ### every mutating entry point of `AddressSpace` and of the NodeManagement services -/

/-- `AddressSpace::insert(node, Some(&[(parent, ty, Inverse)]))`: node plus the reference
parent → node; nothing at all when the node exists -/
def insertNodeP (sp : Space) (id cls parent ty : Nat) : Space × Bool :=
  match nodeClass? sp.nodes id with
  | some _ => (sp, false)
  | none => (bump { sp with nodes := sp.nodes ++ [(id, cls)], refs := addRef sp.refs parent ⟨ty, id⟩ }, true)

/-- namespace-0 node ids that occur as reference targets (type definitions) live above this offset -/
def ns0 (n : Nat) : Nat := 100000 + n

/-- `AddressSpace::add_folder_with_id`: ObjectBuilder … is_folder() (HasTypeDefinition → FolderType
i=61) … organized_by(parent) … insert -/
def addFolder (sp : Space) (id parent : Nat) : Space × Bool :=
  match nodeClass? sp.nodes id with
  | some _ => (sp, false)
  | none =>
    (bump { sp with nodes := sp.nodes ++ [(id, 1)]
                    refs := addRef (addRef sp.refs id ⟨40, ns0 61⟩) parent ⟨35, id⟩ }, true)

/-- `AddressSpace::add_variables`: one `insert` per variable, then `update_last_modified` -/
def addVariables (sp : Space) (parent : Nat) : List Nat → Space × List Bool
  | [] => (bump sp, [])
  | id :: ids =>
    let r := insertNodeP sp id 2 parent 35
    let rest := addVariables r.1 parent ids
    (rest.1, r.2 :: rest.2)

/-- `AddressSpace::insert_references` -/
def insertRefs (sp : Space) (l : List (Nat × Nat × Nat)) : Space :=
  bump { sp with refs := l.foldl (fun refs r => addRef refs r.1 ⟨r.2.2, r.2.1⟩) sp.refs }

/-- status codes of the NodeManagement services (the arms reachable from the driver) -/
inductive Svc where
  | good | badNodeIdUnknown | badSourceNodeIdInvalid | badTargetNodeIdInvalid
  | badReferenceTypeIdInvalid | badNodeClassInvalid | badDuplicateReferenceNotAllowed
deriving Repr, DecidableEq

/-- one mutation of the address space -/
inductive Mut where
  | node (id cls : Nat)                        -- insert(node, None)
  | nodep (id cls parent ty : Nat)             -- insert(node, Some(&[(parent, ty, Inverse)]))
  | ref (s t ty : Nat)                         -- insert_reference
  | refs (l : List (Nat × Nat × Nat))          -- insert_references, (source, target, type)
  | settype (id t : Nat)                       -- set_node_type(id, ns=0;i=t)
  | folder (id parent : Nat)                   -- add_folder_with_id
  | addvars (parent : Nat) (ids : List Nat)    -- add_variables
  | delref (s t ty : Nat)                      -- delete_reference
  | delnode (id : Nat) (dtr : Bool)            -- delete(id, delete_target_references)
  | sdelnode (id : Nat) (dtr : Bool)           -- DeleteNodes service, one item
  | sdelref (s t ty : Nat) (fwd bidir : Bool)  -- DeleteReferences service, one item
  | saddref (s t ty : Nat) (fwd : Bool) (cls : Nat)  -- AddReferences service, one item
deriving Repr, DecidableEq

inductive MRes where
  | unit
  | flag (b : Bool)
  | flags (bs : List Bool)
  | svc (s : Svc)
deriving Repr, DecidableEq

def hasRef (sp : Space) (s t ty : Nat) : Bool := (lookupRefs sp.refs s).contains ⟨ty, t⟩

/-- `bumpOnDelete = false` is the pinned source (delete paths forgot `update_last_modified`) -/
def applyMut (bumpOnDelete : Bool) (sp : Space) : Mut → Space × MRes
  | .node id cls => ((insertNode sp id cls).1, .flag (insertNode sp id cls).2)
  | .nodep id cls parent ty => ((insertNodeP sp id cls parent ty).1, .flag (insertNodeP sp id cls parent ty).2)
  | .ref s t ty => (insertRef sp s t ty, .unit)
  | .refs l => (insertRefs sp l, .unit)
  | .settype id t => (insertRef sp id (ns0 t) 40, .unit)
  | .folder id parent => ((addFolder sp id parent).1, .flag (addFolder sp id parent).2)
  | .addvars parent ids => ((addVariables sp parent ids).1, .flags (addVariables sp parent ids).2)
  | .delref s t ty => ((deleteRefWith bumpOnDelete sp s t ty).1, .flag (deleteRefWith bumpOnDelete sp s t ty).2)
  | .delnode id dtr =>
    ((deleteNodeWith bumpOnDelete (sp.refs.length + 1) sp id dtr).1,
     .flag (deleteNodeWith bumpOnDelete (sp.refs.length + 1) sp id dtr).2)
  | .sdelnode id dtr =>
    -- NodeManagementService::delete_node
    if (nodeClass? sp.nodes id).isNone then (sp, .svc .badNodeIdUnknown)
    else
      let r := deleteNodeWith bumpOnDelete (sp.refs.length + 1) sp id dtr
      (r.1, .svc (if r.2 then .good else .badNodeIdUnknown))
  | .sdelref s t ty fwd bidir =>
    -- NodeManagementService::delete_reference
    if (nodeClass? sp.nodes s).isNone then (sp, .svc .badSourceNodeIdInvalid)
    else if (nodeClass? sp.nodes t).isNone then (sp, .svc .badTargetNodeIdInvalid)
    else if !isStdTy ty then (sp, .svc .badReferenceTypeIdInvalid)
    else if bidir then
      ((deleteRefWith bumpOnDelete (deleteRefWith bumpOnDelete sp s t ty).1 t s ty).1, .svc .good)
    else if fwd then ((deleteRefWith bumpOnDelete sp s t ty).1, .svc .good)
    else ((deleteRefWith bumpOnDelete sp t s ty).1, .svc .good)
  | .saddref s t ty fwd cls =>
    -- NodeManagementService::add_reference (s ≠ t is a driver precondition)
    if (nodeClass? sp.nodes s).isNone then (sp, .svc .badSourceNodeIdInvalid)
    else match nodeClass? sp.nodes t with
      | none => (sp, .svc .badTargetNodeIdInvalid)
      | some c =>
        if cls = 0 then (sp, .svc .badNodeClassInvalid)
        else if cls ≠ c then (sp, .svc .badNodeClassInvalid)
        else if !isStdTy ty then (sp, .svc .badReferenceTypeIdInvalid)
        else if hasRef sp s t ty then (sp, .svc .badDuplicateReferenceNotAllowed)
        else if fwd then (insertRef sp s t ty, .svc .good)
        else (insertRef sp t s ty, .svc .good)

/-! ### the state machine the driver runs -/

inductive Op where
  | mutate (m : Mut)
  | browse (n dir ty : Nat) (sub : Bool) (mask rmask req : Nat)
  | browsem (ns : List Nat) (dir ty : Nat) (sub : Bool) (mask rmask req limit : Nat)  -- several nodes, one request
  | next (ids : List Nat)
  | release (ids : List Nat)
deriving Repr, DecidableEq

inductive Res where
  | mres (r : MRes)
  | browse (r : BrowseResult)
  | nexts (rs : List BrowseResult)
  | unit
  | fault                          -- ServiceFault BadNothingToDo
  | tooMany                        -- ServiceFault BadTooManyOperations
  | panic
deriving Repr, DecidableEq

structure St where
  sp : Space
  se : Sess
deriving Repr, DecidableEq

def init : St := { sp := ⟨[], [], 0⟩, se := ⟨[], 1⟩ }

def stepWith (bumpOnDelete : Bool) (st : St) : Op → St × Res
  | .mutate m => ({ st with sp := (applyMut bumpOnDelete st.sp m).1 }, .mres (applyMut bumpOnDelete st.sp m).2)
  | .browse n dir ty sub mask rmask req =>
    match browse st.sp st.se n dir ty sub mask rmask req with
    | none => (st, .panic)
    | some (se, r) => ({ st with se := se }, .browse r)
  | .browsem ns dir ty sub mask rmask req limit =>
    -- `max_nodes_per_browse` is the operational limit of the server
    if ns.isEmpty then (st, .fault) else
    if limit < ns.length then (st, .tooMany) else
    match browseMany st.sp dir ty sub mask rmask req st.se ns with
    | none => (st, .panic)
    | some (se, rs) => ({ st with se := se }, .nexts rs)
  | .next ids =>
    if ids.isEmpty then (st, .fault) else
    match nextMany st.sp.lastMod { st.se with cps := removeExpired st.sp.lastMod st.se.cps } ids with
    | none => (st, .panic)
    | some (se, rs) => ({ st with se := se }, .nexts rs)
  | .release ids =>
    if ids.isEmpty then (st, .fault) else
    ({ st with se := { st.se with cps := release st.se.cps ids } }, .unit)

/-- the current source (delete paths call `update_last_modified`) -/
def step := stepWith true

def runWith (b : Bool) : St → List Op → St × List Res
  | st, [] => (st, [])
  | st, op :: ops =>
    let r := stepWith b st op
    let rs := runWith b r.1 ops
    (rs.1, r.2 :: rs.2)

def run := runWith true

end OpcuaVerif.C30
