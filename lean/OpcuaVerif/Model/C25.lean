/-
C25 — model of the data-change filter of a monitored item.

Code modelled (repository copy, after the `fix:` commits recorded in findings/C25.json):
* `DataChangeFilter::compare / compare_value_option / compare_value / abs_compare`
  (`lib/src/types/service_types/impls.rs`), with `eu_range = None` (the only call site passes `None`);
* `Variant::as_f64` and `Variant == Variant` for the scalar kinds used here (`lib/src/types/variant.rs`);
* `FilterType::from_filter` (decode + validation) and `MonitoredItem::check_for_data_change`
  (`lib/src/server/subscriptions/monitored_item.rs`): last value updated only on report, timestamps
  stripped from the notification according to `timestamps_to_return`.

Floats are exact: an `F` is NaN, ±∞ or a signed dyadic rational `m·2^e`; `f64` subtraction is the exact
difference rounded to nearest-even at 53 bits (subnormals at 2^-1074, overflow to ∞).  Lean `Float`
is not used anywhere.
-/
namespace OpcuaVerif.C25

/-! ### exact floats -/

inductive F where
  | nan
  | inf (neg : Bool)
  | fin (neg : Bool) (m : Nat) (e : Int)      -- value (-1)^neg · m · 2^e ; not normalised
deriving Repr, DecidableEq

/-- decode an IEEE-754 binary64 bit pattern -/
def decode64 (b : Nat) : F :=
  let neg := decide (b / 2 ^ 63 % 2 = 1)
  let ex := b / 2 ^ 52 % 2048
  let fr := b % 2 ^ 52
  if ex = 2047 then (if fr = 0 then .inf neg else .nan)
  else if ex = 0 then .fin neg fr (-1074)
  else .fin neg (2 ^ 52 + fr) (Int.ofNat ex - 1075)

/-- decode an IEEE-754 binary32 bit pattern (every f32 is exactly an f64: `as f64` is exact) -/
def decode32 (b : Nat) : F :=
  let neg := decide (b / 2 ^ 31 % 2 = 1)
  let ex := b / 2 ^ 23 % 256
  let fr := b % 2 ^ 23
  if ex = 255 then (if fr = 0 then .inf neg else .nan)
  else if ex = 0 then .fin neg fr (-149)
  else .fin neg (2 ^ 23 + fr) (Int.ofNat ex - 150)

/-- number of significant bits -/
def bitlen (m : Nat) : Nat := if m = 0 then 0 else Nat.log2 m + 1

/-- `m · 2^(e - lo)` for `lo ≤ e` -/
def scale (m : Nat) (e lo : Int) : Nat := m * 2 ^ (e - lo).toNat

/-- `m1·2^e1 ≤ m2·2^e2` on exact dyadics -/
def mle (m1 : Nat) (e1 : Int) (m2 : Nat) (e2 : Int) : Bool :=
  decide (scale m1 e1 (min e1 e2) ≤ scale m2 e2 (min e1 e2))

/-- round the exact dyadic `±m·2^e` to the nearest binary64 (ties to even) -/
def round64 (neg : Bool) (m : Nat) (e : Int) : F :=
  if m = 0 then .fin neg 0 0 else
  let q : Int := max (e + Int.ofNat (bitlen m) - 53) (-1074)
  if q ≤ e then
    (if e + Int.ofNat (bitlen m) > 1024 then .inf neg else .fin neg m e)
  else
    let sh := (q - e).toNat
    let mant := m / 2 ^ sh
    let rem := m % 2 ^ sh
    let half := 2 ^ (sh - 1)
    let mant' := if rem > half ∨ (rem = half ∧ mant % 2 = 1) then mant + 1 else mant
    if q + Int.ofNat (bitlen mant') > 1024 then .inf neg else .fin neg mant' q

/-- integer → f64 (`as f64`: round to nearest even) -/
def ofInt (n : Int) : F := round64 (decide (n < 0)) n.natAbs 0

def signed (neg : Bool) (m : Nat) : Int := if neg then - Int.ofNat m else Int.ofNat m

/-- f64 subtraction -/
def fsub : F → F → F
  | .nan, _ => .nan
  | _, .nan => .nan
  | .inf s, .inf t => if s = t then .nan else .inf s
  | .inf s, .fin .. => .inf s
  | .fin .., .inf t => .inf (!t)
  | .fin n1 m1 e1, .fin n2 m2 e2 =>
    let lo := min e1 e2
    let d : Int := signed n1 (scale m1 e1 lo) - signed n2 (scale m2 e2 lo)
    round64 (decide (d < 0)) d.natAbs lo

def fabs : F → F
  | .nan => .nan
  | .inf _ => .inf false
  | .fin _ m e => .fin false m e

/-- IEEE `a ≤ b` -/
def fle : F → F → Bool
  | .nan, _ => false
  | _, .nan => false
  | .inf n1, .inf n2 => n1 || !n2
  | .inf n1, .fin .. => n1
  | .fin .., .inf n2 => !n2
  | .fin n1 m1 e1, .fin n2 m2 e2 =>
    match n1, n2 with
    | false, false => mle m1 e1 m2 e2
    | true, true => mle m2 e2 m1 e1
    | true, false => true
    | false, true => decide (m1 = 0 ∧ m2 = 0)

/-- IEEE `a == b` -/
def feq (a b : F) : Bool := fle a b && fle b a

/-- IEEE `a < 0.0` -/
def flt0 : F → Bool
  | .nan => false
  | .inf n => n
  | .fin n m _ => n && decide (m ≠ 0)

/-- IEEE `a >= 0.0` -/
def fge0 : F → Bool
  | .nan => false
  | .inf n => !n
  | .fin n m _ => !n || decide (m = 0)

/-- `DataChangeFilter::abs_compare` : `(v1 - v2).abs() <= threshold` -/
def absCompare (v1 v2 d : F) : Bool := fle (fabs (fsub v1 v2)) d

/-! ### values -/

/-- the scalar `Variant`s the model covers; `null` is `DataValue.value = None` -/
inductive Val where
  | null
  | int (kind : Nat) (v : Int)       -- kind = variant type id: 2 SByte … 9 UInt64
  | flt (bits : Nat)                 -- Float
  | dbl (bits : Nat)                 -- Double
  | str (bytes : List Nat)           -- String
  | bool (b : Bool)
deriving Repr, DecidableEq

/-- `Variant::as_f64` -/
def asF64 : Val → Option F
  | .int _ v => some (ofInt v)
  | .flt b => some (decode32 b)
  | .dbl b => some (decode64 b)
  | _ => none

/-- `Variant == Variant` (derived `PartialEq`; floats compare by IEEE `==`) -/
def veq : Val → Val → Bool
  | .int k1 v1, .int k2 v2 => decide (k1 = k2 ∧ v1 = v2)
  | .flt a, .flt b => feq (decode32 a) (decode32 b)
  | .dbl a, .dbl b => feq (decode64 a) (decode64 b)
  | .str a, .str b => decide (a = b)
  | .bool a, .bool b => decide (a = b)
  | _, _ => false

/-- `Option<Variant> == Option<Variant>` -/
def optEq : Val → Val → Bool
  | .null, .null => true
  | .null, _ => false
  | _, .null => false
  | a, b => veq a b

structure Sample where
  status : Option Nat
  value : Val
  src : Option Int         -- source timestamp
  srv : Option Int         -- server timestamp
deriving Repr, DecidableEq

/-! ### the filter -/

structure DCF where
  trigger : Nat            -- 0 Status, 1 StatusValue, 2 StatusValueTimestamp
  dbType : Nat             -- 0 None, 1 Absolute, 2 Percent, other = unknown
  dbVal : Nat              -- f64 bit pattern
deriving Repr, DecidableEq

inductive Filter where
  | none
  | dcf (f : DCF)
deriving Repr, DecidableEq

/-- Variants of the source the model can follow.  `current` is the repository copy as it is now;
the other flags reproduce the pinned source before each `fix:` commit (used only by the
counterexample theorems). -/
structure Src where
  validate : Bool          -- `from_filter` rejects deadbands that cannot be evaluated
  nonNumEq : Bool          -- deadband on non-numeric values falls back to `v1 == v2`
  srcTs : Bool             -- StatusValueTimestamp also compares the source timestamp
deriving Repr, DecidableEq

def current : Src := { validate := true, nonNumEq := true, srcTs := true }
def pinned : Src := { validate := false, nonNumEq := false, srcTs := false }

/-- `compare_value` with `eu_range = None`; `none` = `Err(BadDeadbandFilterInvalid)` -/
def compareValue (c : Src) (f : DCF) (v1 v2 : Val) : Option Bool :=
  if f.dbType = 0 then some (veq v1 v2)
  else match asF64 v1, asF64 v2 with
    | some a, some b =>
      if flt0 (decode64 f.dbVal) then none
      else if f.dbType = 1 then some (absCompare a b (decode64 f.dbVal))
      else none                                   -- Percent without EU range, or unknown type
    | _, _ => some (if c.nonNumEq then veq v1 v2 else false)

/-- `compare_value_option` (true = "same") -/
def compareValueOption (c : Src) (f : DCF) : Val → Val → Bool
  | .null, .null => true
  | .null, _ => false
  | _, .null => false
  | a, b => (compareValue c f a b).getD true       -- `.unwrap_or(true)`

/-- `DataChangeFilter::compare` (true = "same") -/
def compare (c : Src) (f : DCF) (s1 s2 : Sample) : Bool :=
  if f.trigger = 0 then decide (s1.status = s2.status)
  else if f.trigger = 1 then decide (s1.status = s2.status) && compareValueOption c f s1.value s2.value
  else decide (s1.status = s2.status) && compareValueOption c f s1.value s2.value
    && (if c.srcTs then decide (s1.src = s2.src) else true) && decide (s1.srv = s2.srv)

inductive CreateErr where
  | unexpected            -- BadUnexpectedError (enum decode)
  | unsupported           -- BadMonitoredItemFilterUnsupported
  | deadbandInvalid       -- BadDeadbandFilterInvalid
  | notAllowed            -- BadFilterNotAllowed (not a filter this server knows)
  | decoding              -- BadDecodingError (no body / body too short)
deriving Repr, DecidableEq

/-- `FilterType::from_filter` for a null filter (`none`) or a DataChangeFilter body -/
def fromFilter (c : Src) : Option DCF → Except CreateErr Filter
  | none => .ok .none
  | some f =>
    if f.trigger > 2 then .error .unexpected
    else if c.validate ∧ f.dbType = 2 then .error .unsupported
    else if c.validate ∧ f.dbType ≠ 0 ∧ (f.dbType ≠ 1 ∨ ¬ fge0 (decode64 f.dbVal)) then .error .deadbandInvalid
    else .ok (.dcf f)

structure Item where
  filter : Filter
  ttr : Nat                 -- timestamps_to_return: 0 Source 1 Server 2 Both 3 Neither 4 Invalid
  last : Option Sample      -- last_data_value
deriving Repr, DecidableEq

/-- does the sample count as a data change? (`check_for_data_change`, `resend_data = false`) -/
def dataChange (c : Src) (it : Item) (s : Sample) : Bool :=
  match it.last with
  | none => true
  | some l =>
    match it.filter with
    | .none => !optEq s.value l.value
    | .dcf f => !compare c f s l

/-- the notification value: timestamps the subscriber did not ask for are stripped -/
def strip (ttr : Nat) (s : Sample) : Sample :=
  if ttr = 0 then { s with srv := none }
  else if ttr = 1 then { s with src := none }
  else if ttr = 2 then s
  else { s with src := none, srv := none }

/-- `check_for_data_change`: new item state and the notification produced (if any) -/
def sample (c : Src) (it : Item) (s : Sample) : Item × Option Sample :=
  if dataChange c it s then ({ it with last := some s }, some (strip it.ttr s))
  else (it, none)

/-- `MonitoredItem::modify` (filter part): `timestamps_to_return` is assigned first, then a
rejected filter returns early and leaves the old filter in place -/
def modify (c : Src) (it : Item) (ttr : Nat) (f : Option DCF) : Item × Option CreateErr :=
  let it := { it with ttr := ttr }
  match fromFilter c f with
  | .ok flt => ({ it with filter := flt }, none)
  | .error e => (it, some e)

/-- `MonitoredItem::new` followed by `validate_filter` (no result for data change filters) -/
def create (c : Src) (ttr : Nat) (f : Option DCF) : Except CreateErr Item :=
  match fromFilter c f with
  | .ok flt => .ok { filter := flt, ttr := ttr, last := none }
  | .error e => .error e

/-- the wire forms of the `filter` extension object that `from_filter` distinguishes -/
inductive FilterReq where
  | none                          -- null node id: no filter
  | dcf (f : DCF)                 -- DataChangeFilter, body of exactly 16 bytes
  | otherObject                   -- an object id that is neither DataChangeFilter nor EventFilter
  | notObject                     -- a node id that is not an object id at all
  | noBody (f : DCF)              -- DataChangeFilter id, but no byte string body
  | sized (f : DCF) (len : Nat)   -- DataChangeFilter id, body cut to / padded to `len` bytes
deriving Repr, DecidableEq

/-- `FilterType::from_filter` on every wire form (the decoder reads trigger, deadband type, deadband
value in this order and ignores trailing bytes) -/
def fromFilterReq (c : Src) : FilterReq → Except CreateErr Filter
  | .none => fromFilter c none
  | .dcf f => fromFilter c (some f)
  | .otherObject => .error .notAllowed
  | .notObject => .error .notAllowed
  | .noBody _ => .error .decoding
  | .sized f len =>
    if len < 4 then .error .decoding
    else if f.trigger > 2 then .error .unexpected
    else if len < 16 then .error .decoding
    else fromFilter c (some f)

def modifyReq (c : Src) (it : Item) (ttr : Nat) (r : FilterReq) : Item × Option CreateErr :=
  let it := { it with ttr := ttr }
  match fromFilterReq c r with
  | .ok flt => ({ it with filter := flt }, none)
  | .error e => (it, some e)

def createReq (c : Src) (ttr : Nat) (r : FilterReq) : Except CreateErr Item :=
  match fromFilterReq c r with
  | .ok flt => .ok { filter := flt, ttr := ttr, last := none }
  | .error e => .error e

end OpcuaVerif.C25
