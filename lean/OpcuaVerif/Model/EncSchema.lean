import OpcuaVerif.Model.Enc

/-!
Schema-directed codec for the generated service structures (`lib/src/types/service_types/*.rs`,
translator T1 `tools/translate/service_types.py` → `Generated/Schemas.lean`).

Every generated `BinaryEncoder` impl has the same shape: `byte_len` / `encode` / `decode` visit the
fields in declaration order, a field is either one value (`x.encode(stream)?`,
`T::decode(stream, decoding_options)?`) or an array (`write_array` / `read_array`: `i32` length, −1 =
null, limit `max_array_length`, `Vec::with_capacity(len)`); enums are a fixed-width integer whose
`decode` accepts exactly the listed discriminants; bitflag masks are a fixed-width integer passed
through `from_bits_truncate`.  A schema (`Ty`) says which of these a field is; nested structures
appear inline.
-/
namespace OpcuaVerif.Enc

inductive Ty where
  | sc (tid : Nat)                       -- built-in scalar, type id 1..22 (`decScalar`)
  | variant
  | dataValue
  | diagInfo
  | enm (width : Nat) (vals : List Nat) (fallback : Option Nat)
      -- accepted discriminants (unsigned reading); `fallback` = the variant an unknown value is
      -- mapped to (`Ok(Self::Invalid)`), `none` = unknown values are an error
  | flags (width : Nat) (mask : Nat)     -- `from_bits_truncate`
  | struct (fields : List Ty)
  | arr (elem : Ty)                      -- `Option<Vec<T>>`

inductive SVal where
  | sc (s : Scalar)
  | v (x : V)
  | dv (x : DV)
  | di (x : DI)
  | num (n : Nat)                        -- enum discriminant / flag bits (unsigned reading)
  | struct (fs : List SVal)
  | nullArr
  | arr (xs : List SVal)

/-- fixed-width little-endian integer (`width` ∈ {1, 2, 4}) -/
def leW (w n : Nat) : Bytes := if w = 1 then [n % 256] else if w = 2 then le16 n else le32 n

def rdW (w : Nat) (b : Bytes) : Option (Nat × Bytes) :=
  if w = 1 then rd8 b else if w = 2 then rd16 b else rd32 b

mutual
def encS : Ty → SVal → Bytes
  | .sc _, .sc s => encScalar s
  | .variant, .v x => encV true x
  | .dataValue, .dv x => encDV true x
  | .diagInfo, .di x => encDI true x
  | .enm w _ _, .num n => leW w n
  | .flags w _, .num n => leW w n
  | .struct ts, .struct fs => encFields ts fs
  | .arr _, .nullArr => [255, 255, 255, 255]
  | .arr t, .arr xs => le32 xs.length ++ encElems t xs
  | _, _ => []
def encFields : List Ty → List SVal → Bytes
  | t :: ts, f :: fs => encS t f ++ encFields ts fs
  | _, _ => []
def encElems : Ty → List SVal → Bytes
  | _, [] => []
  | t, x :: xs => encS t x ++ encElems t xs
end

mutual
/-- `byte_len` -/
def lenS : Ty → SVal → Nat
  | .sc _, .sc s => lenScalar s
  | .variant, .v x => lenV true x
  | .dataValue, .dv x => lenDV true x
  | .diagInfo, .di x => lenDI true x
  | .enm w _ _, .num _ => w
  | .flags w _, .num _ => w
  | .struct ts, .struct fs => lenFields ts fs
  | .arr _, .nullArr => 4
  | .arr t, .arr xs => 4 + lenElems t xs
  | _, _ => 0
def lenFields : List Ty → List SVal → Nat
  | t :: ts, f :: fs => lenS t f + lenFields ts fs
  | _, _ => 0
def lenElems : Ty → List SVal → Nat
  | _, [] => 0
  | t, x :: xs => lenS t x + lenElems t xs
end

section
variable (o : Opts) (cap : Nat) (fuel : Nat)

mutual
/-- `T::decode`; `fuel` is the stack budget handed to embedded Variant / DataValue / DiagnosticInfo
decoders, `d` the depth gauge -/
def decS : Ty → Nat → Bytes → Res SVal
  | .sc tid, d, b => (decScalar o cap d tid b).map .sc
  | .variant, d, b => (decV o cap true fuel d b).map .v
  | .dataValue, d, b => (decDV o cap true fuel d b).map .dv
  | .diagInfo, d, b => (decDI o cap true fuel d b).map .di
  | .enm w vals fb, _, b =>
    (Res.ofOpt (rdW w b)).bind fun n b =>
      if vals.contains n then .ok (.num n) b
      else match fb with
        | some f => .ok (.num f) b
        | none => .err
  | .flags w mask, _, b => (Res.ofOpt (rdW w b)).map fun n => .num (n &&& mask)
  | .struct ts, d, b => (decFields ts d b).map .struct
  | .arr t, d, b =>
    match rd32 b with
    | none => .err
    | some (n, r) =>
      if n = 4294967295 then .ok .nullArr r
      else if n ≥ 2147483648 then .err
      else if n > o.maxArr then .err
      else guardAlloc cap n ((decList (decS t d) n r).map .arr)
termination_by structural t => t
def decFields : List Ty → Nat → Bytes → Res (List SVal)
  | [], _, b => .ok [] b
  | t :: ts, d, b => (decS t d b).bind fun v b => (decFields ts d b).map fun vs => v :: vs
termination_by structural ts => ts
end

end

end OpcuaVerif.Enc
