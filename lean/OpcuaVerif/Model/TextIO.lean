import OpcuaVerif.Common
import OpcuaVerif.Model.Text
/-
Line-protocol helpers for the textual properties (driver side only; no theorem is about these):
strings travel as `s<hex of UTF-8>`, byte strings as `x<hex>`, `-` = null.
-/
namespace OpcuaVerif.Text

/-- `s68656c6c6f` → chars (UTF-8 decoded with the core decoder); `none` on malformed input -/
def strTok? (t : String) : Option (List Char) :=
  match t.toList with
  | 's' :: r =>
    match hexToBytes (String.ofList r) with
    | some bs =>
      (String.fromUTF8? (ByteArray.mk (bs.map UInt8.ofNat).toArray)).map (·.toList)
    | none => none
  | _ => none

/-- nullable string token: `-` = null -/
def optStrTok? (t : String) : Option (Option (List Char)) :=
  if t = "-" then some none else (strTok? t).map some

/-- `x0a0b` → bytes -/
def bytesTok? (t : String) : Option (List Nat) :=
  match t.toList with
  | 'x' :: r => hexToBytes (String.ofList r)
  | _ => none

def optBytesTok? (t : String) : Option (Option (List Nat)) :=
  if t = "-" then some none else (bytesTok? t).map some

/-- chars → `s<hex of UTF-8>` using the MODEL's UTF-8 encoder (so the correspondence checks it) -/
def strOut (cs : List Char) : String := "s" ++ bytesToHex (utf8 cs)

def optStrOut : Option (List Char) → String
  | none => "-"
  | some cs => strOut cs

def bytesOut (bs : List Nat) : String := "x" ++ bytesToHex bs

def optBytesOut : Option (List Nat) → String
  | none => "-"
  | some bs => bytesOut bs

end OpcuaVerif.Text
