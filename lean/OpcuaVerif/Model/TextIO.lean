import OpcuaVerif.Common
import OpcuaVerif.Model.Text
/-
Line-protocol helpers for the textual properties (driver side only; no theorem is about these):
strings travel as `s<hex of UTF-8>`, byte strings as `x<hex>`, `-` = null.
-/
namespace OpcuaVerif.Text

/-- `s68656c6c6f` → chars (UTF-8 decoded with the core decoder); `none` on malformed input -/
def strTok? (t : String) : Option (List Char) :=
  match t.toList with
  | 's' :: r =>
    match hexToBytes (String.ofList r) with
    | some bs =>
      (String.fromUTF8? (ByteArray.mk (bs.map UInt8.ofNat).toArray)).map (·.toList)
    | none => none
  | _ => none

/-- nullable string token: `-` = null -/
def optStrTok? (t : String) : Option (Option (List Char)) :=
  if t = "-" then some none else (strTok? t).map some

/-- `x0a0b` → bytes -/
def bytesTok? (t : String) : Option (List Nat) :=
  match t.toList with
  | 'x' :: r => hexToBytes (String.ofList r)
  | _ => none

def optBytesTok? (t : String) : Option (Option (List Nat)) :=
  if t = "-" then some none else (bytesTok? t).map some

/-- chars → `s<hex of UTF-8>` using the MODEL's UTF-8 encoder (so the correspondence checks it) -/
def strOut (cs : List Char) : String := "s" ++ bytesToHex (utf8 cs)

def optStrOut : Option (List Char) → String
  | none => "-"
  | some cs => strOut cs

def bytesOut (bs : List Nat) : String := "x" ++ bytesToHex bs

def optBytesOut : Option (List Nat) → String
  | none => "-"
  | some bs => bytesOut bs

/-! ### one-token term notation `name` | `name(t1,…)` | `name()` used by C05/C42/C41 drivers -/

inductive Tree where
  | node (name : List Char) (kids : List Tree)

def isNameChar (c : Char) : Bool := c ≠ '(' && c ≠ ')' && c ≠ ','

mutual
  def parseTree : Nat → List Char → Option (Tree × List Char)
    | 0, _ => none
    | f + 1, cs =>
      let name := (spanP isNameChar cs).1
      match (spanP isNameChar cs).2 with
      | '(' :: ')' :: r => some (.node name [], r)
      | '(' :: r =>
        match parseKids f r with
        | some (ks, r') => some (.node name ks, r')
        | none => none
      | r => some (.node name [], r)
  def parseKids : Nat → List Char → Option (List Tree × List Char)
    | 0, _ => none
    | f + 1, cs =>
      match parseTree f cs with
      | none => none
      | some (t, ',' :: r) =>
        match parseKids f r with
        | some (ts, r') => some (t :: ts, r')
        | none => none
      | some (t, ')' :: r) => some ([t], r)
      | some _ => none
end

def treeOf (s : String) : Option Tree :=
  match parseTree (s.length + 2) s.toList with
  | some (t, []) => some t
  | _ => none

end OpcuaVerif.Text
