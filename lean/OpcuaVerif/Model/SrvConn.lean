import OpcuaVerif.Model.C12

/-
One server connection, in full: `lib/src/server/comms/tcp_transport.rs` (`spawn_reading_loop_task`
dispatch, `wait_for_hello`, `process_hello`, `process_chunk`, `process_final_chunk`,
`turn_received_chunks_into_message`, `process_open_secure_channel`, `process_close_secure_channel`,
`process_message`), `secure_channel_service.rs` (`open_secure_channel` Issue/Renew,
`close_secure_channel`), the parts of `SecureChannel::verify_and_remove_security` that a
policy-None connection reaches (declared size ≠ length, unknown policy uri in an OPN chunk) and of
`Chunker::decode` / `MessageHandler::handle_message` that decide between a response and an error.

Shared by C10 (what is buffered), C15 (what is answered) and C12 (what is accepted).

Every chunk is described by: its type (MSG / OPN / CLO), its header triple, its is-final flag
(C / F / A), its total size in bytes, a malformation tag, and — used only when it starts a new
pending message — the request `rk` whose encoding opens the body stream the harness sends (the
rest of the stream is zero padding; chunk `i` carries the next `size - overhead(type)` bytes).

`guarded` / `bounded` = `false` give the pinned source (no "MSG needs an issued channel" guard,
no limits on `pending_chunks`).
-/
namespace OpcuaVerif.SrvConn
open OpcuaVerif.C11 OpcuaVerif.C12

inductive CType where
  | msg | opn | clo
deriving Repr, DecidableEq

/-- `MessageSecurityMode` as it arrives in an OpenSecureChannelRequest -/
inductive Mode where
  | invalid | none | sign | signAndEncrypt
deriving Repr, DecidableEq

/-- the request at the start of a pending message's body stream -/
inductive ReqKind where
  | getEndpoints | createSession
  -- an OpenSecureChannelRequest: request type, requested security mode, whether its
  -- `client_protocol_version` equals the one of the Hello, and the length of its nonce (`none` = null)
  | open (renew : Bool) (mode : Mode) (pvSame : Bool) (nonce : Option Nat)
  -- an OpenSecureChannelRequest whose request type / security mode field holds no enum value
  | openBadEnum
  | close | junk
deriving Repr, DecidableEq

/-- the plain requests the earlier rounds used -/
abbrev ReqKind.openIssue : ReqKind := .open false .none true none
abbrev ReqKind.openRenew : ReqKind := .open true .none true none

/-- malformation of one chunk -/
inductive Mal where
  | ok
  | badSize        -- the size field of the header differs from the chunk's length
  | badPolicy      -- (OPN) the asymmetric header names an unknown security policy
deriving Repr, DecidableEq

structure Chunk where
  ty : CType
  ci : CI
  fin : Fin
  size : Nat
  rk : ReqKind
  mal : Mal
deriving Repr, DecidableEq

inductive HelKind where
  | valid | badUrl | smallBuffers | protocol1
deriving Repr, DecidableEq

inductive Frame where
  | hel (k : HelKind)
  | other                       -- an ACK / ERR frame sent to the server
  | chunk (c : Chunk)
deriving Repr, DecidableEq

/-- byte lengths measured on the real encodings (passed in by the harness) -/
structure Lens where
  ovOpn : Nat      -- header + asymmetric security header (policy None) + sequence header
  ge : Nat
  cs : Nat
  opn : Nat
  clo : Nat
deriving Repr, DecidableEq

inductive Phase where
  | waitingHello | processing | closed
deriving Repr, DecidableEq

structure Conn where
  lens : Lens
  maxChunks : Nat              -- decoding_options.max_chunk_count (0 = no limit)
  maxMsg : Nat                 -- decoding_options.max_message_size (0 = no limit)
  phase : Phase
  issued : Bool
  chanId : Nat
  lastChanId : Nat
  tokenId : Nat
  lastSeq : Nat
  sessions : Nat               -- sessions registered on this transport
  pending : List (CType × CI × Nat)    -- pending_chunks: type, header triple, data.len()
  curRk : ReqKind              -- what the body stream of the pending message starts with
deriving Repr, DecidableEq

def Conn.init (l : Lens) (maxChunks maxMsg : Nat) : Conn :=
  { lens := l, maxChunks := maxChunks, maxMsg := maxMsg, phase := .waitingHello, issued := false, chanId := 0,
    lastChanId := 0, tokenId := 0, lastSeq := 0, sessions := 0, pending := [], curRk := .junk }

def Conn.bytes (c : Conn) : Nat := (c.pending.map (·.2.2)).sum

def overhead (l : Lens) : CType → Nat
  | .opn => l.ovOpn
  | _ => 24

inductive Out where
  | ack
  | opnResponse (chan token req : Nat)
  | opnFault (code : String) (req : Nat)    -- OpenSecureChannel refused with a ServiceFault (connection goes on)
  | service (name : String) (req : Nat)     -- a response produced by the service layer
  | stored                                  -- chunk kept / pending cleared by an abort; nothing sent
  | closeErr (code : String)                -- Err(code): the reading loop ends
  | ignored                                 -- the connection is closed already
deriving Repr, DecidableEq

def closeWith (c : Conn) (code : String) : Conn × Out :=
  ({ c with phase := .closed, pending := [] }, .closeErr code)

/-- an error that leaves `pending_chunks` as it is (returned before anything touches the buffer) -/
def closeKeep (c : Conn) (code : String) : Conn × Out :=
  ({ c with phase := .closed }, .closeErr code)

def processHello (c : Conn) : HelKind → Conn × Out
  | .valid => ({ c with phase := .processing }, .ack)
  | .badUrl => closeKeep c "BadTcpEndpointUrlInvalid"
  | .smallBuffers => closeKeep c "BadCommunicationError"
  | .protocol1 => closeKeep c "BadProtocolVersionUnsupported"

def reqLen (l : Lens) : ReqKind → Nat
  | .getEndpoints => l.ge
  | .createSession => l.cs
  | .open _ _ _ nonce => l.opn + (match nonce with | some n => n | none => 0)
  | .openBadEnum => l.opn
  | .close => l.clo
  | .junk => 0

/-- `Chunker::decode` on `body` bytes of a stream that starts with the encoding of `rk`:
`none` = decoded to the request `rk` -/
def decodeErr (l : Lens) (rk : ReqKind) (body : Nat) : Option String :=
  match rk with
  | .junk => if body < 2 then some "BadDecodingError" else some "BadUnexpectedError"
  | .openBadEnum => if body < 4 then some "BadDecodingError" else some "BadServiceUnsupported"
  | rk =>
    if body < 4 then some "BadDecodingError"
    else if body < reqLen l rk then some "BadServiceUnsupported"
    else none

/-- dispatch of a decoded request by the type of the FINAL chunk (`process_final_chunk`) -/
def dispatch (c : Conn) (finalTy firstTy : CType) (rk : ReqKind) (req : Nat) : Conn × Out :=
  match finalTy with
  | .clo => closeWith c "BadConnectionClosed"
  | .opn =>
    -- `SecureChannelService::open_secure_channel`, exit by exit
    match rk with
    | .open renew mode pvSame _ =>
      if firstTy ≠ .opn then closeWith c "BadUnexpectedError"                 -- no asymmetric security header
      else if ¬ pvSame then (c, .opnFault "BadProtocolVersionUnsupported" req)  -- nothing touched yet
      else if renew ∧ ¬ c.issued then closeWith c "BadUnexpectedError"        -- renew before any issue
      else
        -- Issue draws the next channel id here, before the security mode is looked at
        let c1 := if renew then c else { c with lastChanId := c.lastChanId + 1 }
        if mode = .invalid then (c1, .opnFault "BadSecurityModeRejected" req)   -- `issued` NOT set
        else
          let c2 := { c1 with issued := true, tokenId := c1.tokenId + 1,
                              chanId := if renew then c1.chanId else c1.lastChanId }
          (c2, .opnResponse c2.chanId c2.tokenId req)
    | _ => closeWith c "BadUnexpectedError"
  | .msg =>
    match rk with
    | .getEndpoints => (c, .service "GetEndpointsResponse" req)
    | .createSession =>
      if c.sessions ≥ 5 then (c, .service "ServiceFault:BadTooManySessions" req)
      else ({ c with sessions := c.sessions + 1 }, .service "CreateSessionResponse" req)
    | _ => closeWith c "BadServiceUnsupported"

/-- type / request id of `chunks[0]` (the list is never empty where this is used) -/
def headTy (d : CType) : List (CType × CI × Nat) → CType
  | p :: _ => p.1
  | [] => d

def headReq (d : Nat) : List (CType × CI × Nat) → Nat
  | p :: _ => p.2.1.req
  | [] => d

/-- `process_chunk` (+ `process_final_chunk`) -/
def processChunk (guarded bounded : Bool) (c : Conn) (k : Chunk) : Conn × Out :=
  -- a service request is only acceptable once a secure channel has been issued
  if guarded ∧ k.ty = .msg ∧ ¬ c.issued then closeKeep c "BadTcpSecureChannelUnknown"
  else if k.fin = .abort then ({ c with pending := [] }, .stored)
  -- verify_and_remove_security
  else if k.mal = .badSize then closeKeep c "BadUnexpectedError"
  else if k.ty = .opn ∧ k.mal = .badPolicy then closeKeep c "BadSecurityPolicyRejected"
  -- limits
  else if bounded ∧ c.maxChunks > 0 ∧ c.pending.length ≥ c.maxChunks then closeWith c "BadEncodingLimitsExceeded"
  else if bounded ∧ c.maxMsg > 0 ∧ c.bytes + k.size > c.maxMsg then closeWith c "BadTcpMessageTooLarge"
  else
    let rk := if c.pending.isEmpty then k.rk else c.curRk
    let pend := c.pending ++ [(k.ty, k.ci, k.size)]
    if k.fin = .intermediate then ({ c with pending := pend, curRk := rk }, .stored)
    else
      -- final: drain, validate, decode, dispatch
      let c0 := { c with pending := [], curRk := rk }
      match recv c.lastSeq c.chanId (pend.map fun p => some p.2.1) with
      | .err e => closeWith c0 e
      | .panic => closeWith c0 "panic"          -- unreachable (`recv_total`)
      | .ok last' =>
        let c1 := { c0 with lastSeq := last' }
        let body := (pend.map fun p => p.2.2 - overhead c.lens p.1).sum
        match decodeErr c.lens rk body with
        | some e => closeWith c1 e
        | none =>
          let firstTy := headTy k.ty pend
          let req := headReq k.ci.req pend
          dispatch c1 k.ty firstTy rk req

/-- one iteration of the reading loop -/
def stepWith (guarded bounded : Bool) (c : Conn) (f : Frame) : Conn × Out :=
  match c.phase with
  | .closed => (c, .ignored)
  | .waitingHello =>
    match f with
    | .hel k => processHello c k
    | _ => closeKeep c "BadCommunicationError"
  | .processing =>
    match f with
    | .hel _ => closeKeep c "BadCommunicationError"
    | .other => closeKeep c "BadCommunicationError"
    | .chunk k => processChunk guarded bounded c k

def step := stepWith true true

def runWith (guarded bounded : Bool) : Conn → List Frame → List Out
  | _, [] => []
  | c, f :: fs => (stepWith guarded bounded c f).2 :: runWith guarded bounded (stepWith guarded bounded c f).1 fs

/-- the state after a history -/
def finalWith (guarded bounded : Bool) : Conn → List Frame → Conn
  | c, [] => c
  | c, f :: fs => finalWith guarded bounded (stepWith guarded bounded c f).1 fs

def run := runWith true true

end OpcuaVerif.SrvConn
