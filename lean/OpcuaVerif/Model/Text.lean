/-
Shared text-level model pieces used by the textual properties (C04, C05, C41, C42):
strings are `List Char` (Unicode scalar values, as Rust `&str`), with an explicit UTF-8 byte view
for the places where the Rust code works on bytes (`str::len`, byte slicing `&s[..2]`, the `uuid`
and `base64` parsers).  Import-free (core only).
-/
namespace OpcuaVerif.Text

/-- Outcome of a fallible, possibly panicking Rust function. -/
inductive Res (α : Type) where
  | ok (a : α)
  | err
  | panic
deriving Repr, DecidableEq

def Res.isErr {α : Type} : Res α → Bool
  | .err => true
  | _ => false

def Res.isPanic {α : Type} : Res α → Bool
  | .panic => true
  | _ => false

/-! ### UTF-8 view -/

/-- UTF-8 encoding of one scalar value (as bytes 0..255). -/
def utf8Enc (c : Char) : List Nat :=
  let n := c.toNat
  if n < 0x80 then [n]
  else if n < 0x800 then [0xC0 + n / 64, 0x80 + n % 64]
  else if n < 0x10000 then [0xE0 + n / 4096, 0x80 + n / 64 % 64, 0x80 + n % 64]
  else [0xF0 + n / 262144, 0x80 + n / 4096 % 64, 0x80 + n / 64 % 64, 0x80 + n % 64]

/-- number of UTF-8 bytes of one scalar value -/
def utf8Size (c : Char) : Nat :=
  let n := c.toNat
  if n < 0x80 then 1 else if n < 0x800 then 2 else if n < 0x10000 then 3 else 4

def utf8 (cs : List Char) : List Nat := cs.flatMap utf8Enc

/-- `str::len()` -/
def utf8Len : List Char → Nat
  | [] => 0
  | c :: cs => utf8Size c + utf8Len cs

/-- `s.split_at(i)` on a byte index: `none` when `i` is not a char boundary of `s`
(or lies beyond its end) — the situation in which Rust's `&s[..i]` panics. -/
def splitAtByte : List Char → Nat → Option (List Char × List Char)
  | cs, 0 => some ([], cs)
  | [], _ + 1 => none
  | c :: cs, i + 1 =>
    if utf8Size c ≤ i + 1 then
      match splitAtByte cs (i + 1 - utf8Size c) with
      | some (a, b) => some (c :: a, b)
      | none => none
    else none

/-- `span`: longest prefix satisfying `p`, and the rest -/
def spanP (p : Char → Bool) : List Char → List Char × List Char
  | [] => ([], [])
  | c :: cs => if p c then ((spanP p cs).1.cons c, (spanP p cs).2) else ([], c :: cs)

/-! ### decimal numbers -/

def isDigit (c : Char) : Bool := decide ('0'.toNat ≤ c.toNat ∧ c.toNat ≤ '9'.toNat)

def digitChar (d : Nat) : Char := Char.ofNat (48 + d)

def digitVal (c : Char) : Nat := c.toNat - 48

/-- value of a digit string, most significant first (no validation) -/
def digitsVal (cs : List Char) : Nat := cs.foldl (fun a c => 10 * a + digitVal c) 0

/-- decimal printing with explicit fuel (structural, so that `decide` can evaluate it) -/
def toDecFuel : Nat → Nat → List Char
  | 0, n => [digitChar (n % 10)]
  | f + 1, n => if n < 10 then [digitChar n] else toDecFuel f (n / 10) ++ [digitChar (n % 10)]

/-- decimal printing (`{}` of an unsigned integer); fuel `n` always suffices -/
def toDec (n : Nat) : List Char := toDecFuel n n

def stripPlus : List Char → List Char
  | '+' :: r => r
  | r => r

/-- `str::parse::<uN>()` with `max = 2^N - 1`: optional leading `+`, at least one ASCII digit,
nothing else, value ≤ max. -/
def parseUnsigned (max : Nat) (cs : List Char) : Option Nat :=
  let ds := stripPlus cs
  if ds.isEmpty || !ds.all isDigit then none
  else
    let v := digitsVal ds
    if v ≤ max then some v else none

/-- zero-padded decimal of fixed width (`{:0w}`), value assumed < 10^w -/
def padDec (w n : Nat) : List Char :=
  let d := toDec n
  List.replicate (w - d.length) '0' ++ d

/-! ### hexadecimal -/

def nibbleChar (n : Nat) : Char := if n < 10 then Char.ofNat (48 + n) else Char.ofNat (87 + n)

/-- two lower-case hex digits of a byte -/
def hex2 (b : Nat) : List Char := [nibbleChar (b / 16 % 16), nibbleChar (b % 16)]

/-- value of an ASCII hex digit given as a byte (`HEX_TABLE` of the uuid crate), none = 0xff -/
def hexVal (b : Nat) : Option Nat :=
  if 48 ≤ b ∧ b ≤ 57 then some (b - 48)
  else if 97 ≤ b ∧ b ≤ 102 then some (b - 97 + 10)
  else if 65 ≤ b ∧ b ≤ 70 then some (b - 65 + 10)
  else none

/-- pairs of hex digits → bytes -/
def hexPairs : List Nat → Option (List Nat)
  | [] => some []
  | [_] => none
  | a :: b :: rest =>
    match hexVal a, hexVal b, hexPairs rest with
    | some x, some y, some r => some ((16 * x + y) :: r)
    | _, _, _ => none

/-! ### `str::replace` and `str::split` for single-pattern use -/

def stripPrefix? : List Char → List Char → Option (List Char)
  | [], s => some s
  | _ :: _, [] => none
  | p :: ps, c :: cs => if p = c then stripPrefix? ps cs else none

/-- `s.replace(pat, rep)` for a non-empty pattern: leftmost non-overlapping occurrences. -/
def replaceFuel (pat rep : List Char) : Nat → List Char → List Char
  | 0, s => s
  | _, [] => []
  | fuel + 1, c :: cs =>
    match stripPrefix? pat (c :: cs) with
    | some rest => rep ++ replaceFuel pat rep fuel rest
    | none => c :: replaceFuel pat rep fuel cs

def replace (pat rep s : List Char) : List Char := replaceFuel pat rep (s.length + 1) s

/-- `s.split(sep)` for a single char: always at least one part. -/
def splitOnChar (sep : Char) : List Char → List (List Char)
  | [] => [[]]
  | c :: cs =>
    if c = sep then [] :: splitOnChar sep cs
    else match splitOnChar sep cs with
      | [] => [[c]]          -- unreachable (result is never empty)
      | p :: ps => (c :: p) :: ps

/-! ### base64 (standard alphabet, canonical padding required — `base64::engine::general_purpose::STANDARD`) -/

def b64Char (n : Nat) : Char :=
  if n < 26 then Char.ofNat (65 + n)
  else if n < 52 then Char.ofNat (97 + (n - 26))
  else if n < 62 then Char.ofNat (48 + (n - 52))
  else if n = 62 then '+' else '/'

/-- sextet value of a symbol given as a byte -/
def b64Val (b : Nat) : Option Nat :=
  if 65 ≤ b ∧ b ≤ 90 then some (b - 65)
  else if 97 ≤ b ∧ b ≤ 122 then some (b - 97 + 26)
  else if 48 ≤ b ∧ b ≤ 57 then some (b - 48 + 52)
  else if b = 43 then some 62
  else if b = 47 then some 63
  else none

def b64Encode : List Nat → List Char
  | [] => []
  | [a] => [b64Char (a / 4), b64Char (a % 4 * 16), '=', '=']
  | [a, b] => [b64Char (a / 4), b64Char (a % 4 * 16 + b / 16), b64Char (b % 16 * 4), '=']
  | a :: b :: c :: rest =>
    b64Char (a / 4) :: b64Char (a % 4 * 16 + b / 16) :: b64Char (b % 16 * 4 + c / 64) :: b64Char (c % 64)
      :: b64Encode rest

/-- Decoder over the UTF-8 bytes of the text.  Accepts exactly: a multiple of 4 symbols, padding
(`=`, byte 61) only as the last one or two symbols of the last quad, and zero trailing bits. -/
def b64Decode : List Nat → Option (List Nat)
  | [] => some []
  | [a, b, 61, 61] =>
    match b64Val a, b64Val b with
    | some x, some y => if y % 16 = 0 then some [x * 4 + y / 16] else none
    | _, _ => none
  | [a, b, c, 61] =>
    match b64Val a, b64Val b, b64Val c with
    | some x, some y, some z =>
      if z % 4 = 0 then some [x * 4 + y / 16, y % 16 * 16 + z / 4] else none
    | _, _, _ => none
  | a :: b :: c :: d :: rest =>
    match b64Val a, b64Val b, b64Val c, b64Val d, b64Decode rest with
    | some x, some y, some z, some w, some r =>
      some ((x * 4 + y / 16) :: (y % 16 * 16 + z / 4) :: (z % 4 * 64 + w) :: r)
    | _, _, _, _, _ => none
  | _ => none

end OpcuaVerif.Text
