import OpcuaVerif.Common
import OpcuaVerif.Model.SubM

/-
Line-protocol driver of the SubM model, shared by the C40 and C21 drivers (same ops, same results).
-/
namespace OpcuaVerif.SubM

structure DState where
  ss : Sess
  maxQ : Nat

/-- the source variant the drivers follow = the integrated repository (all four fixes merged) -/
def current : Cfg := { keepOnNone := true, fix15 := true, expiredDiscards := true, prioDesc := true }

/-- the source before the C21 fix (a collected notification is discarded when the action is None) -/
def pinned : Cfg := { keepOnNone := false, fix15 := true, expiredDiscards := true, prioDesc := true }

/-- the source before the fix of the expiry panic (C22/C26 slice): SubscriptionExpired with a collected
notification panics -/
def preExpiryFix : Cfg := { keepOnNone := true, fix15 := false, expiredDiscards := false, prioDesc := false }

def insertEntry (e : Entry) : List Entry → List Entry
  | [] => [e]
  | x :: xs => if e.handle < x.handle then e :: x :: xs else x :: insertEntry e xs

/-- stable sort by client handle (the real code iterates a HashMap) -/
def sortEntries (es : List Entry) : List Entry := es.foldl (fun acc e => insertEntry e acc) []

def showEntry (e : Entry) : String := s!"{e.handle}={e.value}" ++ (if e.overflow then "!" else "")

def showBody : Body → String
  | .keepAlive => "ka"
  | .status c => s!"st{c}"
  | .data es => "d(" ++ ",".intercalate ((sortEntries es).map showEntry) ++ ")"

def showMsg (m : Msg) : String := s!"q{m.seq}@{m.time}:{showBody m.body}"

def showAck : AckRes → String
  | .good => "G" | .seqUnknown => "U" | .subInvalid => "I"

def showResults : Option (List AckRes) → String
  | none => "-"
  | some l => "[" ++ "".intercalate (l.map showAck) ++ "]"

def showAvail : Option (List Nat) → String
  | none => "-"
  | some l => ".".intercalate (l.map toString)

def showResp (r : Resp) : String :=
  s!"r{r.reqId}/s{r.subId}/a{showAvail r.avail}/m{boolStr r.more}/{showMsg r.msg}/x{showResults r.results}"

def showResps (rs : List Resp) : String := "[" ++ ";".intercalate (rs.map showResp) ++ "]"

def stateNum : SState → Nat
  | .closed => 0 | .creating => 1 | .normal => 2 | .late => 3 | .keepAlive => 4

def showSub (s : Subn) : String :=
  s!"{s.id}:{stateNum s.state}:{s.life}:{s.ka}:{s.lastSeq}:{s.notifs.length}:{boolStr s.enabled}:{s.items.length}"

def digest (ss : Sess) : String :=
  s!"rq={ss.reqs.length} rt=[" ++ ",".intercalate (ss.retrans.map fun e => s!"{e.1.1}.{e.1.2}") ++ "] subs=[" ++
    ",".intercalate (ss.subs.map showSub) ++ "]"

def parseAck? (t : String) : Option (Nat × Nat) :=
  match t.splitOn "." with
  | [a, b] => match a.toNat?, b.toNat? with
    | some a, some b => some (a, b)
    | _, _ => none
  | _ => none

/-- parse `[1.2,3.4]` / `[]` / `-` -/
def parseAcks? (s : String) : Option (Option (List (Nat × Nat))) :=
  if s = "-" then some none else
  let inner := String.ofList ((s.toList.drop 1).dropLast)
  if inner.isEmpty then some (some []) else
  ((inner.splitOn ",").mapM parseAck?).map some

def mkNodes : Nat → List (Nat × Nat)
  | 0 => []
  | n + 1 => mkNodes n ++ [(n + 1, 0)]

def finish (d : DState) (ss : Sess) (txt : String) : DState × String :=
  let (ss, rs) := takeResponses ss
  ({ d with ss := ss }, s!"ok {txt} {showResps rs} {digest ss}")

def dstep (c : Cfg) (d : DState) (toks : List String) : DState × String :=
  match toks with
  | ["reset", n, mq] =>
    match n.toNat?, mq.toNat? with
    | some n, some mq => finish { ss := init (mkNodes n), maxQ := mq } (init (mkNodes n)) "-"
    | _, _ => (d, "bad-op")
  | ["sub", pr, iv, ka, life, en] =>
    match pr.toNat?, iv.toNat?, ka.toNat?, life.toNat?, parseBool? en with
    | some pr, some iv, some ka, some life, some en =>
      let (ss, id) := createSub d.ss pr iv ka life en
      finish d ss (toString id)
    | _, _, _, _, _ => (d, "bad-op")
  | ["delsub", sid] =>
    match sid.toNat? with
    | some sid => let (ss, b) := deleteSub d.ss sid; finish d ss (boolStr b)
    | none => (d, "bad-op")
  | ["pubmode", sid, en] =>
    match sid.toNat?, parseBool? en with
    | some sid, some en => let (ss, b) := setPublishing d.ss sid en; finish d ss (boolStr b)
    | _, _ => (d, "bad-op")
  | ["item", sid, h, node, qs, dis, mode, samp] =>
    match sid.toNat?, h.toNat?, node.toNat?, qs.toNat?, parseBool? dis, mode.toNat?,
        (if samp = "-" then some none else samp.toNat?.map some) with
    | some sid, some h, some node, some qs, some dis, some mode, some samp =>
      let mode := if mode = 0 then Mode.disabled else if mode = 1 then Mode.sampling else Mode.reporting
      let (ss, r) := createItem d.ss d.maxQ sid h node qs dis mode samp
      match r with
      | .created id => finish d ss (toString id)
      | .nodeUnknown => finish d ss "BadNodeIdUnknown"
      | .subInvalid => finish d ss "BadSubscriptionIdInvalid"
    | _, _, _, _, _, _, _ => (d, "bad-op")
  | ["delitem", sid, iid] =>
    match sid.toNat?, iid.toNat? with
    | some sid, some iid =>
      let (ss, r) := deleteItem d.ss sid iid
      finish d ss (match r with
        | .good => "Good" | .itemInvalid => "BadMonitoredItemIdInvalid" | .subInvalid => "BadSubscriptionIdInvalid")
    | _, _ => (d, "bad-op")
  | ["write", node, v] =>
    match node.toNat?, v.toNat? with
    | some node, some v => finish d (write d.ss node v) "-"
    | _, _ => (d, "bad-op")
  | ["tick", dt] =>
    match dt.toNat? with
    | some dt =>
      match timer c d.ss dt with
      | .ok ss => finish d ss "-"
      | .panic => (d, "panic")
    | none => (d, "bad-op")
  | ["publish", rid, acks] =>
    match rid.toNat?, parseAcks? acks with
    | some rid, some acks =>
      match publish c d.ss rid acks with
      | .ok (ss, r) => finish d ss (match r with
        | .queued => "queued" | .noSubscription => "BadNoSubscription" | .tooMany => "BadTooManyPublishRequests")
      | .panic => (d, "panic")
    | _, _ => (d, "bad-op")
  | ["republish", sid, seq] =>
    match sid.toNat?, seq.toNat? with
    | some sid, some seq =>
      let (ss, r) := republish d.ss sid seq
      finish d ss (match r with
        | .ok m => showMsg m | .notAvailable => "BadMessageNotAvailable" | .subInvalid => "BadSubscriptionIdInvalid")
    | _, _ => (d, "bad-op")
  | _ => (d, "bad-op")

def mkDriver (c : Cfg) : Driver :=
  { σ := DState, init := { ss := init [], maxQ := 10 }, step := dstep c }

end OpcuaVerif.SubM
