import OpcuaVerif.Common
import OpcuaVerif.Model.SubM

/-
Line-protocol driver of the SubM model, shared by the C40 and C21 drivers (same ops, same results).
-/
namespace OpcuaVerif.SubM

structure DState where
  ss : Sess
  maxQ : Nat
  sentKeys : List (Nat × Nat)       -- ghost for the arm tags: keys ever seen in a response
  ackedKeys : List (Nat × Nat)      -- ghost: keys named in acknowledgements of accepted requests

/-- the source variant the drivers follow = the integrated repository (all four fixes merged) -/
def current : Cfg := { keepOnNone := true, fix15 := true, expiredDiscards := true, prioDesc := true }

/-- the source before the C21 fix (a collected notification is discarded when the action is None) -/
def pinned : Cfg := { keepOnNone := false, fix15 := true, expiredDiscards := true, prioDesc := true }

/-- the source before the fix of the expiry panic (C22/C26 slice): SubscriptionExpired with a collected
notification panics -/
def preExpiryFix : Cfg := { keepOnNone := true, fix15 := false, expiredDiscards := false, prioDesc := false }

def insertEntry (e : Entry) : List Entry → List Entry
  | [] => [e]
  | x :: xs => if e.handle < x.handle then e :: x :: xs else x :: insertEntry e xs

/-- stable sort by client handle (the real code iterates a HashMap) -/
def sortEntries (es : List Entry) : List Entry := es.foldl (fun acc e => insertEntry e acc) []

def showEntry (e : Entry) : String := s!"{e.handle}={e.value}" ++ (if e.overflow then "!" else "")

def showBody : Body → String
  | .keepAlive => "ka"
  | .status c => s!"st{c}"
  | .data es => "d(" ++ ",".intercalate ((sortEntries es).map showEntry) ++ ")"

def showMsg (m : Msg) : String := s!"q{m.seq}@{m.time}:{showBody m.body}"

def showAck : AckRes → String
  | .good => "G" | .seqUnknown => "U" | .subInvalid => "I"

def showResults : Option (List AckRes) → String
  | none => "-"
  | some l => "[" ++ "".intercalate (l.map showAck) ++ "]"

def showAvail : Option (List Nat) → String
  | none => "-"
  | some l => ".".intercalate (l.map toString)

def showResp (r : Resp) : String :=
  s!"r{r.reqId}/s{r.subId}/a{showAvail r.avail}/m{boolStr r.more}/{showMsg r.msg}/x{showResults r.results}"

def showResps (rs : List Resp) : String := "[" ++ ";".intercalate (rs.map showResp) ++ "]"

def stateNum : SState → Nat
  | .closed => 0 | .creating => 1 | .normal => 2 | .late => 3 | .keepAlive => 4

def showSub (s : Subn) : String :=
  s!"{s.id}:{stateNum s.state}:{s.life}:{s.ka}:{s.lastSeq}:{s.notifs.length}:{boolStr s.enabled}:{s.items.length}"

def digest (ss : Sess) : String :=
  s!"rq={ss.reqs.length} rt=[" ++ ",".intercalate (ss.retrans.map fun e => s!"{e.1.1}.{e.1.2}") ++ "] subs=[" ++
    ",".intercalate (ss.subs.map showSub) ++ "]"

def parseAck? (t : String) : Option (Nat × Nat) :=
  match t.splitOn "." with
  | [a, b] => match a.toNat?, b.toNat? with
    | some a, some b => some (a, b)
    | _, _ => none
  | _ => none

/-- parse `[1.2,3.4]` / `[]` / `-` -/
def parseAcks? (s : String) : Option (Option (List (Nat × Nat))) :=
  if s = "-" then some none else
  let inner := String.ofList ((s.toList.drop 1).dropLast)
  if inner.isEmpty then some (some []) else
  ((inner.splitOn ",").mapM parseAck?).map some

def mkNodes : Nat → List (Nat × Nat)
  | 0 => []
  | n + 1 => mkNodes n ++ [(n + 1, 0)]

/-! ### arm tags: which branches of the model an op took (GUIDE "Arm coverage").
The trace functions call the same primitives as the model (`elapsedStep`, `collectStep`, `updateState`,
`itemTick`, `pairUp`, …) and only observe them; the state transition itself is always the model's. -/

def itemArms (nodes : List (Nat × Nat)) (now : Nat) (elapsed resend : Bool) (it : MItem) : List String :=
  let mode := match it.mode with
    | .disabled => "im-disabled" | .sampling => "im-sampling" | .reporting => "im-reporting"
  if it.mode = .disabled then [mode] else
  let (chk, ctag) : Bool × String :=
    if resend then (true, "ic-resend")
    else match it.sampling with
      | none => (elapsed, if elapsed then "ic-interval-elapsed" else "ic-interval-not")
      | some k => match it.lastSample with
        | none => (true, "ic-own-first")
        | some t => if now - t = k then (true, "ic-own-eq") else if now - t > k then (true, "ic-own-gt")
                    else (false, "ic-own-lt")
  if !chk then [mode, ctag] else
  let vtag :=
    match lookup nodes it.node with
    | none => ["iv-node-missing"]
    | some v =>
      let changed := resend || (match it.last with | none => true | some l => decide (v ≠ l))
      let q := if changed then
          (if it.q.queue.length = it.q.size then
            (if it.q.size ≤ 1 then "iq-overflow-size1"
             else if it.q.discardOldest then "iq-overflow-oldest" else "iq-overflow-newest")
           else if it.q.queue.length + 1 = it.q.size then "iq-fills" else "iq-room")
        else (if it.q.queue.isEmpty then "iv-unchanged" else "iv-leftover")
      [if it.last.isNone then "iv-first" else if changed then "iv-changed" else "iv-same", q]
  let r := (itemTick nodes now elapsed resend it).2
  let dtag := match r with
    | .report => if elapsed then "id-drained" else "id-held"
    | .valueChanged => "id-sampling-only"
    | .noChange => "id-nochange"
  [mode, ctag, dtag] ++ vtag

def triggerArms (ids : List Nat) (items : List MItem) : List String :=
  ids.map fun i => match items.find? (fun it => it.id = i) with
    | none => "tg-missing-skip"
    | some it => match it.mode with
      | .sampling => "tg-sampling-resent"
      | .reporting => "tg-reporting-skip"
      | .disabled => "tg-disabled-skip"

def rowArms (c : Cfg) (s : Subn) (rpr : Bool) (p : Params) : List String :=
  let (s', row, a) := updateState c s rpr p
  let dis := !s.enabled
  let v : String :=
    match row with
    | 0 => "r0-" ++ (match s.state with
        | .normal => "normal" | .late => "late" | .keepAlive => "keepalive" | .closed => "closed" | .creating => "creating")
    | 4 => if dis then "r4-disabled" else "r4-nomore"
    | 7 => if dis then "r7-disabled" else "r7-noavail"
    | 8 => if !s.firstSent then "r8-first" else "r8-data"
    | 9 => if dis then "r9-disabled" else "r9-noavail"
    | 11 => if dis then "r11-disabled" else "r11-empty"
    | 15 => if dis then "r15-disabled" else "r15-noavail"
    | 16 => if dis then "r16-disabled" else "r16-noavail"
    | 17 => if s.ka = 1 then "r17-ka1" else "r17-data"
    | n => s!"r{n}"
  let lifeTag := if s.state = .normal ∨ s.state = .late ∨ s.state = .keepAlive then
      (if s.life = 2 ∧ s'.life = 1 then ["life-2-to-1"] else []) else []
  let _ := a
  [v] ++ lifeTag

def handleArms (c : Cfg) (s : Subn) (a : Action) (n : Option Msg) : String :=
  match a, n with
  | .none, some _ => if c.keepOnNone ∧ s.enabled then "h-none-keep" else "h-none-discard"
  | .none, none => "h-none-nodata"
  | .keepAlive, some _ => "h-ka-data"
  | .keepAlive, none => "h-ka"
  | .notifications, some _ => "h-notif-data"
  | .notifications, none => "h-notif-queue"
  | .created, _ => "h-created"
  | .expired, some _ => "h-expired-data"
  | .expired, none => "h-expired"

/-- arms of one `Subscription::tick` -/
def subArms (c : Cfg) (nodes : List (Nat × Nat)) (now : Nat) (timerTick rq : Bool) (s : Subn) : List String :=
  let el : String :=
    if !timerTick then "el-rpr" else if s.state = .creating then "el-creating"
    else match s.lastElapsed with
      | none => "el-first"
      | some t => if now - t = s.interval then "el-eq" else if now - t > s.interval then "el-gt" else "el-lt"
  let (s1, elapsed) := elapsedStep now timerTick s
  let items : List String :=
    if s1.state = .closed ∨ s1.state = .creating then []
    else
      (s1.items.map (itemArms nodes now elapsed s1.resend)).flatten ++
      triggerArms (triggeredBy nodes now elapsed s1.resend s1.items) s1.items ++
      (if s1.resend then ["resend-consumed"] else [])
  let (s2, n) := collectStep nodes now elapsed s1
  let avail := !s2.notifs.isEmpty || n.isSome
  let more := decide (s2.notifs.length > 1)
  let rest : List String :=
    if avail || elapsed || rq then
      let p : Params := { avail := avail, more := more, reqQueued := rq, timer := elapsed }
      let (s3, _, a) := updateState c s2 (!timerTick) p
      rowArms c s2 (!timerTick) p ++ [handleArms c s3 a n]
    else ["st-idle"]
  [el] ++ items ++ rest

def visitTrace (c : Cfg) (timerTick : Bool) : List Nat → Sess → List (Nat × Req × Msg) → List String →
    Sess × List (Nat × Req × Msg) × List String
  | [], ss, trans, tags => (ss, trans, tags)
  | id :: ids, ss, trans, tags =>
    match getSub ss.subs id with
    | none => (ss, trans, tags)
    | some s =>
      let t1 := subArms c ss.nodes ss.now timerTick (!ss.reqs.isEmpty) s
      match subTick c ss.nodes ss.now timerTick (!ss.reqs.isEmpty) s with
      | .panic => (ss, trans, tags ++ t1 ++ ["panic"])
      | .ok s1 =>
        let (reqs, ms, trans') := pairUp id ss.reqs s1.notifs trans
        let k := trans'.length - trans.length
        let ptag := (if k = 0 then "pair0" else if k = 1 then "pair1" else "pair2+") ::
          ((if !ms.isEmpty ∧ reqs.isEmpty ∧ k > 0 then ["pair-requests-exhausted"] else []) ++
           (if !ms.isEmpty ∧ k = 0 then ["pair-no-request"] else []))
        let s2 := { s1 with notifs := ms }
        let removed := decide (s2.state = .closed ∧ s2.notifs.isEmpty)
        let subs := if removed then ss.subs.filter (fun t => t.id ≠ id) else updSub ss.subs s2
        visitTrace c timerTick ids { ss with reqs := reqs, subs := subs } trans'
          (tags ++ t1 ++ ptag ++ (if removed then ["v-removed"] else []))

def transmitArms : List (Nat × Req × Msg) → Sess → List String
  | [], _ => []
  | (sid, _, m) :: rest, ss =>
    let more := rest.any (fun e => e.1 = sid)
    let av := availSeqs ss.retrans sid
    [if more then "tx-more" else "tx-last", if av.isSome then "av-some" else "av-none",
      (match m.body with | .keepAlive => "tx-keepalive" | .status _ => "tx-status" | .data _ => "tx-data")] ++
    transmitArms rest { ss with retrans := insertKey (sid, m.seq) m ss.retrans }

def cleanupArms (subs : List Subn) (retrans : List ((Nat × Nat) × Msg)) : List String :=
  let r := retrans.filter (fun e => hasSub subs e.1.1)
  let max := subs.length * 2 * 2
  (if r.length < retrans.length then ["cl-dead-purge"] else []) ++
  [if r.length > max then "cl-evict" else if r.length = max ∧ max > 0 then "cl-at-limit" else "cl-under"]

def tickArms (c : Cfg) (timerTick : Bool) (ss : Sess) : List String :=
  let order := visitOrder c ss.subs
  let ids := ss.subs.map (·.id)
  let vo := (if order ≠ ids then ["vo-reordered"] else []) ++
    (if (ss.subs.map (·.priority)).eraseDups.length < ss.subs.length then ["vo-tie"] else [])
  let (ss1, trans, tags) := visitTrace c timerTick order ss [] []
  let ss2 := transmit trans ss1
  vo ++ tags ++ transmitArms trans ss1 ++ cleanupArms ss2.subs ss2.retrans

def ackArms (subs : List Subn) : List ((Nat × Nat) × Msg) → List (Nat × Nat) → List (Nat × Nat) → List String
  | _, [], _ => []
  | r, a :: as, seen =>
    let (r1, x) := ackOne subs r a
    ((match x with | .good => "ack-G" | .seqUnknown => "ack-U" | .subInvalid => "ack-I") ::
      (if seen.contains a then ["ack-dup"] else [])) ++ ackArms subs r1 as (a :: seen)

def publishArms (c : Cfg) (ss : Sess) (acks : Option (List (Nat × Nat))) : List String :=
  if ss.subs.isEmpty then ["pb-nosub"] else
  let max := ss.subs.length * 2
  let lenTag := if ss.reqs.length + 1 = max then "pb-len-max-1" else if ss.reqs.length = max then "pb-len-max"
    else if ss.reqs.length > max then "pb-len-over" else "pb-len-under"
  let (pre, ptags) : Outcome Sess × List String :=
    if ss.reqs.length ≥ max then (sessTick c false ss, "pb-pretick" :: tickArms c false ss) else (.ok ss, [])
  match pre with
  | .panic => lenTag :: ptags ++ ["panic"]
  | .ok ss1 =>
    if ss1.reqs.length ≥ max then lenTag :: ptags ++ ["pb-toomany"]
    else
      let atags := match acks with
        | none => ["ack-none"]
        | some [] => ["ack-empty"]
        | some as => ackArms ss1.subs ss1.retrans as []
      let retrans := match acks with
        | none => ss1.retrans
        | some as => (ackAll ss1.subs ss1.retrans as).1
      lenTag :: ptags ++ ["pb-queued"] ++ atags ++
        tickArms c false { ss1 with retrans := retrans, reqs := ss1.reqs ++ [{ id := 0, results := none }] }

def finish (d : DState) (ss : Sess) (txt : String) (tags : List String := []) : DState × String :=
  let (ss, rs) := takeResponses ss
  ({ d with ss := ss, sentKeys := d.sentKeys ++ rs.map (fun r => (r.subId, r.msg.seq)) },
    s!"ok {txt} {showResps rs} {digest ss}" ++ (if tags.isEmpty then "" else " @@ " ++ ",".intercalate tags.eraseDups))

def parseNatList? (s : String) : Option (Option (List Nat)) :=
  if s = "-" then some none else
  let inner := String.ofList ((s.toList.drop 1).dropLast)
  if inner.isEmpty then some (some []) else
  ((inner.splitOn ",").mapM String.toNat?).map some

def showBools (l : List Bool) : String := String.ofList (l.map fun b => if b then 'G' else 'B')

def modeOf (n : Nat) : Mode := if n = 0 then .disabled else if n = 1 then .sampling else .reporting

def dstep (c : Cfg) (d : DState) (toks : List String) : DState × String :=
  match toks with
  | ["reset", n, mq] =>
    match n.toNat?, mq.toNat? with
    | some n, some mq =>
      finish { ss := init (mkNodes n), maxQ := mq, sentKeys := [], ackedKeys := [] } (init (mkNodes n)) "-"
    | _, _ => (d, "bad-op")
  | ["sub", pr, iv, ka, life, en] =>
    match pr.toNat?, iv.toNat?, ka.toNat?, life.toNat?, parseBool? en with
    | some pr, some iv, some ka, some life, some en =>
      let (ss, id) := createSub d.ss pr iv ka life en
      finish d ss (toString id) ["sub-created", if en then "sub-enabled" else "sub-disabled"]
    | _, _, _, _, _ => (d, "bad-op")
  | ["delsub", sid] =>
    match sid.toNat? with
    | some sid =>
      let (ss, b) := deleteSub d.ss sid
      let pending := match getSub d.ss.subs sid with
        | some s => if s.notifs.isEmpty then [] else ["delsub-with-queued"]
        | none => []
      finish d ss (boolStr b) ((if b then "delsub-ok" else "delsub-unknown") :: pending)
    | none => (d, "bad-op")
  | ["pubmode", sid, en] =>
    match sid.toNat?, parseBool? en with
    | some sid, some en =>
      let (ss, b) := setPublishing d.ss sid en
      finish d ss (boolStr b) [if b then (if en then "pubmode-enable" else "pubmode-disable") else "pubmode-unknown"]
    | _, _ => (d, "bad-op")
  | ["modsub", sid, pr, iv, ka, life] =>
    match sid.toNat?, pr.toNat?, iv.toNat?, ka.toNat?, life.toNat? with
    | some sid, some pr, some iv, some ka, some life =>
      let (ss, b) := modifySub d.ss sid pr iv ka life
      let st := match getSub d.ss.subs sid with
        | some s => [s!"modsub-state{stateNum s.state}"] ++
            (if s.priority ≠ pr then ["modsub-priority"] else []) ++
            (if s.interval ≠ iv then ["modsub-interval"] else []) ++
            (if s.maxKa ≠ ka then ["modsub-ka"] else []) ++ (if s.maxLife ≠ life then ["modsub-life"] else [])
        | none => []
      finish d ss (boolStr b) ((if b then "modsub-ok" else "modsub-unknown") :: st)
    | _, _, _, _, _ => (d, "bad-op")
  | ["setpos", sid, st, life, ka, first] =>
    match sid.toNat?, st.toNat?, life.toNat?, ka.toNat?, parseBool? first with
    | some sid, some st, some life, some ka, some first =>
      let state : SState := if st = 0 then .closed else if st = 1 then .creating else if st = 2 then .normal
        else if st = 3 then .late else .keepAlive
      let (ss, b) := setPosition d.ss sid state life ka first
      finish d ss (boolStr b)
    | _, _, _, _, _ => (d, "bad-op")
  | ["resend", sid] =>
    match sid.toNat? with
    | some sid => let (ss, b) := resendData d.ss sid; finish d ss (boolStr b) [if b then "resend-ok" else "resend-unknown"]
    | none => (d, "bad-op")
  | ["transfer", sid] =>
    match sid.toNat? with
    | some _ => finish d d.ss "BadSubscriptionIdInvalid" ["transfer-stub"]
    | none => (d, "bad-op")
  | ["item", sid, h, node, qs, dis, mode, samp] =>
    match sid.toNat?, h.toNat?, node.toNat?, qs.toNat?, parseBool? dis, mode.toNat?,
        (if samp = "-" then some none else samp.toNat?.map some) with
    | some sid, some h, some node, some qs, some dis, some mode, some samp =>
      let (ss, r) := createItem d.ss d.maxQ sid h node qs dis (modeOf mode) samp
      let qtag := if qs = 0 then "item-q0" else if qs = 1 then "item-q1" else if qs = d.maxQ then "item-q-max"
        else if qs > d.maxQ then "item-q-over" else "item-q-mid"
      match r with
      | .created id => finish d ss (toString id)
          ["item-ok", qtag, s!"item-mode{min mode 2}", if samp.isNone then "item-interval" else "item-own-sampling"]
      | .nodeUnknown => finish d ss "BadNodeIdUnknown" ["item-node-unknown"]
      | .subInvalid => finish d ss "BadSubscriptionIdInvalid" ["item-sub-unknown"]
    | _, _, _, _, _, _, _ => (d, "bad-op")
  | ["delitem", sid, iid] =>
    match sid.toNat?, iid.toNat? with
    | some sid, some iid =>
      let (ss, r) := deleteItem d.ss sid iid
      let pending := match getSub d.ss.subs sid with
        | some s => match s.items.find? (fun i => i.id = iid) with
          | some it => if it.q.queue.isEmpty then [] else ["delitem-with-queued"]
          | none => []
        | none => []
      match r with
      | .good => finish d ss "Good" ("delitem-ok" :: pending)
      | .itemInvalid => finish d ss "BadMonitoredItemIdInvalid" ["delitem-item-unknown"]
      | .subInvalid => finish d ss "BadSubscriptionIdInvalid" ["delitem-sub-unknown"]
    | _, _ => (d, "bad-op")
  | ["setmode", sid, iid, mode] =>
    match sid.toNat?, iid.toNat?, mode.toNat? with
    | some sid, some iid, some mode =>
      let (ss, r) := setMode d.ss sid iid (modeOf mode)
      let old := match getSub d.ss.subs sid with
        | some s => match s.items.find? (fun i => i.id = iid) with
          | some it => [s!"setmode-{(match it.mode with | .disabled => 0 | .sampling => 1 | .reporting => 2)}-to-{min mode 2}"] ++
              (if it.q.queue.isEmpty then [] else ["setmode-with-queued"])
          | none => []
        | none => []
      match r with
      | .good => finish d ss "Good" ("setmode-ok" :: old)
      | .itemInvalid => finish d ss "BadMonitoredItemIdInvalid" ["setmode-item-unknown"]
      | .subInvalid => finish d ss "BadSubscriptionIdInvalid" ["setmode-sub-unknown"]
      | .panic => (d, "panic")
    | _, _, _ => (d, "bad-op")
  | ["moditem", sid, iid, h, qs, dis, samp] =>
    match sid.toNat?, iid.toNat?, h.toNat?, qs.toNat?, parseBool? dis,
        (if samp = "-" then some none else samp.toNat?.map some) with
    | some sid, some iid, some h, some qs, some dis, some samp =>
      let (ss, r) := modifyItem d.ss d.maxQ sid iid h qs dis samp
      let old := match getSub d.ss.subs sid with
        | some s => match s.items.find? (fun i => i.id = iid) with
          | some it =>
            let nq := C24.sanitize d.maxQ qs
            [if it.q.queue.length > nq then "moditem-shrink-drops"
             else if nq < it.q.size then "moditem-shrink" else if nq > it.q.size then "moditem-grow" else "moditem-same-size"] ++
            (if it.sampling ≠ samp then ["moditem-sampling"] else []) ++
            (if it.handle ≠ h then ["moditem-handle"] else []) ++
            (if it.q.discardOldest ≠ dis then ["moditem-policy"] else [])
          | none => []
        | none => []
      match r with
      | .good => finish d ss "Good" ("moditem-ok" :: old)
      | .itemInvalid => finish d ss "BadMonitoredItemIdInvalid" ["moditem-item-unknown"]
      | .subInvalid => finish d ss "BadSubscriptionIdInvalid" ["moditem-sub-unknown"]
      | .panic => (d, "panic")
    | _, _, _, _, _, _ => (d, "bad-op")
  | ["trigger", sid, iid, add, rem] =>
    match sid.toNat?, iid.toNat?, parseNatList? add, parseNatList? rem with
    | some sid, some iid, some add, some rem =>
      if (add.getD []).isEmpty ∧ (rem.getD []).isEmpty then finish d d.ss "BadNothingToDo" ["trigger-nothing"]
      else
        let (ss, r) := setTriggering d.ss sid iid (add.getD []) (rem.getD [])
        match r with
        | none => finish d ss "BadSubscriptionIdInvalid" ["trigger-sub-unknown"]
        | some none => finish d ss "BadMonitoredItemIdInvalid" ["trigger-item-unknown"]
        | some (some (a, r)) =>
          finish d ss ((if add.isSome then showBools a else "-") ++ "/" ++ (if rem.isSome then showBools r else "-"))
            (["trigger-ok"] ++ (if a.contains true then ["trigger-add-good"] else []) ++
             (if a.contains false then ["trigger-add-bad"] else []) ++
             (if r.contains true then ["trigger-remove-good"] else []) ++
             (if r.contains false then ["trigger-remove-bad"] else []))
    | _, _, _, _ => (d, "bad-op")
  | ["write", node, v] =>
    match node.toNat?, v.toNat? with
    | some node, some v => finish d (write d.ss node v) "-"
    | _, _ => (d, "bad-op")
  | ["tick", dt] =>
    match dt.toNat? with
    | some dt =>
      let tags := (if dt = 0 then "dt0" else if dt = 1 then "dt1" else "dt>1") ::
        tickArms c true { d.ss with now := d.ss.now + dt }
      match timer c d.ss dt with
      | .ok ss => finish d ss "-" tags
      | .panic => (d, "panic @@ " ++ ",".intercalate tags.eraseDups)
    | none => (d, "bad-op")
  | ["publish", rid, acks] =>
    match rid.toNat?, parseAcks? acks with
    | some rid, some acks =>
      let tags := publishArms c d.ss acks
      match publish c d.ss rid acks with
      | .ok (ss, r) =>
        let d := if r = .queued then { d with ackedKeys := d.ackedKeys ++ acks.getD [] } else d
        finish d ss (match r with
          | .queued => "queued" | .noSubscription => "BadNoSubscription" | .tooMany => "BadTooManyPublishRequests") tags
      | .panic => (d, "panic @@ " ++ ",".intercalate tags.eraseDups)
    | _, _ => (d, "bad-op")
  | ["republish", sid, seq] =>
    match sid.toNat?, seq.toNat? with
    | some sid, some seq =>
      let (ss, r) := republish d.ss sid seq
      let k := (sid, seq)
      match r with
      | .ok m => finish d ss (showMsg m) ["rp-ok"]
      | .notAvailable => finish d ss "BadMessageNotAvailable"
          [if !d.sentKeys.contains k then "rp-never-sent" else if d.ackedKeys.contains k then "rp-acked" else "rp-evicted"]
      | .subInvalid => finish d ss "BadSubscriptionIdInvalid"
          [if d.sentKeys.any (fun x => x.1 = sid) then "rp-sub-gone" else "rp-sub-unknown"]
    | _, _ => (d, "bad-op")
  | _ => (d, "bad-op")

def mkDriver (c : Cfg) : Driver :=
  { σ := DState, init := { ss := init [], maxQ := 10, sentKeys := [], ackedKeys := [] }, step := dstep c }

end OpcuaVerif.SubM
