/-
C16 — encrypted user passwords (`lib/src/crypto/user_identity.rs`, `lib/src/crypto/pkey.rs`).

Modelled, from the Rust source:
  * `KeySize::plain_text_block_size` / `calculate_cipher_text_size` (pkey.rs:74-97)  → `ptbs`, `cipherTextSize`
  * `PublicKey::public_encrypt` (pkey.rs:322-377)                                   → `publicEncrypt`
  * `PrivateKey::private_decrypt` (pkey.rs:205-243)                                 → `privateDecrypt`
  * `legacy_password_encrypt` (user_identity.rs:124-155)                            → `encrypt`
  * `legacy_password_decrypt` (user_identity.rs:159-200)                            → `decryptW` / `decrypt`
  * `String::from_utf8` validity                                                    → `utf8Valid`

RSA itself (one block, with its padding) is a PARAMETER (`Rsa`): `encBlock` (randomised) and
`decBlock`.  The laws the theorems need are hypotheses in the proofs file; `toyRsa` is a toy
instance used by the driver (the correspondence run compares only what does not depend on the
cipher: lengths, the decrypted password and the error class).

Every unguarded slice / subtraction of the source is an explicit `panic` outcome.
-/
namespace OpcuaVerif.C16

abbrev Bytes := List Nat

inductive Padding where
  | pkcs1 | oaepSha1 | oaepSha256 | pss
deriving Repr, DecidableEq

/-- the status codes the functions return -/
inductive Err where
  | badDecoding      -- BadDecodingError
  | badEncoding      -- BadEncodingError
  | badIdentityTokenInvalid
deriving Repr, DecidableEq

inductive Outcome (α : Type) where
  | ok (a : α)
  | err (e : Err)
  | panic
deriving Repr, DecidableEq

/-- `a - b` on `usize` with the dev-profile overflow check -/
def usizeSub (a b : Nat) : Option Nat := if b ≤ a then some (a - b) else none

/-- `plain_text_block_size`; `none` = panic (`usize` underflow for tiny keys, or
`panic!("Unsupported padding")`) -/
def ptbs (ks : Nat) : Padding → Option Nat
  | .pkcs1 => usizeSub ks 11
  | .oaepSha1 => usizeSub ks 42
  | .oaepSha256 => usizeSub ks 66
  | .pss => none

/-- `calculate_cipher_text_size`; `none` = panic (see `ptbs`, or `% 0`) -/
def cipherTextSize (ks : Nat) (pad : Padding) (dataSize : Nat) : Option Nat :=
  match ptbs ks pad with
  | none => none
  | some 0 => none
  | some b => some ((if dataSize % b = 0 then dataSize / b else dataSize / b + 1) * ks)

/-- RSA on one block.  `ks` = key size in bytes (`size()`); `encBlock pad rnd m` is randomised
(`rnd`), `none` = OpenSSL error. -/
structure Rsa where
  ks : Nat
  encBlock : Padding → Nat → Bytes → Option Bytes
  decBlock : Padding → Bytes → Option Bytes

/-- `public_encrypt`'s loop.  `b` = `plain_text_block_size` (> 0), `dstLen` = `dst.len()`,
`out` = `dst[..dst_idx]`.  Fuel = remaining source length (each round consumes ≥ 1 byte). -/
def publicEncryptLoop (r : Rsa) (pad : Padding) (b dstLen : Nat) : Nat → Nat → Bytes → Bytes → Outcome Bytes
  | 0, _, _, out => .ok out
  | fuel + 1, rnd, src, out =>
    if src.isEmpty then .ok out
    else if out.length + r.ks > dstLen then .panic          -- `&mut dst[dst_idx..dst_idx + ks]`
    else match r.encBlock pad rnd (src.take b) with
      | none => .err .badEncoding                            -- PKeyError
      | some c => publicEncryptLoop r pad b dstLen fuel (rnd + 1) (src.drop b) (out ++ c)

/-- `PublicKey::public_encrypt(src, dst, padding)` → the bytes written (`dst[..returned]`) -/
def publicEncrypt (r : Rsa) (pad : Padding) (rnd : Nat) (src : Bytes) (dstLen : Nat) : Outcome Bytes :=
  match ptbs r.ks pad with
  | none => .panic
  | some b => publicEncryptLoop r pad b dstLen src.length rnd src []

/-- `legacy_password_encrypt` over password BYTES (the Rust argument is a `&str`, i.e. valid
UTF-8).  Plaintext = le32(|pw| + |nonce|) ‖ pw ‖ nonce. -/
def le32 (n : Nat) : Bytes := [n % 256, n / 256 % 256, n / 65536 % 256, n / 16777216 % 256]

def plaintext (pw nonce : Bytes) : Bytes :=
  le32 ((pw.length + nonce.length) % 4294967296) ++ pw ++ nonce          -- `as u32`

def encrypt (r : Rsa) (pad : Padding) (rnd : Nat) (pw nonce : Bytes) : Outcome Bytes :=
  let plain := plaintext pw nonce
  match cipherTextSize r.ks pad plain.length with
  | none => .panic
  | some csize =>
    match publicEncrypt r pad rnd plain csize with
    | .panic => .panic
    | .err _ => .err .badEncoding
    | .ok c => if c.length = csize then .ok c else .panic                  -- `assert_eq!`

/-- `private_decrypt`'s loop; `out` = `dst[..dst_idx]`, `dstLen` = `dst.len()`.
Fuel = remaining source length. -/
def privateDecryptLoop (r : Rsa) (pad : Padding) (dstLen : Nat) : Nat → Bytes → Bytes → Outcome Bytes
  | 0, src, out => if src.isEmpty then .ok out else .panic   -- only when ks = 0 (the real loop spins)
  | fuel + 1, src, out =>
    if src.isEmpty then .ok out
    else if src.length < r.ks then .panic                    -- `&src[src_idx..src_idx + ks]`
    else if out.length + r.ks > dstLen then .panic           -- `&mut dst[dst_idx..dst_idx + ks]`
    else match r.decBlock pad (src.take r.ks) with
      | none => .err .badEncoding                            -- PKeyError
      | some m => privateDecryptLoop r pad dstLen fuel (src.drop r.ks) (out ++ m)

def privateDecrypt (r : Rsa) (pad : Padding) (src : Bytes) (dstLen : Nat) : Outcome Bytes :=
  privateDecryptLoop r pad dstLen src.length src []

def rd32 (b : Bytes) : Nat := b.getD 0 0 + 256 * b.getD 1 0 + 65536 * b.getD 2 0 + 16777216 * b.getD 3 0

/-! ### UTF-8 well-formedness (Unicode Table 3-7, what `String::from_utf8` accepts) -/

def cont (b : Nat) : Bool := 0x80 ≤ b && b ≤ 0xBF

def utf8Valid : Bytes → Bool
  | [] => true
  | b0 :: rest =>
    if b0 < 0x80 then utf8Valid rest
    else if 0xC2 ≤ b0 && b0 ≤ 0xDF then
      match rest with
      | b1 :: r => cont b1 && utf8Valid r
      | _ => false
    else if 0xE0 ≤ b0 && b0 ≤ 0xEF then
      match rest with
      | b1 :: b2 :: r =>
        (if b0 = 0xE0 then 0xA0 ≤ b1 && b1 ≤ 0xBF
         else if b0 = 0xED then 0x80 ≤ b1 && b1 ≤ 0x9F
         else cont b1) && cont b2 && utf8Valid r
      | _ => false
    else if 0xF0 ≤ b0 && b0 ≤ 0xF4 then
      match rest with
      | b1 :: b2 :: b3 :: r =>
        (if b0 = 0xF0 then 0x90 ≤ b1 && b1 ≤ 0xBF
         else if b0 = 0xF4 then 0x80 ≤ b1 && b1 ≤ 0x8F
         else cont b1) && cont b2 && cont b3 && utf8Valid r
      | _ => false
    else false

/-- which of the two repairs are present -/
structure Fixes where
  /-- ciphertext length must be a multiple of the key size -/
  guardLen : Bool
  /-- the nonce must fit into the declared plaintext -/
  guardNonce : Bool
deriving Repr, DecidableEq

/-- `legacy_password_decrypt(secret, server_nonce, server_key, padding)`;
`secret = none` is the null ByteString. -/
def decryptW (fx : Fixes) (r : Rsa) (pad : Padding) (secret : Option Bytes) (nonce : Bytes) : Outcome Bytes :=
  match secret with
  | none => .err .badDecoding
  | some src =>
    if fx.guardLen && src.length % r.ks != 0 then .err .badDecoding
    else
    match privateDecrypt r pad src src.length with
    | .panic => .panic
    | .err _ => .err .badEncoding
    | .ok plain =>
      let actual := plain.length
      let dst := plain ++ List.replicate (src.length - actual) 0
      if dst.length < 4 then .err .badDecoding                       -- `read_u32` on a short buffer
      else
        let psize := rd32 dst
        if psize + 4 ≠ actual then .err .badDecoding
        else if fx.guardNonce && nonce.length > psize then .err .badDecoding
        else
          match usizeSub actual nonce.length with
          | none => .panic                                            -- `actual_size - nonce_len`
          | some nb =>
            if (dst.drop nb).take nonce.length ≠ nonce then .err .badDecoding
            else if nb < 4 then .panic                                -- `&dst[4..nonce_begin]`
            else
              let pw := (dst.drop 4).take (nb - 4)
              if utf8Valid pw then .ok pw else .err .badEncoding

/-- the current source (after the two `fix:` commits) -/
def fixesAsInSource : Fixes := ⟨true, true⟩
def decrypt := decryptW fixesAsInSource

/-! ### the token layer: `make_user_name_identity_token` (user_identity.rs:23-88) and
`decrypt_user_identity_token_password` (user_identity.rs:91-121), with the per-policy padding
(`asymmetric_encryption_padding`, security_policy.rs:576-588) and algorithm URI
(`asymmetric_encryption_algorithm`, security_policy.rs:265-280 + the policy modules' constants) -/

inductive Policy where
  | none | basic128Rsa15 | basic256 | basic256Sha256 | aes128Sha256RsaOaep | aes256Sha256RsaPss | unknown
deriving Repr, DecidableEq

/-- the three encryption algorithm URIs (`ENC_RSA_15`, `ENC_RSA_OAEP`, `ENC_RSA_OAEP_SHA256`) -/
inductive AlgUri where
  | rsa15 | rsaOaep | rsaOaepSha256
deriving Repr, DecidableEq

/-- `asymmetric_encryption_padding` (`none` = panic) -/
def Policy.encPadding? : Policy → Option Padding
  | .basic128Rsa15 => some .pkcs1
  | .basic256 | .basic256Sha256 | .aes128Sha256RsaOaep => some .oaepSha1
  | .aes256Sha256RsaPss => some .oaepSha256
  | .none | .unknown => Option.none

/-- `asymmetric_encryption_algorithm` (`none` = panic).  `fixed = false` is the pinned source, whose
constants for the two newest policies named another algorithm than the padding in use. -/
def Policy.encUriW (fixed : Bool) : Policy → Option AlgUri
  | .basic128Rsa15 => some .rsa15
  | .basic256 | .basic256Sha256 => some .rsaOaep
  | .aes128Sha256RsaOaep => some (if fixed then .rsaOaep else .rsa15)
  | .aes256Sha256RsaPss => some (if fixed then .rsaOaepSha256 else .rsaOaep)
  | .none | .unknown => Option.none

/-- the padding `decrypt_user_identity_token_password` selects for an algorithm URI -/
def AlgUri.padding : AlgUri → Padding
  | .rsa15 => .pkcs1
  | .rsaOaep => .oaepSha1
  | .rsaOaepSha256 => .oaepSha256

/-- `UserNameIdentityToken.encryption_algorithm`: null/empty, one of the three URIs, anything else -/
inductive TokAlg where
  | empty | uri (u : AlgUri) | other
deriving Repr, DecidableEq

/-- The policy the token is made for (condensed Table 187 of Part 4 as coded):
the user token policy's URI when it has one (an unrecognised URI counts as `None`), else the
channel's. `tp = none`: the URI is null or empty. -/
def effectivePolicy (chan : Policy) (tp : Option Policy) : Policy :=
  match tp with
  | Option.none => chan
  | some .unknown => .none
  | some p => p

/-- `make_user_name_identity_token` → (password field, encryption algorithm field) -/
def makeTokenW (fixed : Bool) (r : Rsa) (rnd : Nat) (chan : Policy) (tp : Option Policy)
    (nonce pw : Bytes) : Outcome (Bytes × TokAlg) :=
  match effectivePolicy chan tp with
  | .none => .ok (pw, .empty)                                   -- plain text
  | .unknown => .panic                                          -- "Don't know how to make the token"
  | p =>
    match p.encPadding?, p.encUriW fixed with
    | some pad, some u =>
      match encrypt r pad rnd pw nonce with
      | .ok c => .ok (c, .uri u)
      | .err e => .err e
      | .panic => .panic
    | _, _ => .panic

/-- `decrypt_user_identity_token_password(token, server_nonce, server_key)`; `password = none` is a
null ByteString (read as empty by `plaintext_password`). -/
def decryptToken (r : Rsa) (password : Option Bytes) (alg : TokAlg) (nonce : Bytes) : Outcome Bytes :=
  match alg with
  | .empty =>
    let pw := password.getD []
    if utf8Valid pw then .ok pw else .err .badDecoding        -- `plaintext_password`
  | .other => .err .badIdentityTokenInvalid
  | .uri u => decrypt r u.padding password nonce

/-- the current source (after the two `fix:` commits on the algorithm constants) -/
def makeToken := makeTokenW true

/-! ### a toy RSA for the driver: a block is `len_hi len_lo message zeros… ck_hi ck_lo`
(`ck` = sum of the other bytes, so that a flipped bit is rejected as real RSA padding would) -/

def toySum (bs : Bytes) : Nat := bs.foldl (· + ·) 0

def padTag : Padding → Nat
  | .pkcs1 => 1 | .oaepSha1 => 2 | .oaepSha256 => 3 | .pss => 4

/-- checksum of a toy block; it binds the padding, so that decrypting with another padding than
the one used to encrypt fails, as it does with real RSA -/
def toyCk (pad : Padding) (bs : Bytes) : Nat := toySum bs + padTag pad

def toyEnc (ks : Nat) (pad : Padding) (_rnd : Nat) (m : Bytes) : Option Bytes :=
  match ptbs ks pad with
  | none => none
  | some b =>
    if m.length ≤ b then
      let body := [m.length / 256, m.length % 256] ++ m ++ List.replicate (ks - 4 - m.length) 0
      some (body ++ [toyCk pad body / 256 % 256, toyCk pad body % 256])
    else none

def toyDec (ks : Nat) (pad : Padding) (c : Bytes) : Option Bytes :=
  match ptbs ks pad with
  | none => none
  | some b =>
    let l := c.getD 0 0 * 256 + c.getD 1 0
    let body := c.take (ks - 2)
    if c.length = ks ∧ l ≤ b ∧ ((body.drop (2 + l)).all (· == 0)) ∧
        c.drop (ks - 2) = [toyCk pad body / 256 % 256, toyCk pad body % 256] then
      some ((c.drop 2).take l)
    else none

def toyRsa (ks : Nat) : Rsa := { ks := ks, encBlock := toyEnc ks, decBlock := toyDec ks }

end OpcuaVerif.C16
