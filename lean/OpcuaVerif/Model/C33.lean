/-
C33 — model of the node-management handlers up to (and including) their former panic sites
(`lib/src/server/services/node_management.rs`: `add_nodes`, `add_node`, `add_references`,
`add_reference`; `lib/src/server/address_space/address_space.rs`: `insert` / `assert_namespace`,
`is_valid_type_definition`, `set_node_type`; `lib/src/server/address_space/references.rs`:
`insert_reference` (self-reference panic), `has_reference`; the duplicate-browse-name test through
`relative_path::find_nodes_relative_path`).

A panic is an outcome (`Outcome.panic site`).  `Variant` selects, per former panic site, the pinned
source (`false`) or the repaired source (`true`); the driver and the totality theorems use
`repaired`, the counterexample theorems use `pinned`.

Abstractions: node ids are pairs (namespace, number) with (0,0) = null; browse names are a namespace
and a number (an index into the name table of the harness; equal numbers ⇔ equal strings); node
attributes are reduced to "decode and fit the node class" or not; the address space is a list of
nodes (id, class, browse name) and a duplicate-free list of references; standard reference types
that are hierarchical are a fixed list (user-defined subtypes are not followed).
-/
namespace OpcuaVerif.C33

inductive Status where
  | Good | BadUserAccessDenied | BadNodeIdRejected | BadNodeClassInvalid | BadNodeIdExists
  | BadBrowseNameInvalid | BadBrowseNameDuplicated | BadTypeDefinitionInvalid
  | BadParentNodeIdInvalid | BadNodeAttributesInvalid | BadReferenceTypeIdInvalid
  | BadServerUriInvalid | BadReferenceLocalOnly | BadSourceNodeIdInvalid | BadTargetNodeIdInvalid
  | BadDuplicateReferenceNotAllowed | BadReferenceNotAllowed | BadNothingToDo | BadTooManyOperations
deriving Repr, DecidableEq

/-- the former panic sites on the modelled paths -/
inductive Site where
  | browseNamePath      -- `RelativePath::from_str(..).unwrap()` in `add_node`
  | assertNamespace     -- `AddressSpace::insert` → `assert_namespace`
  | selfReference       -- `References::insert_reference` with source = target
  | arrayDimensions     -- `Variable(Type)::from_attributes`: `attributes.array_dimensions.unwrap()`
deriving Repr, DecidableEq

inductive Outcome where
  | status (s : Status)
  | panic (site : Site)
deriving Repr, DecidableEq

structure Variant where
  pathBuilt : Bool       -- `add_node` builds the RelativePath directly (no text parsing)
  nsChecked : Bool       -- `add_node` rejects a requested id in an unregistered namespace
  selfChecked : Bool     -- `add_reference` rejects source = target
  dimsChecked : Bool     -- `from_attributes` does not unwrap a null ArrayDimensions
deriving Repr, DecidableEq

def pinned : Variant := ⟨false, false, false, false⟩
def repaired : Variant := ⟨true, true, true, true⟩

structure NodeRef where
  ns : Nat
  id : Nat
deriving Repr, DecidableEq

def NodeRef.null : NodeRef := ⟨0, 0⟩
def NodeRef.isNull (r : NodeRef) : Bool := r.ns == 0 && r.id == 0

structure Node where
  ref : NodeRef
  cls : Nat            -- NodeClass value: Object 1, Variable 2, Method 4, ObjectType 8, VariableType 16, ReferenceType 32, DataType 64, View 128
  bnNs : Nat
  bn : Nat
deriving Repr, DecidableEq

structure Reference where
  src : NodeRef
  tgt : NodeRef
  rt : Nat             -- reference type: numeric id in namespace 0
deriving Repr, DecidableEq

structure AS where
  nodes : List Node
  refs : List Reference
  namespaces : Nat       -- number of registered namespaces (indices 0 .. namespaces-1)
  nextAuto : Nat         -- stands for `NodeId::next_numeric(internal_namespace)`
  internalNs : Nat
deriving Repr, DecidableEq

def AS.find (a : AS) (r : NodeRef) : Option Node := a.nodes.find? (fun n => n.ref == r)
def AS.exists (a : AS) (r : NodeRef) : Bool := (a.find r).isSome

def AS.hasRef (a : AS) (s t : NodeRef) (rt : Nat) : Bool := a.refs.contains ⟨s, t, rt⟩

/-- `References::insert_reference` without its panic: duplicates are skipped -/
def AS.addRef (a : AS) (s t : NodeRef) (rt : Nat) : AS :=
  if a.hasRef s t rt then a else { a with refs := a.refs ++ [⟨s, t, rt⟩] }

/-- standard reference types that are HierarchicalReferences or a subtype of it -/
def hierarchical : List Nat := [33, 34, 35, 36, 44, 45, 46, 47, 48, 49]

/-- ids accepted by `NodeId::as_reference_type_id` (a sample of the `ReferenceTypeId` enum that the
harness uses) -/
def knownRefTypes : List Nat := [31, 32, 33, 34, 35, 36, 37, 38, 39, 40, 41, 44, 45, 46, 47, 48, 49]

/-- the duplicate-browse-name test of `add_node`: some forward hierarchical reference of the parent
leads to a node with that browse name -/
def AS.hasChildNamed (a : AS) (parent : NodeRef) (bnNs bn : Nat) : Bool :=
  a.exists parent && a.refs.any fun r =>
    r.src == parent && hierarchical.contains r.rt &&
      (match a.find r.tgt with
       | some n => n.bnNs == bnNs && n.bn == bn
       | none => false)

/-- the node exists and its class is not `cls` -/
def AS.classDiffers (a : AS) (r : NodeRef) (cls : Nat) : Bool :=
  match a.find r with
  | some n => n.cls != cls
  | none => false

/-- `AddressSpace::is_valid_type_definition` -/
def AS.validTypeDef (a : AS) (cls : Nat) (td : NodeRef) : Bool :=
  if cls = 1 then !td.isNull && (match a.find td with
    | some n => n.cls == 8
    | none => false)
  else if cls = 2 then !td.isNull && (match a.find td with
    | some n => n.cls == 16
    | none => false)
  else td.isNull

inductive Attrs where
  | fits (cls : Nat) (nullDims : Bool)
      -- decodable attributes structure of node class `cls` with the mandatory fields; `nullDims`: the
      -- ArrayDimensions bit of specified_attributes is set but the array is null (Variable / VariableType)
  | unusable             -- null / unknown type id / undecodable body / mandatory fields missing
deriving Repr, DecidableEq

structure AddNodeReq where
  reqId : NodeRef
  reqServerIndex : Nat
  cls : Nat                 -- 0 = Unspecified
  bnNull : Bool             -- browse name null, or its name empty
  bnNs : Nat
  bn : Nat
  bnParses : Bool           -- the text "/name" is a valid relative path (only the pinned source asks)
  parent : NodeRef
  parentServerIndex : Nat
  refType : Option Nat      -- `as_reference_type_id()`: `some n` when it is a standard reference type
  typeDef : NodeRef
  attrs : Attrs
deriving Repr, DecidableEq

/-- second half of `add_node`: the node id is known (`a1` is the address space after a generated id
was taken from the counter) -/
def Attrs.fitsClass : Attrs → Nat → Bool
  | .fits c _, cls => c == cls
  | .unusable, _ => false

def Attrs.hasNullDims : Attrs → Bool
  | .fits _ d => d
  | .unusable => false

def addNodeTail (v : Variant) (a1 : AS) (newId : NodeRef) (r : AddNodeReq) (rt : Nat) : Outcome × AS :=
  if !a1.validTypeDef r.cls r.typeDef then (.status .BadTypeDefinitionInvalid, a1)
  -- `!item.parent_node_id.server_index == 0` is `(!x) == 0`: true only for x = u32::MAX
  else if r.parentServerIndex = 4294967295 || !a1.exists r.parent then (.status .BadParentNodeIdInvalid, a1)
  else if !r.attrs.fitsClass r.cls then (.status .BadNodeAttributesInvalid, a1)
  -- `create_node` → `Variable::from_attributes` / `VariableType::from_attributes`
  else if !v.dimsChecked && r.attrs.hasNullDims && (r.cls == 2 || r.cls == 16) then (.panic .arrayDimensions, a1)
  -- `AddressSpace::insert` → `assert_namespace`: `namespace as usize > namespaces.len()`
  else if decide (newId.ns > a1.namespaces) then (.panic .assertNamespace, a1)
  else
    let a2 : AS := { a1 with nodes := a1.nodes ++ [(⟨newId, r.cls, r.bnNs, r.bn⟩ : Node)] }
    -- the parent references the new node (`ReferenceDirection::Inverse` seen from the new node)
    let a3 := a2.addRef r.parent newId rt
    let a4 := if r.cls = 1 ∨ r.cls = 2 then a3.addRef newId r.typeDef 40 else a3
    (.status .Good, a4)

/-- `NodeManagementService::add_node` -/
def addNode (v : Variant) (a : AS) (canModify : Bool) (r : AddNodeReq) : Outcome × AS :=
  if !canModify then (.status .BadUserAccessDenied, a)
  else if r.reqServerIndex ≠ 0 then (.status .BadNodeIdRejected, a)
  else if r.cls = 0 then (.status .BadNodeClassInvalid, a)
  else if v.nsChecked && !r.reqId.isNull && decide (r.reqId.ns ≥ a.namespaces) then (.status .BadNodeIdRejected, a)
  else if !r.reqId.isNull && a.exists r.reqId then (.status .BadNodeIdExists, a)
  else if r.bnNull then (.status .BadBrowseNameInvalid, a)
  else if !v.pathBuilt && !(r.bnNs == 0 && r.bnParses) then (.panic .browseNamePath, a)
  else if a.hasChildNamed r.parent r.bnNs r.bn then (.status .BadBrowseNameDuplicated, a)
  else match r.refType with
    | none => (.status .BadReferenceTypeIdInvalid, a)
    | some rt =>
      -- the id is either the requested one or `NodeId::next_numeric(internal_namespace)`
      if r.reqId.isNull then addNodeTail v { a with nextAuto := a.nextAuto + 1 } ⟨a.internalNs, a.nextAuto⟩ r rt
      else addNodeTail v a r.reqId r rt

structure AddRefReq where
  src : NodeRef
  tgt : NodeRef
  tgtServerIndex : Nat
  uriNull : Bool
  tgtClass : Nat
  refType : Option Nat
  isForward : Bool
deriving Repr, DecidableEq

/-- `NodeManagementService::add_reference` -/
def addReference (v : Variant) (a : AS) (canModify : Bool) (r : AddRefReq) : Outcome × AS :=
  if !canModify then (.status .BadUserAccessDenied, a)
  else if !r.uriNull then (.status .BadServerUriInvalid, a)
  else if r.tgtServerIndex ≠ 0 then (.status .BadReferenceLocalOnly, a)
  else if !a.exists r.src then (.status .BadSourceNodeIdInvalid, a)
  else if !a.exists r.tgt then (.status .BadTargetNodeIdInvalid, a)
  else if r.tgtClass = 0 then (.status .BadNodeClassInvalid, a)
  else if v.selfChecked && r.src == r.tgt then (.status .BadReferenceNotAllowed, a)
  else if a.classDiffers r.tgt r.tgtClass then (.status .BadNodeClassInvalid, a)
  else match r.refType with
    | none => (.status .BadReferenceTypeIdInvalid, a)
    | some rt =>
      if a.hasRef r.src r.tgt rt then (.status .BadDuplicateReferenceNotAllowed, a)
      else if r.src == r.tgt then (.panic .selfReference, a)
      else if r.isForward then (.status .Good, a.addRef r.src r.tgt rt)
      else (.status .Good, a.addRef r.tgt r.src rt)

/-- `MAX_NODES_PER_NODE_MANAGEMENT` -/
def maxPerCall : Nat := 100

/-- result of a whole service call: a ServiceFault, the per-item results, or a panic -/
inductive CallOut where
  | fault (s : Status)
  | results (l : List Status)
  | panic (site : Site)
deriving Repr, DecidableEq

/-- the `.map(..)` over the items (left to right; a panic ends the call) -/
def mapItems {ρ : Type} (f : AS → ρ → Outcome × AS) : AS → List ρ → List Status → CallOut × AS
  | a, [], acc => (.results acc.reverse, a)
  | a, r :: rest, acc =>
    match f a r with
    | (.status s, a') => mapItems f a' rest (s :: acc)
    | (.panic site, a') => (.panic site, a')

/-- `NodeManagementService::add_nodes` -/
def addNodes (v : Variant) (a : AS) (canModify : Bool) (items : Option (List AddNodeReq)) : CallOut × AS :=
  match items with
  | none => (.fault .BadNothingToDo, a)
  | some l =>
    if l.isEmpty then (.fault .BadNothingToDo, a)
    else if l.length > maxPerCall then (.fault .BadTooManyOperations, a)
    else mapItems (fun a r => addNode v a canModify r) a l []

/-- `NodeManagementService::add_references` -/
def addReferences (v : Variant) (a : AS) (canModify : Bool) (items : Option (List AddRefReq)) : CallOut × AS :=
  match items with
  | none => (.fault .BadNothingToDo, a)
  | some l =>
    if l.isEmpty then (.fault .BadNothingToDo, a)
    else if l.length > maxPerCall then (.fault .BadTooManyOperations, a)
    else mapItems (fun a r => addReference v a canModify r) a l []

inductive Op where
  | addNodes (items : Option (List AddNodeReq))
  | addReferences (items : Option (List AddRefReq))
deriving Repr

def step (v : Variant) (canModify : Bool) (a : AS) : Op → CallOut × AS
  | .addNodes items => addNodes v a canModify items
  | .addReferences items => addReferences v a canModify items

/-- a history of calls; `none` = some call panicked -/
def run (v : Variant) (canModify : Bool) : AS → List Op → Option AS
  | a, [] => some a
  | a, op :: ops =>
    match step v canModify a op with
    | (.panic _, _) => none
    | (_, a') => run v canModify a' ops

end OpcuaVerif.C33
