import OpcuaVerif.Model.C06

/-
C39 — model of the event-filter where-clause evaluator
(`lib/src/server/events/operator.rs`: `evaluate`, `value_of`, `convert`, `compare_operands`, the
operators, `like_to_regex`; `lib/src/server/events/event_filter.rs`: `evaluate_where_clause`,
`validate_where_clause`).

Values are restricted to what the op vocabulary can express: NULL, the 11 numeric/Boolean types of
C06 (bit-exact), ASCII strings over an alphabet without digits and letters other than a, b, c (so
that no string parses as a number, Boolean, NodeId or Guid: every String → X conversion of
`Variant::convert` gives `Empty`), and NodeIds of data types (for `Cast`).

`old = true` reproduces the code BEFORE the `fix:` commits of this property (panics at the five
sites, NaN ordered as "greater", String = String never TRUE); it is used by the counterexample
theorems only.  The driver runs `old = false`.
-/
namespace OpcuaVerif.C39

open OpcuaVerif.C06 (NT Val Fl)

/-! ### Values -/

inductive V where
  | empty
  | num (t : NT) (v : Val)
  /-- `none` = null string -/
  | str (s : Option (List Nat))
  /-- NodeId `ns=0;i=<id>` -/
  | nid (id : Nat)
deriving Repr, DecidableEq, Inhabited

/-- `VariantTypeId` as far as it matters here -/
inductive TId where
  | empty
  | num (t : NT)
  | string
  | nodeId
deriving Repr, DecidableEq

def V.typeId : V → TId
  | .empty => .empty
  | .num t _ => .num t
  | .str _ => .string
  | .nid _ => .nodeId

/-- `VariantTypeId::precedence` -/
def TId.precedence : TId → Nat
  | .num .double => 1
  | .num .float => 2
  | .num .int64 => 3
  | .num .uint64 => 4
  | .num .int32 => 5
  | .num .uint32 => 6
  | .num .int16 => 8
  | .num .uint16 => 9
  | .num .sbyte => 10
  | .num .byte => 11
  | .num .boolean => 12
  | .string => 14
  | .nodeId => 16
  | .empty => 100

def natDigits (n : Nat) : List Nat := (toString n).toList.map Char.toNat

/-- `Variant::convert` on this universe.  Strings never convert (see the header); a NodeId
converts to its text `i=<id>`; numeric conversions are C06's. -/
def convertV (v : V) (target : TId) : V :=
  if v.typeId = target then v
  else match v, target with
    | .num s x, .num d => match C06.convert s d x with
      | some r => .num d r
      | none => .empty
    | .nid id, .string => .str (some ([105, 61] ++ natDigits id))
    | _, _ => .empty

/-- `VariantTypeId::try_from(&NodeId)` for data-type ids (SByte = 2 is missing in the source) -/
def dataTypeOfNode (id : Nat) : Option NT :=
  match id with
  | 1 => some .boolean
  | 3 => some .byte
  | 4 => some .int16
  | 5 => some .uint16
  | 6 => some .int32
  | 7 => some .uint32
  | 8 => some .int64
  | 9 => some .uint64
  | 10 => some .float
  | 11 => some .double
  | _ => none

/-- `Variant::cast` to a numeric type -/
def castV (v : V) (d : NT) : V :=
  match v with
  | .num s x => match C06.cast s d x with
    | some r => .num d r
    | none => .empty
  | _ => .empty

/-! ### Filters -/

inductive FOp where
  | equals | isNull | gt | lt | gte | lte | like | not | between | inList | and | or | cast
  | inView | ofType | relatedTo | bitAnd | bitOr
deriving Repr, DecidableEq

inductive Operand where
  | elem (i : Nat)
  | lit (v : V)
  | attr
  /-- SimpleAttributeOperand that resolves to no node: value `Empty`; `path` = has a browse path -/
  | simple (path : Bool)
  /-- extension object that is not an operand -/
  | undecodable
deriving Repr, DecidableEq

structure Element where
  op : FOp
  /-- `filter_operands` (`none` = None) -/
  operands : Option (List Operand)
deriving Repr, DecidableEq

inductive Code where
  | operandCountMismatch | operandInvalid | operatorUnsupported | operatorInvalid | good
  | outOfFuel
  /-- LIKE pattern outside the modelled subset of the regex syntax (model limitation) -/
  | unsupportedPattern
deriving Repr, DecidableEq

inductive Res where
  | ok (v : V)
  | err (c : Code)
  | panic
deriving Repr, DecidableEq

def Res.bind (r : Res) (f : V → Res) : Res :=
  match r with
  | .ok v => f v
  | e => e

def boolV (b : Bool) : V := .num .boolean (.int (if b then 1 else 0))

inductive Cmp where
  | lt | eq | gt | ne | error
deriving Repr, DecidableEq

/-- exact comparison of two floats (`<`, `==` of IEEE-754): `none` = unordered (NaN) -/
def flCmp (a b : Fl) : Option Ordering :=
  match a, b with
  | .nan, _ | _, .nan => none
  | .inf na, .inf nb => some (if na = nb then .eq else if na then .lt else .gt)
  | .inf na, .fin .. => some (if na then .lt else .gt)
  | .fin .., .inf nb => some (if nb then .gt else .lt)
  | .fin na ma ea, .fin nb mb eb =>
    -- compare ±ma·2^ea with ±mb·2^eb on a common exponent
    let c : Int := min ea eb
    let x : Int := (if na then -1 else 1) * ((ma * 2 ^ (ea - c).toNat : Nat) : Int)
    let y : Int := (if nb then -1 else 1) * ((mb * 2 ^ (eb - c).toNat : Nat) : Int)
    some (if x < y then .lt else if x = y then .eq else .gt)

/-- `compare_values!` and the `match v1.type_id()` of `compare_operands`, after `convert` -/
def compareConverted (old : Bool) (v1 v2 : V) : Option Cmp :=   -- none = panic
  match v1 with
  | .num .boolean _ => some (if v1 = v2 then .eq else .ne)
  | .num _ x =>
    match v2 with
    | .num _ y =>
      match x, y with
      | .int a, .int b => some (if a < b then .lt else if a = b then .eq else .gt)
      | .flt a, .flt b =>
        match flCmp a b with
        | some .lt => some .lt
        | some .eq => some .eq
        | some .gt => some .gt
        | none => some (if old then .gt else .error)
      | _, _ => some .error
    | _ => if old then none else some .error
  | .str _ => if old then some .error else some (if v1 = v2 then .eq else .ne)
  | _ => some .error

/-- `operator::convert` -/
def convertPair (v1 v2 : V) : V × V :=
  let dt1 := v1.typeId
  let dt2 := v2.typeId
  if dt1 ≠ dt2 then
    if dt1.precedence < dt2.precedence then (v1, convertV v2 dt1) else (convertV v1 dt2, v2)
  else (v1, v2)

def compareValues (old : Bool) (v1 v2 : V) : Option Cmp :=
  let (a, b) := convertPair v1 v2
  compareConverted old a b

/-- two's complement bit operation on n-bit integers given as exact `Int`s -/
def bitOp (isAnd : Bool) (t : NT) (a b : Int) : Int :=
  let m := t.modulus
  let ua := (a % m).toNat
  let ub := (b % m).toNat
  C06.wrapTo t (if isAnd then (ua &&& ub : Nat) else (ua ||| ub : Nat))

def bitwiseConverted (old : Bool) (isAnd : Bool) (v1 v2 : V) : Option V :=   -- none = panic
  match v1 with
  | .num .boolean _ | .num .float _ | .num .double _ => some .empty
  | .num t (.int a) =>
    match v2 with
    | .num _ (.int b) => some (.num t (.int (bitOp isAnd t a b)))
    | _ => if old then none else some .empty
  | _ => some .empty

/-! ### LIKE -/

def isRegexMeta (c : Nat) : Bool :=
  c = 36 || c = 40 || c = 41 || c = 46 || c = 43 || c = 42 || c = 63   -- $ ( ) . + * ?

/-- characters that `regex::escape` prefixes with a backslash: `\ . + * ? ( ) | [ ] { } ^ $ # & - ~` -/
def regexEscapes (c : Nat) : Bool :=
  c = 92 || c = 46 || c = 43 || c = 42 || c = 63 || c = 40 || c = 41 || c = 124 || c = 91 || c = 93 ||
  c = 123 || c = 125 || c = 94 || c = 36 || c = 35 || c = 38 || c = 45 || c = 126

/-- `like_to_regex`, the text of the regular expression (exact, character by character).
`esc`: the current character is escaped by a backslash that is not itself escaped. -/
def likeToRegexGo : List Nat → (inList : Bool) → (esc : Bool) → (out : List Nat) → List Nat
  | [], _, _, out => out
  | c :: rest, inList, esc, out =>
    let next : Bool := !esc && c == 92
    if inList then
      if c = 93 ∧ esc = false then likeToRegexGo rest false next (c :: out)
      else if esc then
        likeToRegexGo rest true next (if regexEscapes c then c :: 92 :: out.tail else c :: out.tail)
      else if isRegexMeta c then likeToRegexGo rest true next (c :: 92 :: out)
      else likeToRegexGo rest true next (c :: out)
    else if esc then
      -- `pattern.pop(); pattern.push_str(&regex::escape(c))`
      likeToRegexGo rest false next (if regexEscapes c then c :: 92 :: out.tail else c :: out.tail)
    else if isRegexMeta c ∨ c = 94 then likeToRegexGo rest false next (c :: 92 :: out)
    else if c = 91 then likeToRegexGo rest true next (c :: out)
    else if c = 37 then likeToRegexGo rest false next (42 :: 46 :: out)
    else if c = 95 then likeToRegexGo rest false next (63 :: out)
    else likeToRegexGo rest false next (c :: out)

/-- the `escaped` flag after the last character: the pattern ends in a backslash that escapes nothing -/
def endsEscaped : List Nat → Bool → Bool
  | [], esc => esc
  | c :: rest, esc => endsEscaped rest (!esc && c == 92)

/-- the out list is kept reversed; a dangling backslash is doubled so that it cannot escape the `$` -/
def likeToRegex (p : List Nat) : List Nat :=
  let out := likeToRegexGo p false false [94]
  (36 :: (if endsEscaped p false then 92 :: out else out)).reverse

/-- `like_to_regex` BEFORE the two `fix: LIKE escape …` commits: a character counted as escaped when the
single preceding character was a backslash (so `\\%` lost its wildcard) and an escaped regex
meta character got a second backslash (`\.` became "backslash, any character") -/
def likeToRegexGoOld : List Nat → (inList : Bool) → (prev : Option Nat) → (out : List Nat) → List Nat
  | [], _, _, out => out
  | c :: rest, inList, prev, out =>
    let escaped : Bool := prev == some 92
    if inList then
      if c = 93 ∧ escaped = false then likeToRegexGoOld rest false (some c) (c :: out)
      else if isRegexMeta c then likeToRegexGoOld rest true (some c) (c :: 92 :: out)
      else likeToRegexGoOld rest true (some c) (c :: out)
    else if isRegexMeta c ∨ c = 94 then likeToRegexGoOld rest false (some c) (c :: 92 :: out)
    else if c = 91 then likeToRegexGoOld rest (!escaped) (some c) (c :: out)
    else if c = 37 then
      if escaped then likeToRegexGoOld rest false (some c) (c :: out)
      else likeToRegexGoOld rest false (some c) (42 :: 46 :: out)
    else if c = 95 then
      if escaped then likeToRegexGoOld rest false (some c) (c :: out.tail)
      else likeToRegexGoOld rest false (some c) (63 :: out)
    else likeToRegexGoOld rest false (some c) (c :: out)

/-- the out list is kept reversed -/
def likeToRegexOld (p : List Nat) : List Nat := (36 :: likeToRegexGoOld p false none [94]).reverse

inductive Atom where
  | lit (c : Nat)
  | any
  | cls (neg : Bool) (ranges : List (Nat × Nat))
deriving Repr, DecidableEq

inductive Quant where
  | one | opt | star
deriving Repr, DecidableEq

structure Item where
  atom : Atom
  q : Quant
deriving Repr, DecidableEq

inductive Parse where
  /-- `anchored = false`: the regex starts with `^?` (a leading `_`), the start anchor is optional
  and `is_match` searches -/
  | ok (anchored : Bool) (items : List Item)
  /-- `Regex::new` fails -/
  | error
  /-- outside the modelled subset of the regex syntax -/
  | unsupported
deriving Repr, DecidableEq

/-- ASCII punctuation that the regex crate lets one escape to a literal -/
def escapable (c : Nat) : Bool :=
  (33 ≤ c && c ≤ 47 || 58 ≤ c && c ≤ 64 || 91 ≤ c && c ≤ 96 || 123 ≤ c && c ≤ 126) && c != 60 && c != 62

/-- one class atom: `\c` or a plain character (not `]`, `[`) -/
def classAtom : List Nat → Option (Option (Nat × List Nat))   -- none = unsupported; some none = no atom
  | 92 :: c :: rest =>
    if escapable c then some (some (c, rest))
    else if c = 97 then some (some (7, rest))      -- `\a` is the bell character
    else none
  | [92] => none
  | 91 :: _ => none
  | c :: rest => some (some (c, rest))
  | [] => some none

/-- items of a bracketed class up to the closing `]`; returns the ranges and the rest -/
def parseClassItems : Nat → List Nat → List (Nat × Nat) → Option (Option (List (Nat × Nat) × List Nat))
  | 0, _, _ => none
  | _ + 1, [], _ => some none                       -- unclosed
  | _ + 1, 93 :: rest, acc => some (some (acc.reverse, rest))
  | fuel + 1, 91 :: rest, acc =>
    -- a nested class `[..]` inside a class is the union with it (a negated one is not modelled)
    match rest with
    | 94 :: _ => none
    | _ =>
      let (acc0, rest0) := match rest with
        | 93 :: r => ([((93 : Nat), (93 : Nat))], r)
        | r => ([], r)
      match parseClassItems fuel rest0 acc0 with
      | some (some (rs, rest')) =>
        if rs.isEmpty then some none else parseClassItems fuel rest' (rs.reverse ++ acc)
      | other => other
  | fuel + 1, cs, acc =>
    match classAtom cs with
    | none => none
    | some none => some none
    | some (some (lo, rest)) =>
      match rest with
      | 45 :: 93 :: _ => parseClassItems fuel rest ((lo, lo) :: acc)     -- `a-]`: literal a, then `-`
      | 45 :: 45 :: _ => none                                            -- `--`: set difference, not modelled
      | 45 :: rest2 =>
        match classAtom rest2 with
        | none => none
        | some none => some none
        | some (some (hi, rest3)) =>
          if lo > hi then some none else parseClassItems fuel rest3 ((lo, hi) :: acc)
      | _ => parseClassItems fuel rest ((lo, lo) :: acc)

/-- after `[`: optional `^`, a leading `]` is literal -/
def parseClass (cs : List Nat) : Option (Option (Atom × List Nat)) :=
  let (neg, cs) := match cs with
    | 94 :: r => (true, r)
    | r => (false, r)
  let (acc, cs) := match cs with
    | 93 :: r => ([((93 : Nat), (93 : Nat))], r)
    | r => ([], r)
  match parseClassItems (2 * cs.length + 4) cs acc with
  | none => none
  | some none => some none
  | some (some (rs, rest)) => if rs.isEmpty then some none else some (some (.cls neg rs, rest))

def bumpQuant (star : Bool) : List Item → List Item
  | [] => []
  | ⟨a, q⟩ :: r => ⟨a, if star then .star else (if q = .star then .star else .opt)⟩ :: r

/-- the body of the regex after `^` (items accumulated in reverse); `anch`: start still anchored -/
def parseSeq : Nat → List Nat → Bool → List Item → Parse
  | 0, _, _, _ => .unsupported
  | _ + 1, [], _, _ => .unsupported                    -- no end anchor
  | fuel + 1, c :: rest, anch, acc =>
    if c = 36 then (if rest.isEmpty then .ok anch acc.reverse else .unsupported)
    else if c = 92 then
      match rest with
      | d :: rest2 =>
        if escapable d then parseSeq fuel rest2 anch (⟨.lit d, .one⟩ :: acc) else .unsupported
      | [] => .unsupported
    else if c = 46 then parseSeq fuel rest anch (⟨.any, .one⟩ :: acc)
    else if c = 63 then
      -- `?` on the previous item; directly after `^` it makes the anchor optional
      if acc.isEmpty then parseSeq fuel rest false acc else parseSeq fuel rest anch (bumpQuant false acc)
    else if c = 42 then
      if acc.isEmpty then .unsupported else parseSeq fuel rest anch (bumpQuant true acc)
    else if c = 91 then
      match parseClass rest with
      | none => .unsupported
      | some none => .error
      | some (some (a, rest2)) => parseSeq fuel rest2 anch (⟨a, .one⟩ :: acc)
    else if c = 43 ∨ c = 40 ∨ c = 41 ∨ c = 94 ∨ c = 124 ∨ c = 123 ∨ c = 125 then .unsupported
    else parseSeq fuel rest anch (⟨.lit c, .one⟩ :: acc)

def parseRegex (r : List Nat) : Parse :=
  match r with
  | 94 :: body => parseSeq (body.length + 1) body true []
  | _ => .unsupported

def Atom.matches (a : Atom) (c : Nat) : Bool :=
  match a with
  | .lit d => c = d
  | .any => c != 10
  | .cls neg rs => (rs.any fun (lo, hi) => lo ≤ c && c ≤ hi) != neg

def starK (a : Atom) (k : List Nat → Bool) : List Nat → Bool
  | [] => k []
  | c :: s => k (c :: s) || (a.matches c && starK a k s)

/-- anchored match of the whole subject -/
def matchItems : List Item → List Nat → Bool
  | [] => fun s => s.isEmpty
  | ⟨a, .one⟩ :: r => fun s =>
    match s with
    | c :: s' => a.matches c && matchItems r s'
    | [] => false
  | ⟨a, .opt⟩ :: r => fun s =>
    matchItems r s ||
      (match s with
       | c :: s' => a.matches c && matchItems r s'
       | [] => false)
  | ⟨a, .star⟩ :: r => starK a (matchItems r)

/-- match of some suffix (optional start anchor) -/
def searchItems (items : List Item) : List Nat → Bool
  | [] => matchItems items []
  | c :: s => matchItems items (c :: s) || searchItems items s

/-- `like_to_regex(p)` then `is_match(s)`; `none` = the pattern is outside the modelled subset -/
def likeImpl (p s : List Nat) : Option Bool :=
  match parseRegex (likeToRegex p) with
  | .ok true items => some (matchItems items s)
  | .ok false items => some (searchItems items s)
  | .error => some false
  | .unsupported => none

/-- LIKE with the translation before the escape fix (counterexample theorems only) -/
def likeImplOld (p s : List Nat) : Option Bool :=
  match parseRegex (likeToRegexOld p) with
  | .ok true items => some (matchItems items s)
  | .ok false items => some (searchItems items s)
  | .error => some false
  | .unsupported => none

/-! ### Evaluation -/

/-- minimum operand count checked by `evaluate` (since the fix) -/
def minOperands : FOp → Nat
  | .isNull | .not => 1
  | .between => 3
  | _ => 2

def supportedOp : FOp → Bool
  | .inView | .ofType | .relatedTo => false
  | _ => true

/-- `value_of` given the evaluator for referenced elements -/
def valueOfWith (old : Bool) (ev : List Nat → Element → Res) (elems : List Element)
    (used : List Nat) : Operand → Res
  | .elem i =>
    if used.contains i then .err .operandInvalid
    else match elems[i]? with
      | some e => ev (i :: used) e
      | none => if old then .panic else .err .operandInvalid
  | .lit v => .ok v
  | .simple _ => .ok .empty
  | .attr => if old then .panic else .err .operandInvalid
  | .undecodable => .err .operandInvalid      -- unreachable: `make_filter_operands` fails first

def valueAs (vo : Operand → Res) (t : TId) (o : Operand) : Res :=
  (vo o).bind fun v => .ok (convertV v t)

def compareOperands (old : Bool) (vo : Operand → Res) (o1 o2 : Operand) : Res ⊕ Cmp :=
  match vo o1 with
  | .ok v1 =>
    match vo o2 with
    | .ok v2 =>
      match compareValues old v1 v2 with
      | some c => .inr c
      | none => .inl .panic
    | e => .inl e
  | e => .inl e

def cmpRes (r : Res ⊕ Cmp) (f : Cmp → Bool) : Res :=
  match r with
  | .inl e => e
  | .inr c => .ok (boolV (f c))

/-- `in_list`: errors of single comparisons are swallowed (`if let Ok(..)`), a panic is not -/
def inListGo (old : Bool) (vo : Operand → Res) (o0 : Operand) : List Operand → Res
  | [] => .ok (boolV false)
  | o :: rest =>
    match compareOperands old vo o0 o with
    | .inr .eq => .ok (boolV true)
    | .inl .panic => .panic
    | _ => inListGo old vo o0 rest

def strOf : V → Option (List Nat)
  | .str (some s) => some s
  | .str none => some []
  | _ => none

/-- the operators on already-fetched operand lists; `none` from `get` = index out of bounds -/
def applyOp (old : Bool) (vo : Operand → Res) (op : FOp) (os : List Operand) : Res :=
  let get (i : Nat) (f : Operand → Res) : Res :=
    match os[i]? with
    | some o => f o
    | none => .panic        -- `operands[i]` out of bounds (only reachable when `old`)
  match op with
  | .equals => get 0 fun a => get 1 fun b => cmpRes (compareOperands old vo a b) (· = .eq)
  | .gt => get 0 fun a => get 1 fun b => cmpRes (compareOperands old vo a b) (· = .gt)
  | .lt => get 0 fun a => get 1 fun b => cmpRes (compareOperands old vo a b) (· = .lt)
  | .gte => get 0 fun a => get 1 fun b =>
      cmpRes (compareOperands old vo a b) (fun c => c = .gt || c = .eq)
  | .lte => get 0 fun a => get 1 fun b =>
      cmpRes (compareOperands old vo a b) (fun c => c = .lt || c = .eq)
  | .isNull => get 0 fun a => (vo a).bind fun v => .ok (boolV (v = .empty))
  | .not => get 0 fun a => (valueAs vo (.num .boolean) a).bind fun v =>
      match v with
      | .num .boolean (.int x) => .ok (boolV (x = 0))
      | _ => .ok .empty
  | .between => get 0 fun a => get 1 fun b =>
      match compareOperands old vo a b with
      | .inl e => e
      | .inr c =>
        if c = .gt ∨ c = .eq then
          get 2 fun d => cmpRes (compareOperands old vo a d) (fun c => c = .lt || c = .eq)
        else .ok (boolV false)
  | .inList => get 0 fun a => inListGo old vo a (os.drop 1)
  | .and => get 0 fun a => (valueAs vo (.num .boolean) a).bind fun v1 =>
      get 1 fun b => (valueAs vo (.num .boolean) b).bind fun v2 =>
        if v1 = boolV true ∧ v2 = boolV true then .ok (boolV true)
        else if v1 = boolV false ∨ v2 = boolV false then .ok (boolV false)
        else .ok .empty
  | .or => get 0 fun a => (valueAs vo (.num .boolean) a).bind fun v1 =>
      get 1 fun b => (valueAs vo (.num .boolean) b).bind fun v2 =>
        if v1 = boolV true ∨ v2 = boolV true then .ok (boolV true)
        else if v1 = boolV false ∧ v2 = boolV false then .ok (boolV false)
        else .ok .empty
  | .like => get 0 fun a => (valueAs vo .string a).bind fun v1 =>
      get 1 fun b => (valueAs vo .string b).bind fun v2 =>
        match strOf v1, strOf v2 with
        | some s, some p =>
          match likeImpl p s with
          | some r => .ok (boolV r)
          | none => .err .unsupportedPattern
        | _, _ => .ok (boolV false)
  | .cast => get 0 fun a => (vo a).bind fun v1 =>
      get 1 fun b => (vo b).bind fun v2 =>
        match v2 with
        | .nid id =>
          match dataTypeOfNode id with
          | some d => .ok (castV v1 d)
          | none => .ok .empty
        | _ => .ok .empty
  | .bitAnd | .bitOr => get 0 fun a => (vo a).bind fun v1 =>
      get 1 fun b => (vo b).bind fun v2 =>
        let (x, y) := convertPair v1 v2
        match bitwiseConverted old (op = .bitAnd) x y with
        | some r => .ok r
        | none => .panic
  | .inView | .ofType | .relatedTo => .err .operatorUnsupported

/-- `operator::evaluate` -/
def evalElem (old : Bool) : Nat → List Element → List Nat → Element → Res
  | 0, _, _, _ => .err .outOfFuel
  | fuel + 1, elems, used, e =>
    match e.operands with
    | none => .err .operandCountMismatch
    | some os =>
      if os.isEmpty then .err .operandCountMismatch
      else if os.any (· = .undecodable) then .err .operandInvalid
      else if ¬ old ∧ os.length < minOperands e.op then .err .operandCountMismatch
      else
        applyOp old (valueOfWith old (evalElem old fuel elems) elems used) e.op os

/-- `event_filter::evaluate_where_clause`; the recursion depth is bounded by the number of
elements (each level marks a new element as used), so `length + 1` is enough fuel -/
def evalClause (old : Bool) (elems : List Element) : Res :=
  match elems with
  | [] => .ok (boolV true)
  | e :: _ => evalElem old (elems.length + 1) elems [0] e

/-! ### `validate_where_clause` -/

def validateOperand (n : Nat) : Operand → Bool      -- true = Good
  | .elem i => i < n
  | .lit _ => true
  | .attr => false
  | .simple _ => false         -- browse path not found / not given
  | .undecodable => false

def validateElem (n : Nat) (e : Element) : Code :=
  match e.operands with
  | none => .operandCountMismatch
  | some os =>
    let mismatch := if supportedOp e.op then decide (os.length < minOperands e.op) else true
    if mismatch then .operandCountMismatch
    else if os.any (fun o => !validateOperand n o) then .operatorInvalid
    else .good

def validateClause (elems : List Element) : List Code := elems.map (validateElem elems.length)

end OpcuaVerif.C39
