/-
C17 — signature data (`lib/src/crypto/mod.rs`: `create_signature_data`, `verify_signature_data`,
`concat_data_and_nonce`; `lib/src/crypto/security_policy.rs`: `asymmetric_sign`,
`asymmetric_verify_signature`, `asymmetric_signature_algorithm`; `lib/src/crypto/pkey.rs`:
`PrivateKey::sign`'s `copy_from_slice`).

The RSA signature primitive is NOT modelled; it is replaced by the IDEAL SIGNATURE FUNCTIONALITY:
a world is the log of `(key, hash, padding, data, signature)` tuples that key holders have
produced; verification is membership in the log.  That is the idealised form of "unforgeable
signatures" (and of PSS's many valid signatures per message).  What the theorems then establish is
what the repo's own code adds: which bytes are signed, which algorithm a policy selects, the
null/None/Unknown branches, the status codes.  The correspondence run checks the real RSA code
against this functionality on generated inputs and mutations.
-/
namespace OpcuaVerif.C17

abbrev Bytes := List Nat

inductive Policy where
  | none | basic128Rsa15 | basic256 | basic256Sha256 | aes128Sha256RsaOaep | aes256Sha256RsaPss | unknown
deriving Repr, DecidableEq

inductive Hash where
  | sha1 | sha256
deriving Repr, DecidableEq

inductive SigPad where
  | pkcs1 | pss
deriving Repr, DecidableEq

/-- the digest/padding `asymmetric_sign` and `asymmetric_verify_signature` select
(`none` = `panic!("Invalid policy")`) -/
def Policy.sigAlg? : Policy → Option (Hash × SigPad)
  | .basic128Rsa15 | .basic256 => some (.sha1, .pkcs1)
  | .basic256Sha256 | .aes128Sha256RsaOaep => some (.sha256, .pkcs1)
  | .aes256Sha256RsaPss => some (.sha256, .pss)
  | .none | .unknown => Option.none

/-- `asymmetric_signature_algorithm` (the URI put into `SignatureData.algorithm`) -/
def Policy.sigUri? : Policy → Option String
  | .basic128Rsa15 | .basic256 => some "http://www.w3.org/2000/09/xmldsig#rsa-sha1"
  | .basic256Sha256 | .aes128Sha256RsaOaep => some "http://www.w3.org/2001/04/xmldsig-more#rsa-sha256"
  | .aes256Sha256RsaPss => some "http://opcfoundation.org/UA/security/rsa-pss-sha2-256"
  | .none | .unknown => Option.none

/-- one produced signature -/
structure Rec where
  key : Nat
  hash : Hash
  pad : SigPad
  data : Bytes
  sig : Bytes
deriving Repr, DecidableEq

/-- the ideal functionality's state: everything key holders have signed -/
abbrev World := List Rec

/-- ideal verification: the tuple was produced by the holder of `key` -/
def idealVerify (w : World) (key : Nat) (h : Hash) (p : SigPad) (data sig : Bytes) : Bool :=
  w.contains ⟨key, h, p, data, sig⟩

inductive Status where
  | good | badSecurityChecksFailed | badUnexpectedError | badCertificateInvalid
deriving Repr, DecidableEq

inductive Outcome (α : Type) where
  | ok (a : α)
  | err (s : Status)
  | panic
deriving Repr, DecidableEq

/-- `SignatureData { algorithm, signature }`; `none` = null -/
structure SigData where
  algorithm : Option String
  signature : Option Bytes
deriving Repr, DecidableEq

/-- `concat_data_and_nonce` -/
def concat (data nonce : Bytes) : Bytes := data ++ nonce

/-- `create_signature_data(signing_key, policy, contained_cert, nonce)`.
`key`/`ks`: the signing key and its size in bytes; `fresh`: the signature bytes the key holder's
RSA produces for this call (any bytes — for PSS they are random).  `PrivateKey::sign` copies them
into a `ks`-byte buffer with `copy_from_slice`, which panics on a length mismatch.
Returns the new world (the ideal functionality records the signature) and the `SignatureData`. -/
def create (w : World) (key ks : Nat) (fresh : Bytes) (policy : Policy)
    (cert nonce : Option Bytes) : Outcome (World × SigData) :=
  match cert, nonce with
  | some cert, some nonce =>
    match policy with
    | .none | .unknown => .ok (w, ⟨Option.none, Option.none⟩)
    | policy =>
      match policy.sigAlg?, policy.sigUri? with
      | some (h, p), some uri =>
        if fresh.length = ks then
          .ok (w ++ [⟨key, h, p, concat cert nonce, fresh⟩], ⟨some uri, some fresh⟩)
        else .panic                                   -- `signature.copy_from_slice(&result)`
      | _, _ => .panic                                -- `panic!("Invalid policy")`
  | _, _ => .ok (w, ⟨Option.none, Option.none⟩)

/-- `verify_signature_data(signature, policy, signing_cert, contained_cert, contained_nonce)`.
`signingKey` = the public key of `signing_cert` (`none`: the certificate yields no key);
`cert` = `contained_cert.as_byte_string()` (DER). A null signature is the empty slice. -/
def verify (w : World) (sd : SigData) (policy : Policy) (signingKey : Option Nat)
    (cert nonce : Bytes) : Outcome Status :=
  match signingKey with
  | Option.none => .ok .badUnexpectedError
  | some k =>
    match policy.sigAlg? with
    | Option.none => .panic                           -- `panic!("Invalid policy")`
    | some (h, p) =>
      if idealVerify w k h p (concat cert nonce) (sd.signature.getD []) then .ok .good
      else .ok .badSecurityChecksFailed

/-- `user_identity::verify_x509_identity_token(token, signature, policy, server_cert, server_nonce)`:
the signing certificate is parsed out of the token (`tokenKey = none`: null or not DER →
BadCertificateInvalid), then `verify_signature_data`; Good becomes `Ok(())`, anything else `Err`. -/
def verifyX509Token (w : World) (sd : SigData) (policy : Policy) (tokenKey : Option Nat)
    (cert nonce : Bytes) : Outcome Status :=
  match tokenKey with
  | Option.none => .ok .badCertificateInvalid
  | some k => verify w sd policy (some k) cert nonce

end OpcuaVerif.C17
