/-
C35 — model of the client transport's request bookkeeping.

`lib/src/client/transport/core.rs`: `TransportState::{wait_for_outgoing_message, next_timeout,
process_chunk (via handle_incoming_message), merge_chunks, turn_received_chunks_into_message, close}`,
`lib/src/client/transport/state.rs`: `Request::send` (the oneshot: a dropped callback is reported to
the caller as `BadConnectionClosed`; a closed request channel likewise),
`lib/src/client/transport/buffer.rs`: `SendBuffer::next_request_id`.

Time: a deadline is an integer number of seconds relative to "now" (which does not advance within a
case); `deadline <= now` is `deadline ≤ 0`.  Requests are submitted with a timeout of a day (86400)
or of zero; the harness moves the deadline of a pending request explicitly.
A chunk's body is abstracted to the piece of a response message it carries: message `msg` was cut
into `total` pieces, this is piece `idx`.  Piece 0 holds the message's type id, response header
(with the marker `msg`) and the declared length of its payload; all later pieces have one fixed
size and start with a byte that is not a valid NodeId encoding.  Hence a concatenation of pieces
decodes iff it starts with a piece 0 and has at least the `total` pieces that piece announces (bytes
after the end of the message are ignored by `Chunker::decode`); the decoded message is then the
marker of that piece 0 together with the payload, i.e. the tags of the first `total` pieces.
-/
namespace OpcuaVerif.C35

def BadCommunicationError : Nat := 0x80050000
def BadEncodingLimitsExceeded : Nat := 0x80080000
def BadTimeout : Nat := 0x800A0000
def BadConnectionClosed : Nat := 0x80AE0000

/-- `MessageIsFinalType` -/
inductive Kind where
  | inter    -- Intermediate 'C'
  | final    -- Final 'F'
  | abort    -- FinalError 'A'
deriving Repr, DecidableEq

structure Chunk where
  rid : Nat
  seq : Nat
  kind : Kind
  msg : Nat
  idx : Nat
  total : Nat
deriving Repr, DecidableEq

/-- what a request's caller gets from `Request::send` -/
inductive Res where
  | response (msg : Nat) (payload : List (Nat × Nat))
  | err (status : Nat)
  /-- `send_no_response` returned `Ok(())`: the message is in the request channel -/
  | queuedNoResponse
deriving Repr, DecidableEq

/-- an entry of `message_states` -/
structure Pend where
  rid : Nat
  req : Nat
  chunks : List Chunk     -- arrival order
  deadline : Int          -- seconds from now; `deadline <= now` is `deadline ≤ 0`
deriving Repr, DecidableEq

def Pend.expired (p : Pend) : Bool := decide (p.deadline ≤ 0)

/-- an `OutgoingMessage` waiting in the request channel -/
structure Queued where
  /-- the waiting caller (`callback: Some(_)`); `none` for `Request::send_no_response` -/
  req : Option Nat
  late : Bool             -- its deadline is already reached when it is taken from the channel
deriving Repr, DecidableEq

structure State where
  queue : List Queued
  pending : List Pend
  lastRid : Nat
  lastSeq : Nat
  maxInflight : Nat
  maxPending : Nat
  closed : Bool
  nextReq : Nat
deriving Repr, DecidableEq

def init (maxInflight maxPending : Nat) : State :=
  { queue := [], pending := [], lastRid := 1000, lastSeq := 0, maxInflight := maxInflight,
    maxPending := maxPending, closed := false, nextReq := 0 }

abbrev Done := List (Nat × Res)

def findRid : List Pend → Nat → Option Pend
  | [], _ => none
  | p :: ps, rid => if p.rid == rid then some p else findRid ps rid

def removeRid : List Pend → Nat → List Pend
  | [], _ => []
  | p :: ps, rid => if p.rid == rid then ps else p :: removeRid ps rid

def replaceRid : List Pend → Pend → List Pend
  | [], _ => []
  | p :: ps, q => if p.rid == q.rid then q :: ps else p :: replaceRid ps q

/-- `next_timeout`: every pending request whose deadline has passed completes with BadTimeout -/
def sweep (s : State) : State × Done :=
  ({ s with pending := s.pending.filter (fun p => !p.expired) },
   (s.pending.filter (fun p => p.expired)).map (fun p => (p.req, Res.err BadTimeout)))

/-- `Request::send` : hand the request to the channel (fails at once when the channel is closed) -/
def submit (s : State) (late : Bool) : State × Done :=
  if s.closed then ({ s with nextReq := s.nextReq + 1 }, [(s.nextReq, .err BadConnectionClosed)])
  else ({ s with queue := s.queue ++ [⟨some s.nextReq, late⟩], nextReq := s.nextReq + 1 }, [])

/-- `Request::send_no_response`: the caller is done as soon as the message is queued -/
def submitNoResponse (s : State) (late : Bool) : State × Done :=
  if s.closed then ({ s with nextReq := s.nextReq + 1 }, [(s.nextReq, .err BadConnectionClosed)])
  else ({ s with queue := s.queue ++ [⟨none, late⟩], nextReq := s.nextReq + 1 }, [(s.nextReq, .queuedNoResponse)])

inductive PumpOut where
  | sent (rid : Nat)   -- `Some((request, request_id))`
  | none               -- `None`: the request channel is closed and empty
  | idle               -- still waiting (nothing queued)
  | full               -- still waiting (max_inflight reached)
deriving Repr, DecidableEq

/-- one poll of `wait_for_outgoing_message` -/
def pump (s : State) : State × Done × PumpOut :=
  let (s1, d) := sweep s
  if s1.maxInflight > s1.pending.length then
    match s1.queue with
    | q :: rest =>
      let rid := s1.lastRid + 1
      -- a message state is registered only when there is a callback
      let reg : List Pend := match q.req with
        | some r => [⟨rid, r, [], if q.late then 0 else 86400⟩]
        | none => []
      ({ s1 with queue := rest, lastRid := rid, pending := s1.pending ++ reg }, d, .sent rid)
    | [] => (s1, d, if s1.closed then .none else .idle)
  else (s1, d, .full)

/-- stable insertion sort by sequence number (`chunks.sort_by(seq)`, a stable sort: `c` came before
everything in the list it is inserted into, so it stays in front of equal numbers) -/
def insertBySeq (c : Chunk) : List Chunk → List Chunk
  | [] => [c]
  | d :: ds => if c.seq ≤ d.seq then c :: d :: ds else d :: insertBySeq c ds

def sortBySeq : List Chunk → List Chunk
  | [] => []
  | c :: cs => insertBySeq c (sortBySeq cs)

/-- the `for c in chunks` loop of `merge_chunks`: keep the chunks whose numbers follow on -/
def keepConsecutive : Nat → List Chunk → List Chunk
  | _, [] => []
  | e, c :: cs => if c.seq = e then c :: keepConsecutive (e + 1) cs else keepConsecutive e cs

/-- `merge_chunks` -/
def mergeChunks (cs : List Chunk) : List Chunk :=
  match cs with
  | [c] => [c]
  | _ =>
    let sorted := sortBySeq cs
    match sorted with
    | [] => []
    | c :: _ => keepConsecutive c.seq sorted

/-- `Chunker::decode`: the last chunk must be Final and the others Intermediate … -/
def kindsOk : List Chunk → Bool
  | [] => false
  | [c] => c.kind == .final
  | c :: cs => c.kind == .inter && kindsOk cs

/-- … and the concatenated bodies must start with a whole message (see the header comment) -/
def decodeMerged (m : List Chunk) : Option (Nat × List (Nat × Nat)) :=
  match m with
  | [] => none
  | c :: _ =>
    if kindsOk m && c.idx == 0 && decide (c.total ≤ m.length) then
      some (c.msg, (m.take c.total).map (fun x => (x.msg, x.idx)))
    else none

inductive ChunkOut where
  | ok
  | err     -- `process_chunk` returned `Err(_)` (the transport will be closed with that status)
deriving Repr, DecidableEq

/-- `process_chunk` (security None: `verify_and_remove_security` and `chunk_info` succeed) -/
def chunk (s : State) (c : Chunk) : State × Done × ChunkOut :=
  match findRid s.pending c.rid with
  | none => (s, [], .ok)
  | some p =>
    match c.kind with
    | .inter =>
      let cs := p.chunks ++ [c]
      if s.maxPending > 0 ∧ cs.length > s.maxPending then
        ({ s with pending := removeRid s.pending c.rid }, [(p.req, .err BadEncodingLimitsExceeded)], .ok)
      else
        ({ s with pending := replaceRid s.pending { p with chunks := cs } }, [], .ok)
    | .abort =>
      ({ s with pending := removeRid s.pending c.rid }, [(p.req, .err BadCommunicationError)], .ok)
    | .final =>
      let s1 := { s with pending := removeRid s.pending c.rid }
      let merged := mergeChunks (p.chunks ++ [c])
      match merged with
      | [] => (s1, [(p.req, .err BadConnectionClosed)], .err)   -- not reachable: `chunks[0]` would panic
      | f :: _ =>
        -- `validate_chunks(last + 1, ..)` : the first number must not be below the expected one
        if f.seq < s.lastSeq + 1 then (s1, [(p.req, .err BadConnectionClosed)], .err)
        else
          let s2 := { s1 with lastSeq := f.seq + merged.length - 1 }
          match decodeMerged merged with
          | some (m, pl) => (s2, [(p.req, .response m pl)], .ok)
          -- the callback is dropped: `Request::send` reports BadConnectionClosed
          | none => (s2, [(p.req, .err BadConnectionClosed)], .err)

/-- `close(status)`: a good status is reported to the requests as BadConnectionClosed -/
def close (s : State) (status : Nat) : State × Done :=
  let st := if status / 0x40000000 = 0 then BadConnectionClosed else status
  ({ s with pending := [], queue := [], closed := true },
   s.pending.map (fun p => (p.req, Res.err st)) ++
     s.queue.filterMap (fun q => q.req.map (fun r => (r, Res.err st))))

/-- the deadline of a pending request is moved (time passing, seen from that request) -/
def setDeadline (s : State) (rid : Nat) (d : Int) : State × Bool :=
  match findRid s.pending rid with
  | none => (s, false)
  | some p => ({ s with pending := replaceRid s.pending { p with deadline := d } }, true)

/-- the value `next_timeout` returns: the earliest deadline that has not passed -/
def minDeadline : List Pend → Option Int
  | [] => none
  | p :: ps =>
    match minDeadline ps with
    | none => some p.deadline
    | some m => some (if p.deadline < m then p.deadline else m)

def nextTimeout (s : State) : Option Int := minDeadline (s.pending.filter (fun p => !p.expired))

/-- the clock advances by `dt` seconds: every stored deadline comes `dt` closer -/
def advance (s : State) (dt : Int) : State :=
  { s with pending := s.pending.map (fun p => { p with deadline := p.deadline - dt }) }

/-- One turn of the timeout half of `wait_for_outgoing_message` when nothing else happens:
`next_timeout()` (sweep + earliest remaining deadline `t`), `sleep_until(t)` — the clock is then
exactly at `t` —, `continue`, `next_timeout()` again.  Returns the instant the transport asked to
be woken at (relative to the clock before the op), if any. -/
def wake (s : State) : State × Done × Option Int :=
  let (s1, d1) := sweep s
  match nextTimeout s1 with
  | none => (s1, d1, none)
  | some t =>
    let (s2, d2) := sweep (advance s1 t)
    (s2, d1 ++ d2, some t)

inductive Op where
  | submit (late : Bool)
  | pump
  | sweep
  | setDeadline (rid : Nat) (d : Int)
  | submitNoResponse (late : Bool)
  | wake
  | chunk (c : Chunk)
  | close (status : Nat)
  /-- a TCP-level Error / unexpected Acknowledge message: `handle_incoming_message` returns `Err` -/
  | errmsg
deriving Repr, DecidableEq

/-- state and the completions the op caused -/
def step (s : State) : Op → State × Done
  | .submit late => submit s late
  | .pump => let (s', d, _) := pump s; (s', d)
  | .sweep => sweep s
  | .setDeadline rid d => ((setDeadline s rid d).1, [])
  | .submitNoResponse late => submitNoResponse s late
  | .wake => let (s', d, _) := wake s; (s', d)
  | .chunk c => let (s', d, _) := chunk s c; (s', d)
  | .close st => close s st
  | .errmsg => (s, [])

end OpcuaVerif.C35
