/-
C18 — certificate trust verdicts (`lib/src/crypto/certificate_store.rs`:
`validate_application_instance_cert` (l. 286-431), `validate_or_reject_application_instance_cert`
(l. 208-236), `ensure_cert_and_file_are_the_same`; `SecurityPolicy::is_valid_keylength` /
`min_max_asymmetric_keylength` (security_policy.rs:363-381); the status codes of
`X509::is_time_valid` / `is_hostname_valid` / `is_application_uri_valid` (x509.rs)).

The function is a decision procedure over the store's configuration, the state of the two
directories and a few facts about the certificate.  All of them are finite, so the model is a finite
table; the facts (`TimeV`, `HostV`, `UriV`, key length) are produced from REAL certificates on the
implementation side.
-/
namespace OpcuaVerif.C18

/-- what is under the certificate's file name in `trusted/` -/
inductive TrustedFile where
  | absent        -- no such file
  | same          -- the same DER bytes
  | different     -- another certificate under this name (renamed file)
  | garbage       -- a file that does not parse as a certificate
deriving Repr, DecidableEq

/-- `security_policy.is_valid_keylength(cert.key_length())` -/
inductive KeyCheck where
  | valid | invalid
  | panics        -- `min_max_asymmetric_keylength` on `None`/`Unknown`: `panic!("Invalid policy")`
deriving Repr, DecidableEq

inductive TimeV where
  | valid | notYet | expired
deriving Repr, DecidableEq

/-- expected host name: not given, matches a DNS/IP alt name, does not match (or is empty) -/
inductive HostV where
  | notGiven | ok | mismatch
deriving Repr, DecidableEq

inductive UriV where
  | notGiven | ok | mismatch
deriving Repr, DecidableEq

inductive Status where
  | good | badUnexpectedError | badSecurityChecksFailed | badCertificateUntrusted
  | badCertificateTimeInvalid | badCertificateHostNameInvalid | badCertificateUriInvalid
deriving Repr, DecidableEq

structure Row where
  trustUnknown : Bool     -- `trust_unknown_certs`
  skipVerify : Bool       -- `skip_verify_certs`
  checkTime : Bool        -- `check_time`
  rejDir : Bool           -- `rejected/` exists
  inRej : Bool            -- a file with the certificate's name exists in `rejected/`
  trDir : Bool            -- `trusted/` exists
  trusted : TrustedFile
  key : KeyCheck
  time : TimeV
  host : HostV
  uri : UriV
deriving Repr, DecidableEq

/-- result: status (`none` = panic) and what was written -/
structure Res where
  status : Option Status
  storedRejected : Bool
  storedTrusted : Bool
deriving Repr, DecidableEq

def Res.ret (s : Status) (sr st : Bool) : Res := ⟨some s, sr, st⟩

/-- `validate_application_instance_cert` -/
def validate (r : Row) : Res :=
  if !r.rejDir then .ret .badUnexpectedError false false
  else if r.inRej then .ret .badSecurityChecksFailed false false
  else if !r.trDir then .ret .badUnexpectedError false false
  else
    -- not in trusted: store it there (trust_unknown_certs) or reject it
    if r.trusted = .absent ∧ !r.trustUnknown then .ret .badCertificateUntrusted true false
    else
      let st := decide (r.trusted = .absent)          -- `store_trusted_cert`
      -- `ensure_cert_and_file_are_the_same` (a freshly stored copy is the same)
      if r.trusted = .different ∨ r.trusted = .garbage then .ret .badUnexpectedError false st
      else
        match r.key with
        | .panics => ⟨none, false, st⟩
        | .invalid => .ret .badSecurityChecksFailed false st
        | .valid =>
          if r.skipVerify then .ret .good false st
          else if r.checkTime ∧ r.time ≠ .valid then .ret .badCertificateTimeInvalid false st
          else if r.host = .mismatch then .ret .badCertificateHostNameInvalid false st
          else if r.uri = .mismatch then .ret .badCertificateUriInvalid false st
          else .ret .good false st

/-- `validate_or_reject_application_instance_cert`: a bad result other than
BadUnexpectedError / BadSecurityChecksFailed also stores the certificate in `rejected/` -/
def validateOrReject (r : Row) : Res :=
  let v := validate r
  match v.status with
  | none => v
  | some .good | some .badUnexpectedError | some .badSecurityChecksFailed => v
  | some _ => { v with storedRejected := true }

/-! ### the flag setters and a long-lived store

`CertificateStore::new` starts with `check_time = true`, `skip_verify_certs = false`,
`trust_unknown_certs = false` (certificate_store.rs:57-66); `set_skip_verify_certs`,
`set_trust_unknown_certs`, `set_check_time` (l. 113-123) each assign exactly one field. -/

structure Flags where
  trustUnknown : Bool
  skipVerify : Bool
  checkTime : Bool
deriving Repr, DecidableEq

/-- `CertificateStore::new` -/
def Flags.new : Flags := ⟨false, false, true⟩

def Flags.setSkip (f : Flags) (b : Bool) : Flags := { f with skipVerify := b }
def Flags.setTrust (f : Flags) (b : Bool) : Flags := { f with trustUnknown := b }
def Flags.setTime (f : Flags) (b : Bool) : Flags := { f with checkTime := b }

/-- what a store keeps between calls, as far as one certificate is concerned -/
structure Live where
  flags : Flags
  rejDir : Bool
  inRej : Bool
  trDir : Bool
  trusted : TrustedFile
deriving Repr, DecidableEq

/-- one `validate_or_reject_application_instance_cert` on a live store: the verdict and the store
afterwards (files written stay) -/
def Live.check (l : Live) (key : KeyCheck) (time : TimeV) (host : HostV) (uri : UriV) : Res × Live :=
  let row : Row := ⟨l.flags.trustUnknown, l.flags.skipVerify, l.flags.checkTime, l.rejDir, l.inRej, l.trDir,
                    l.trusted, key, time, host, uri⟩
  let r := validateOrReject row
  (r, { l with inRej := l.inRej || r.storedRejected,
               trusted := if r.storedTrusted then .same else l.trusted })

/-! ### the concrete key-length check -/

inductive Policy where
  | none | basic128Rsa15 | basic256 | basic256Sha256 | aes128Sha256RsaOaep | aes256Sha256RsaPss | unknown
deriving Repr, DecidableEq

/-- `min_max_asymmetric_keylength` (bits, inclusive); `none` = panic -/
def Policy.minMax? : Policy → Option (Nat × Nat)
  | .basic128Rsa15 | .basic256 => some (1024, 2048)
  | .basic256Sha256 | .aes128Sha256RsaOaep | .aes256Sha256RsaPss => some (2048, 4096)
  | .none | .unknown => Option.none

def keyCheck (p : Policy) (bits : Nat) : KeyCheck :=
  match p.minMax? with
  | Option.none => .panics
  | some (lo, hi) => if lo ≤ bits ∧ bits ≤ hi then .valid else .invalid

end OpcuaVerif.C18
