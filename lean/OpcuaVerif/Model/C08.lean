import OpcuaVerif.Model.C09

/-!
C08 — the model is the receive path of `OpcuaVerif.Model.C09` (`recvWith`, `Fixes.opnPolicy` is the
C08 repair); this file only fixes the names the C08 slice uses.
-/
namespace OpcuaVerif.C08

abbrev recv := OpcuaVerif.C09.recv

end OpcuaVerif.C08
