import OpcuaVerif.Model.C22

/-
C26 — model of the time arithmetic of subscription processing
(`lib/src/server/subscriptions/subscriptions.rs`: `expire_stale_publish_requests`;
`lib/src/server/subscriptions/subscription.rs`: `test_and_set_publishing_interval_elapsed` and the
part of `tick` that calls it; `lib/src/server/subscriptions/monitored_item.rs`: the sampling
interval test of `tick`; `lib/src/server/comms/tcp_transport.rs`: the order expire → tick → take
responses of the subscription timer task).

Times are integers: microseconds relative to an origin chosen by the harness (the real code works
in nanoseconds; the harness only uses whole microseconds on a 100 ns aligned origin).
`chrono::Duration::to_std` fails exactly for negative durations; `fixed = false` models the pinned
`.to_std().unwrap()` (panic = `none`), `true` the repaired code.  What a subscription does with
"interval elapsed" is the C22 machine.
-/
namespace OpcuaVerif.C26

open OpcuaVerif.C22 (Sess Resp Msg)

/-- `test_and_set_publishing_interval_elapsed`: (elapsed?, new last_time) -/
def elapsedCheck (fixed : Bool) (last now : Int) (interval : Nat) : Option (Bool × Int) :=
  if now < last then (if fixed then some (false, now) else none)
  else if now - last ≥ interval then some (true, now)
  else some (false, last)

/-- the sampling-interval test of `MonitoredItem::tick` for a Reporting item; `samp` in µs, negative
= "use the publishing interval" (−1), 0 = every tick.  Result: (check the value?, last_sample_time
before `check_value`, which then sets it to `now`) -/
def itemCheck (fixed : Bool) (samp : Int) (last now : Int) (pubElapsed : Bool) : Option (Bool × Int) :=
  if samp < 0 then some (pubElapsed, last)
  else if samp = 0 then some (true, last)
  else if now < last then (if fixed then some (false, now) else none)
  else some (decide (now - last ≥ samp), last)

/-- `MonitoredItem::tick` (Reporting, value already sampled once so its queue is not empty):
result code (2 = ReportValueChanged, 0 = NoChange) and the new `last_sample_time` -/
def itemTick (fixed : Bool) (samp last now : Int) (pubElapsed : Bool) : Option (Nat × Int) :=
  (itemCheck fixed samp last now pubElapsed).map fun (c, l) => if c then (2, now) else (0, l)

/-- a queued publish request: id, header timestamp (µs), timeout hint (ms) -/
structure Req where
  rid : Nat
  ts : Int
  hint : Nat
deriving Repr, DecidableEq

/-- the timeout that applies to a request, in ms (`publish_request_timeout as u64` for the default) -/
def effTimeout (timeout : Int) (hint : Nat) : Nat :=
  if hint > 0 ∧ (hint : Int) < timeout then hint
  else if timeout ≥ 0 then timeout.toNat else (2 ^ 64 - (-timeout).toNat)

/-- has this request timed out at `now`?  `none` = panic (pinned source, timestamp ahead of `now`) -/
def isExpired (fixed : Bool) (timeout : Int) (now : Int) (r : Req) : Option Bool :=
  if now < r.ts then (if fixed then some false else none)
  else some (decide (now - r.ts > (effTimeout timeout r.hint : Int) * 1000))

/-- `expire_stale_publish_requests` over the queue (oldest first): (kept, timed out — in the order
the BadTimeout faults are queued, oldest first) -/
def expire (fixed : Bool) (timeout : Int) (now : Int) : List Req → Option (List Req × List Req)
  | [] => some ([], [])
  | r :: rs =>
    match isExpired fixed timeout now r, expire fixed timeout now rs with
    | some b, some (kept, out) => if b then some (kept, r :: out) else some (r :: kept, out)
    | _, _ => none

structure St where
  z : Sess                 -- the subscription (C22 machine) and the queued request ids
  hdrs : List Req          -- header data of every request accepted so far
  last : Int               -- last_time_publishing_interval_elapsed
  interval : Nat           -- publishing interval, µs (> 0)
  timeout : Int            -- publish_request_timeout, ms
deriving Repr, DecidableEq

def lookup (hdrs : List Req) (rid : Nat) : Req :=
  match hdrs.find? (fun r => r.rid == rid) with
  | some r => r
  | none => { rid := rid, ts := 0, hint := 0 }

/-- responses of one op: BadTimeout faults (request ids), then publish responses -/
structure Out where
  timedOut : List Nat
  resps : List Resp
deriving Repr, DecidableEq

/-- `Subscriptions::tick(now, TickTimerFired)`: the time test, then the C22 machine -/
def timerTick (fixed : Bool) (s : St) (now : Int) : Option (St × List Resp) :=
  match s.z.sub with
  | none => some (s, [])
  | some sub =>
    let e : Option (Bool × Int) :=
      if sub.state = .creating then some (true, s.last) else elapsedCheck fixed s.last now s.interval
    match e with
    | none => none
    | some (el, last') =>
      match C22.sessTick s.z true el with
      | none => none
      | some (z', out) => some ({ s with z := z', last := last' }, out)

def expireStep (fixed : Bool) (s : St) (now : Int) : Option (St × List Nat) :=
  match expire fixed s.timeout now (s.z.reqs.map (lookup s.hdrs)) with
  | none => none
  | some (kept, out) => some ({ s with z := { s.z with reqs := kept.map (·.rid) } }, out.map (·.rid))

/-- one round of the subscription timer task: expire stale requests, tick, take the responses -/
def cycle (fixed : Bool) (s : St) (now : Int) : Option (St × Out) :=
  match expireStep fixed s now with
  | none => none
  | some (s1, to) =>
    match timerTick fixed s1 now with
    | none => none
    | some (s2, out) => some (s2, { timedOut := to, resps := out })

/-- ModifySubscription that changes the publishing INTERVAL (`set_publishing_interval`; the service
also re-applies the counts and resets both counters): from now on "interval elapsed" is computed
from the new interval; `last_time_publishing_interval_elapsed` is not touched -/
def setInterval (s : St) (intervalUs : Nat) : St :=
  { s with interval := intervalUs,
           z := { s.z with sub := s.z.sub.map fun x => C22.modifySub x x.maxKa x.maxLife } }

inductive PubOut where
  | ok (s : St) (out : List Resp)
  | tooMany (s : St) (out : List Resp)
  | panic
deriving Repr, DecidableEq

/-- a publish request arrives (`enqueue_publish_request`; its ticks do not look at the time) -/
def publish (s : St) (r : Req) : PubOut :=
  match C22.publish s.z r.rid with
  | .ok z' out => .ok { s with z := z', hdrs := s.hdrs ++ [r] } out
  | .tooMany z' out => .tooMany { s with z := z' } out
  | .panic => .panic

end OpcuaVerif.C26
