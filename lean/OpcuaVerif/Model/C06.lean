/-
C06 — model of `Variant::convert` (implicit conversion) and `Variant::cast` (explicit cast) for
the numeric built-in types (`lib/src/types/variant.rs`: `convert` l.1052 ff., `cast` l.848 ff.,
macros `cast_to_bool!`, `cast_to_integer!` l.347-385).

Integers are unbounded `Int` with the fixed-width `as` semantics written out (`wrapTo` = reduction
mod 2^n into the target's range; float→int `as` = truncate and saturate, NaN → 0).  Floats are
modelled EXACTLY: `Fl` = NaN | ±∞ | (−1)^neg · m · 2^e, built from and printed as the IEEE-754 bit
pattern; `roundFmt` is round-to-nearest-even to 24/53 significant bits with gradual underflow and
overflow to ∞ (the semantics of Rust's int→float and f64→f32 `as`, and of `+`).

The functions ending in `Old` model the code as it was BEFORE the `fix:` commits of this property;
they are used only for the counterexample theorems and by the driver ops `oldconvert`/`oldcast`,
never by the correspondence ops `convert`/`cast`.
-/
namespace OpcuaVerif.C06

/-! ### Numeric types -/

inductive NT where
  | boolean | sbyte | byte | int16 | uint16 | int32 | uint32 | int64 | uint64 | float | double
deriving Repr, DecidableEq, Inhabited

namespace NT

def isFloat : NT → Bool
  | float | double => true
  | _ => false

/-- integer-valued types (Boolean counts: `true` = 1, `false` = 0) -/
def isInt (t : NT) : Bool := !t.isFloat

def minV : NT → Int
  | sbyte => -128
  | int16 => -32768
  | int32 => -2147483648
  | int64 => -9223372036854775808
  | _ => 0

def maxV : NT → Int
  | boolean => 1
  | sbyte => 127
  | byte => 255
  | int16 => 32767
  | uint16 => 65535
  | int32 => 2147483647
  | uint32 => 4294967295
  | int64 => 9223372036854775807
  | uint64 => 18446744073709551615
  | float => 0
  | double => 0

/-- 2^n for the n-bit integer types -/
def modulus : NT → Int
  | boolean => 2
  | sbyte | byte => 256
  | int16 | uint16 => 65536
  | int32 | uint32 => 4294967296
  | int64 | uint64 => 18446744073709551616
  | float | double => 1

def all : List NT := [boolean, sbyte, byte, int16, uint16, int32, uint32, int64, uint64, float, double]

end NT

/-- `v` is a value of the integer type `t` -/
def inRange (t : NT) (v : Int) : Prop := t.minV ≤ v ∧ v ≤ t.maxV

instance (t : NT) (v : Int) : Decidable (inRange t v) := by unfold inRange; infer_instance

/-- integer `as`: reduce mod 2^n into the target's range (two's complement reinterpretation) -/
def wrapTo (t : NT) (v : Int) : Int :=
  let r := v % t.modulus
  if r > t.maxV then r - t.modulus else r

/-! ### Exact floats -/

structure Fmt where
  mbits : Nat
  ebits : Nat
deriving Repr, DecidableEq

def fmt32 : Fmt := ⟨23, 8⟩
def fmt64 : Fmt := ⟨52, 11⟩

namespace Fmt
def bias (f : Fmt) : Int := 2 ^ (f.ebits - 1) - 1
/-- exponent of the least significant mantissa bit of subnormals (−149 / −1074) -/
def qmin (f : Fmt) : Int := 1 - f.bias - f.mbits
/-- the all-ones exponent field -/
def emaxField (f : Fmt) : Nat := 2 ^ f.ebits - 1
end Fmt

inductive Fl where
  | nan
  | inf (neg : Bool)
  /-- (−1)^neg · m · 2^e  (m = 0: signed zero) -/
  | fin (neg : Bool) (m : Nat) (e : Int)
deriving Repr, DecidableEq, Inhabited

/-- decode an IEEE-754 bit pattern -/
def ofBits (f : Fmt) (b : Nat) : Fl :=
  let mant := b % 2 ^ f.mbits
  let ex := b / 2 ^ f.mbits % 2 ^ f.ebits
  let neg := decide (b / 2 ^ (f.mbits + f.ebits) % 2 = 1)
  if ex = f.emaxField then (if mant = 0 then .inf neg else .nan)
  else if ex = 0 then .fin neg mant f.qmin
  else .fin neg (2 ^ f.mbits + mant) (f.qmin + ex - 1)

/-- number of significant bits -/
def bitLen (m : Nat) : Nat := if m = 0 then 0 else Nat.log2 m + 1

/-- `m / 2^s` rounded to nearest, ties to even -/
def rneShift (m s : Nat) : Nat :=
  let q := m / 2 ^ s
  let r := m % 2 ^ s
  if 2 * r > 2 ^ s ∨ (2 * r = 2 ^ s ∧ q % 2 = 1) then q + 1 else q

/-- Round the exact value (−1)^neg · m · 2^e to the format: nearest, ties to even, gradual
underflow, overflow to ±∞.  The result is `fin neg m' q` with `m' ≤ 2^(mbits+1)`, `q ≥ qmin`. -/
def roundFmt (f : Fmt) (neg : Bool) (m : Nat) (e : Int) : Fl :=
  if m = 0 then .fin neg 0 f.qmin
  else
    let q : Int := max (e + bitLen m - (f.mbits + 1)) f.qmin
    let mant := if q ≤ e then m * 2 ^ (e - q).toNat else rneShift m (q - e).toNat
    -- value ≥ 2^(bias+1)  ⇔  overflow
    if q + bitLen mant > f.bias + 1 then .inf neg else .fin neg mant q

def roundFl (f : Fmt) : Fl → Fl
  | .fin neg m e => roundFmt f neg m e
  | x => x

/-- encode; exact for every value representable in the format, rounds otherwise.  NaN gives the
canonical quiet NaN (drivers print `nan` instead). -/
def toBits (f : Fmt) (x : Fl) : Nat :=
  let sign (neg : Bool) : Nat := if neg then 2 ^ (f.mbits + f.ebits) else 0
  match roundFl f x with
  | .nan => f.emaxField * 2 ^ f.mbits + 2 ^ (f.mbits - 1)
  | .inf neg => sign neg + f.emaxField * 2 ^ f.mbits
  | .fin neg m q => sign neg + ((q - f.qmin).toNat * 2 ^ f.mbits + m)

/-- int → float `as`: round to nearest even of the exact integer -/
def intToFl (f : Fmt) (v : Int) : Fl := roundFmt f (decide (v < 0)) v.natAbs 0

/-- truncation toward zero of a finite value, as an integer -/
def truncInt (neg : Bool) (m : Nat) (e : Int) : Int :=
  let a : Nat := if e ≥ 0 then m * 2 ^ e.toNat else m / 2 ^ (-e).toNat
  if neg then -(a : Int) else a

/-- float → integer `as` with an arbitrary target interval: truncate, saturate, NaN → 0 -/
def satCast (lo hi : Int) : Fl → Int
  | .nan => 0
  | .inf neg => if neg then lo else hi
  | .fin neg m e =>
    let t := truncInt neg m e
    if t < lo then lo else if t > hi then hi else t

/-- `f64::round` / `f32::round`: nearest integer, ties away from zero (the result is a float) -/
def flRound : Fl → Fl
  | .fin neg m e =>
    if e ≥ 0 then .fin neg m e
    else
      let k := (-e).toNat
      let ip := m / 2 ^ k
      let fr := m % 2 ^ k
      .fin neg (if 2 * fr ≥ 2 ^ k then ip + 1 else ip) 0
  | x => x

/-- `f64::trunc` -/
def flTrunc : Fl → Fl
  | .fin neg m e => if e ≥ 0 then .fin neg m e else .fin neg (m / 2 ^ (-e).toNat) 0
  | x => x

/-- `x < 0.0` -/
def flNeg : Fl → Bool
  | .nan => false
  | .inf neg => neg
  | .fin neg m _ => neg && m != 0

/-- `x >= 0.0` -/
def flNonneg : Fl → Bool
  | .nan => false
  | x => !flNeg x

/-- exact `x + 0.5`, then rounded to the format (IEEE addition) -/
def addHalf (f : Fmt) : Fl → Fl
  | .nan => .nan
  | .inf neg => .inf neg
  | .fin neg m e =>
    let c : Int := min e (-1)
    let a : Int := (if neg then -1 else 1) * ((m * 2 ^ (e - c).toNat : Nat) : Int)
    let s : Int := a + ((2 ^ (-1 - c).toNat : Nat) : Int)
    -- an exact zero sum is +0 in round-to-nearest
    roundFmt f (decide (s < 0)) s.natAbs c

/-! ### Values and the two conversion tables -/

inductive Val where
  | int (v : Int)
  | flt (x : Fl)
deriving Repr, DecidableEq, Inhabited

def fmtOf (t : NT) : Fmt := if t = .float then fmt32 else fmt64

/-- kinds of arms in `Variant::convert` -/
inductive CK where
  /-- no arm: `Variant::Empty` -/
  | none
  /-- `(v as T).into()` between integer types -/
  | wrap
  /-- `if v < 0 { Empty } else { (v as T).into() }` -/
  | guardNeg
  /-- `T::try_from(v).map(..).unwrap_or(Variant::Empty)` -/
  | checked
  /-- `(v as f32|f64).into()` from an integer type -/
  | toFloat
  /-- `(v as f64).into()` from `f32` -/
  | fwiden
deriving Repr, DecidableEq

open NT in
/-- The arms of `Variant::convert` for numeric sources and targets (source order of the file),
as they are after `fix: implicit unsigned→signed conversions of the same width …`. -/
def convertKind : NT → NT → CK
  | boolean, byte | boolean, int16 | boolean, int32 | boolean, int64 | boolean, sbyte
  | boolean, uint16 | boolean, uint32 | boolean, uint64 => .wrap
  | boolean, double | boolean, float => .toFloat
  | byte, double | byte, float => .toFloat
  | byte, int16 | byte, int32 | byte, int64 | byte, uint16 | byte, uint32 | byte, uint64 => .wrap
  | byte, sbyte => .checked
  | float, double => .fwiden
  | int16, double | int16, float => .toFloat
  | int16, int32 | int16, int64 => .wrap
  | int16, uint32 | int16, uint64 => .guardNeg
  | int32, double | int32, float => .toFloat
  | int32, int64 => .wrap
  | int32, uint64 => .guardNeg
  | int64, double | int64, float => .toFloat
  | sbyte, double | sbyte, float => .toFloat
  | sbyte, int16 | sbyte, int32 | sbyte, int64 => .wrap
  | sbyte, uint16 | sbyte, uint32 | sbyte, uint64 => .guardNeg
  | uint16, double | uint16, float => .toFloat
  | uint16, int16 => .checked
  | uint16, int32 | uint16, int64 | uint16, uint32 | uint16, uint64 => .wrap
  | uint32, double | uint32, float => .toFloat
  | uint32, int32 => .checked
  | uint32, int64 | uint32, uint64 => .wrap
  | uint64, double | uint64, float => .toFloat
  | uint64, int64 => .checked
  | _, _ => .none

open NT in
/-- the table before the fix: the four same-width unsigned→signed arms were plain `as` -/
def convertKindOld (s d : NT) : CK :=
  match s, d with
  | byte, sbyte | uint16, int16 | uint32, int32 | uint64, int64 => .wrap
  | _, _ => convertKind s d

/-- one arm of `convert` -/
def applyCK (k : CK) (d : NT) (v : Val) : Option Val :=
  match k, v with
  | .wrap, .int x => some (.int (wrapTo d x))
  | .guardNeg, .int x => if x < 0 then none else some (.int (wrapTo d x))
  | .checked, .int x => if inRange d x then some (.int x) else none
  | .toFloat, .int x => some (.flt (intToFl (fmtOf d) x))
  | .fwiden, .flt x => some (.flt x)
  | _, _ => none

/-- `Variant::convert` restricted to numeric types; `none` = `Variant::Empty` -/
def convertWith (tbl : NT → NT → CK) (s d : NT) (v : Val) : Option Val :=
  if s = d then some v else applyCK (tbl s d) d v

def convert := convertWith convertKind
def convertOld := convertWith convertKindOld

/-- kinds of arms in the explicit part of `Variant::cast` -/
inductive XK where
  | none
  /-- `cast_to_bool!(v)` / `cast_to_bool!(v as i64)` -/
  | toBool
  /-- `cast_to_integer!(v, S, T)` with an integer `v`, resp. with `vt = v.round()` -/
  | toInt
  /-- `(v as f32).into()` -/
  | narrow
deriving Repr, DecidableEq

open NT in
/-- The explicit arms of `Variant::cast` (numeric targets; the `Boolean` source arms repeat what
`convert` already did and are unreachable).  `uint64 → int32` exists since
`fix: explicit cast UInt64 → Int32 …`. -/
def castKind : NT → NT → XK
  | byte, boolean => .toBool
  | double, boolean => .toBool
  | double, float => .narrow
  | double, byte | double, int16 | double, int32 | double, int64 | double, sbyte
  | double, uint16 | double, uint32 | double, uint64 => .toInt
  | float, boolean => .toBool
  | float, byte | float, int16 | float, int32 | float, int64 | float, sbyte
  | float, uint16 | float, uint32 | float, uint64 => .toInt
  | int16, boolean => .toBool
  | int16, byte | int16, sbyte | int16, uint16 => .toInt
  | int32, boolean => .toBool
  | int32, byte | int32, int16 | int32, sbyte | int32, uint16 | int32, uint32 => .toInt
  | int64, boolean => .toBool
  | int64, byte | int64, int16 | int64, int32 | int64, sbyte | int64, uint16 | int64, uint32
  | int64, uint64 => .toInt
  | sbyte, boolean => .toBool
  | sbyte, byte => .toInt
  | uint16, boolean => .toBool
  | uint16, byte | uint16, sbyte => .toInt
  | uint32, boolean => .toBool
  | uint32, byte | uint32, int16 | uint32, sbyte | uint32, uint16 => .toInt
  | uint64, boolean => .toBool
  | uint64, byte | uint64, int16 | uint64, int32 | uint64, sbyte | uint64, uint16
  | uint64, uint32 => .toInt
  | _, _ => .none

open NT in
def castKindOld (s d : NT) : XK :=
  match s, d with
  | uint64, int32 => .none
  | _, _ => castKind s d

/-- `cast_to_bool!` -/
def castToBool (x : Int) : Option Val :=
  if x = 1 then some (.int 1) else if x = 0 then some (.int 0) else none

def i128Min : Int := -170141183460469231731687303715884105728
def i128Max : Int := 170141183460469231731687303715884105727
def u128Max : Int := 340282366920938463463374607431768211455

/-- `cast_to_integer!` on an integer value (all the `as i128`/`as u128` casts are exact here) -/
def castIntToInt (d : NT) (x : Int) : Option Val :=
  let valid := if x < 0 then d.minV ≠ 0 ∧ x ≥ d.minV else x ≥ 0 ∧ x ≤ d.maxV
  if valid then some (.int (wrapTo d x)) else none

/-- `cast_to_integer!(vt, f64|f32, T)` with `vt = v.round()` (current source):
```
let valid = if vt < 0.0 { T::MIN != 0 && vt as i128 >= T::MIN as i128 }
            else { vt >= 0.0 && vt as u128 <= T::MAX as u128 };
if !valid { Empty } else { (vt as T).into() }
``` -/
def castFloatToInt (d : NT) (v : Fl) : Option Val :=
  let vt := flRound v
  let valid :=
    if flNeg vt then d.minV ≠ 0 ∧ satCast i128Min i128Max vt ≥ d.minV
    else flNonneg vt ∧ satCast 0 u128Max vt ≤ d.maxV
  if valid then some (.int (satCast d.minV d.maxV vt)) else none

def i64Min : Int := -9223372036854775808
def i64Max : Int := 9223372036854775807
def u64Max : Int := 18446744073709551615

/-- the pipeline before the fixes: `vt = trunc(v + 0.5)`, range test through saturating
`as i64` / `as u64` -/
def castFloatToIntOld (f : Fmt) (d : NT) (v : Fl) : Option Val :=
  let vt := flTrunc (addHalf f v)
  let valid :=
    if flNeg vt then d.minV ≠ 0 ∧ satCast i64Min i64Max vt ≥ d.minV
    else satCast 0 u64Max vt ≤ d.maxV
  if valid then some (.int (satCast d.minV d.maxV vt)) else none

def explicitWith (old : Bool) (s d : NT) (v : Val) : Option Val :=
  match (if old then castKindOld s d else castKind s d), v with
  | .toBool, .int x => castToBool x
  | .toBool, .flt x => castToBool (satCast i64Min i64Max x)
  | .toInt, .int x => castIntToInt d x
  | .toInt, .flt x => if old then castFloatToIntOld (fmtOf s) d x else castFloatToInt d x
  | .narrow, .flt x => some (.flt (roundFl fmt32 x))
  | _, _ => none

/-- `Variant::cast`: the implicit conversion first, the explicit table when that gave `Empty` -/
def castWith (old : Bool) (s d : NT) (v : Val) : Option Val :=
  match (if old then convertOld s d v else convert s d v) with
  | some r => some r
  | none => explicitWith old s d v

def cast := castWith false
def castOld := castWith true

/-- well-typed inputs: an integer in the source type's range, or a float for a float type -/
def wellTyped (s : NT) : Val → Bool
  | .int x => s.isInt && decide (inRange s x)
  | .flt _ => s.isFloat

end OpcuaVerif.C06
