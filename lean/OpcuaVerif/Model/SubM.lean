import OpcuaVerif.Model.C24

/-
SubM — model of the subscription pipeline of one session (shared by C40 and C21):

* `MonitoredItem::tick / check_value / check_for_data_change` without filter
  (`lib/src/server/subscriptions/monitored_item.rs`), queue = the C24 model;
* `Subscription::tick / update_state / handle_state_result / tick_monitored_items /
  enqueue_notification / take_notification`, create / delete monitored items
  (`lib/src/server/subscriptions/subscription.rs`);
* `Subscriptions::enqueue_publish_request / tick / process_subscription_acknowledgements /
  find_notification_message / available_sequence_numbers / remove_old_unacknowledged_notifications /
  take_publish_responses` (`lib/src/server/subscriptions/subscriptions.rs`);
* the service glue `async_publish`, `republish`, `create_subscription` (parameters already within the
  server limits), `delete_subscriptions`, `set_publishing_mode` (`lib/src/server/services/subscription.rs`).

Time is a natural number of units (the harness uses 100 ms); `none` as a stored time means "the wall
clock when the object was created", which the harness keeps earlier than every synthetic time.
Values are natural numbers (the harness writes `Int64`).  Sequence numbers are unbounded (the `u32`
wrap after 2^32 - 1 messages is not modelled).  Panics of the modelled code are `Outcome.panic`.
-/
namespace OpcuaVerif.SubM

/-- Variants of the source the model can follow.  `SubMDrv.current` (all flags on) is the integrated
repository.  `keepOnNone = false` reproduces the source before the C21 fix; `fix15`,
`expiredDiscards`, `prioDesc` are the fixes of the C22/C26/C27 slice (state #15, expired-with-notification,
priority order), `false` = the source before them (counterexample theorems only). -/
structure Cfg where
  keepOnNone : Bool        -- handle_state_result(None): keep the collected notification (publishing enabled)
  fix15 : Bool             -- state #15 tests `!notifications_available` and resets the lifetime counter
  expiredDiscards : Bool   -- SubscriptionExpired with a collected notification discards it instead of panicking
  prioDesc : Bool          -- Subscriptions::tick serves higher priority first
deriving Repr, DecidableEq

inductive Mode where
  | disabled | sampling | reporting
deriving Repr, DecidableEq

structure MItem where
  id : Nat
  handle : Nat                 -- client handle
  node : Nat
  mode : Mode
  sampling : Option Nat        -- none = -1 (use the publishing interval); some k = k time units (k ≥ 1)
  lastSample : Option Nat      -- last_sample_time
  q : C24.Item                 -- notification queue (value, overflow bit)
  last : Option Nat            -- last_data_value (its value)
  triggers : List Nat          -- triggered_items (BTreeSet: ascending, unique)
deriving Repr, DecidableEq

/-- one entry of a data change notification: client handle, value, overflow bit -/
structure Entry where
  handle : Nat
  value : Nat
  overflow : Bool
deriving Repr, DecidableEq

inductive Body where
  | keepAlive
  | status (code : Nat)              -- StatusChangeNotification; 1 = BadTimeout
  | data (es : List Entry)
deriving Repr, DecidableEq

structure Msg where
  seq : Nat
  time : Nat                         -- publish_time
  body : Body
deriving Repr, DecidableEq

inductive SState where
  | closed | creating | normal | late | keepAlive
deriving Repr, DecidableEq

structure Subn where
  id : Nat
  priority : Nat
  interval : Nat
  maxLife : Nat
  maxKa : Nat
  state : SState
  life : Nat
  ka : Nat
  firstSent : Bool
  enabled : Bool
  resend : Bool                      -- resend_data (set by the ResendData method, cleared by every tick)
  seqNext : Nat                      -- sequence_number (Handle.next)
  lastSeq : Nat                      -- last_sequence_number
  nextItemId : Nat
  lastElapsed : Option Nat           -- last_time_publishing_interval_elapsed
  notifs : List Msg                  -- notifications (oldest first)
  items : List MItem                 -- monitored_items, ascending id
deriving Repr, DecidableEq

inductive AckRes where
  | good | seqUnknown | subInvalid
deriving Repr, DecidableEq

structure Req where
  id : Nat
  results : Option (List AckRes)
deriving Repr, DecidableEq

/-- a queued publish response -/
structure Resp where
  reqId : Nat
  subId : Nat
  avail : Option (List Nat)
  more : Bool
  msg : Msg
  results : Option (List AckRes)
deriving Repr, DecidableEq

structure Sess where
  reqs : List Req                          -- publish_request_queue, oldest first
  resps : List Resp                        -- publish_response_queue, oldest first
  subs : List Subn                         -- subscriptions, ascending id
  retrans : List ((Nat × Nat) × Msg)       -- retransmission_queue, ascending key
  nodes : List (Nat × Nat)                 -- address space: node ↦ value
  now : Nat
  nextSubId : Nat
deriving Repr, DecidableEq

inductive Outcome (α : Type) where
  | ok (a : α)
  | panic
deriving Repr, DecidableEq

/-! ### monitored item -/

def lookup (nodes : List (Nat × Nat)) (n : Nat) : Option Nat :=
  match nodes.find? (fun p => p.1 = n) with
  | some p => some p.2
  | none => none

/-- A queued notification carries the client handle the item had when the value was sampled (a later
ModifyMonitoredItems does not rewrite queued notifications).  The C24 queue holds one number per
sample, so the pair is packed as `value * 2^32 + handle` (client handles are `u32`). -/
def handleBase : Nat := 2 ^ 32

/-- `check_value` (no filter): (item, changed) -/
def checkValue (nodes : List (Nat × Nat)) (now : Nat) (resend : Bool) (it : MItem) : MItem × Bool :=
  match lookup nodes it.node with
  | none => ({ it with lastSample := some now }, false)
  | some v =>
    let change := resend || (match it.last with | none => true | some l => decide (v ≠ l))
    if change then
      ({ it with lastSample := some now, last := some v, q := C24.enqueue it.q (v * handleBase + it.handle) }, true)
    else ({ it with lastSample := some now }, false)

inductive TickResult where
  | noChange | valueChanged | report
deriving Repr, DecidableEq

/-- `MonitoredItem::tick` -/
def itemTick (nodes : List (Nat × Nat)) (now : Nat) (elapsed resend : Bool) (it : MItem) : MItem × TickResult :=
  if it.mode = .disabled then (it, .noChange) else
  let check : Bool :=
    if resend then true
    else match it.sampling with
      | none => elapsed
      | some k => match it.lastSample with
        | none => true
        | some t => decide (now - t ≥ k)
  if check then
    let first := it.last.isNone
    let (it', ch) := checkValue nodes now resend it
    if first || ch || !it'.q.queue.isEmpty then
      (it', if it.mode = .reporting then .report else .valueChanged)
    else (it', .noChange)
  else (it, .noChange)

def entriesOf (_currentHandle : Nat) (q : List (Nat × Bool)) : List Entry :=
  q.map fun p => { handle := p.1 % handleBase, value := p.1 / handleBase, overflow := p.2 }

/-- the loop of `tick_monitored_items` (no triggering links): items in id order -/
def tickItems (nodes : List (Nat × Nat)) (now : Nat) (elapsed resend : Bool) :
    List MItem → List MItem × List Entry
  | [] => ([], [])
  | it :: rest =>
    let (it1, r) := itemTick nodes now elapsed resend it
    let (it2, es) :=
      if r = .report ∧ elapsed then
        match C24.drain it1.q with
        | (q', some d) => ({ it1 with q := q' }, entriesOf it1.handle d)
        | (q', none) => ({ it1 with q := q' }, [])
      else (it1, [])
    let (rest', es') := tickItems nodes now elapsed resend rest
    (it2 :: rest', es ++ es')

/-- insert into an ascending duplicate-free list (`BTreeSet::insert`) -/
def insertAsc (x : Nat) : List Nat → List Nat
  | [] => [x]
  | y :: ys => if x < y then x :: y :: ys else if x = y then y :: ys else y :: insertAsc x ys

/-- the set of item ids triggered in this tick: the links of every item that reported (Reporting) or
whose value changed (Sampling), only when the publishing interval elapsed -/
def triggeredBy (nodes : List (Nat × Nat)) (now : Nat) (elapsed resend : Bool) (items : List MItem) : List Nat :=
  items.foldl (fun acc it =>
    let r := (itemTick nodes now elapsed resend it).2
    if elapsed ∧ (r = .report ∨ r = .valueChanged) then it.triggers.foldl (fun a i => insertAsc i a) acc
    else acc) []

/-- "Are there any triggered items to force a change on?": a triggered item in Sampling mode is
checked with the resend flag and hands over its whole queue; other modes and missing items are skipped -/
def triggerItems (nodes : List (Nat × Nat)) (now : Nat) : List Nat → List MItem → List MItem × List Entry
  | [], items => (items, [])
  | i :: ids, items =>
    match items.find? (fun it => it.id = i) with
    | some it =>
      if it.mode = .sampling then
        let it1 := (checkValue nodes now true it).1
        let (it2, es) : MItem × List Entry :=
          match C24.drain it1.q with
          | (q', some d) => ({ it1 with q := q' }, entriesOf it1.handle d)
          | (q', none) => ({ it1 with q := q' }, [])
        let (items', es') := triggerItems nodes now ids (items.map fun t => if t.id = i then it2 else t)
        (items', es ++ es')
      else triggerItems nodes now ids items
    | none => triggerItems nodes now ids items

/-- `tick_monitored_items`: the loop, then the triggered items -/
def tickAll (nodes : List (Nat × Nat)) (now : Nat) (elapsed resend : Bool) (items : List MItem) :
    List MItem × List Entry :=
  let (items1, es1) := tickItems nodes now elapsed resend items
  let (items2, es2) := triggerItems nodes now (triggeredBy nodes now elapsed resend items) items1
  (items2, es1 ++ es2)

/-! ### subscription -/

inductive Action where
  | none | keepAlive | notifications | created | expired
deriving Repr, DecidableEq

structure Params where
  avail : Bool
  more : Bool
  reqQueued : Bool
  timer : Bool
deriving Repr, DecidableEq

def resetLife (s : Subn) : Subn := { s with life := s.maxLife }
def resetKa (s : Subn) : Subn := { s with ka := s.maxKa }
/-- `start_publishing_timer`: `lifetime_counter -= 1` (never reached with 0, see `Inv`) -/
def startTimer (s : Subn) : Subn := { s with life := s.life - 1 }

/-- `update_state`; `rpr` = tick reason is ReceivePublishRequest.  Returns the handled state number too. -/
def updateState (c : Cfg) (s : Subn) (rpr : Bool) (p : Params) : Subn × Nat × Action :=
  if (s.state = .normal ∨ s.state = .late ∨ s.state = .keepAlive) ∧ s.life = 1 then
    ({ s with state := .closed }, 27, .expired)
  else match s.state with
  | .creating => ({ s with state := .normal, firstSent := false }, 3, .created)
  | .normal =>
    if rpr ∧ (!s.enabled ∨ (s.enabled ∧ !p.more)) then (s, 4, .none)
    else if rpr ∧ s.enabled ∧ p.more then ({ resetLife s with firstSent := true }, 5, .notifications)
    else if p.timer ∧ p.reqQueued ∧ s.enabled ∧ p.avail then
      ({ startTimer (resetLife s) with firstSent := true }, 6, .notifications)
    else if p.timer ∧ p.reqQueued ∧ !s.firstSent ∧ (!s.enabled ∨ (s.enabled ∧ !p.avail)) then
      ({ startTimer (resetLife s) with firstSent := true }, 7, .keepAlive)
    else if p.timer ∧ !p.reqQueued ∧ (!s.firstSent ∨ (s.enabled ∧ p.avail)) then
      ({ startTimer s with state := .late }, 8, .none)
    else if p.timer ∧ s.firstSent ∧ (!s.enabled ∨ (s.enabled ∧ !p.avail)) then
      ({ resetKa (startTimer s) with state := .keepAlive }, 9, .none)
    else (s, 0, .none)
  | .late =>
    if rpr ∧ s.enabled ∧ (p.avail ∨ p.more) then
      ({ resetLife s with state := .normal, firstSent := true }, 10, .notifications)
    else if rpr ∧ (!s.enabled ∨ (s.enabled ∧ !p.avail ∧ !p.more)) then
      ({ resetLife s with state := .keepAlive, firstSent := true }, 11, .keepAlive)
    else if p.timer then (startTimer s, 12, .none)
    else (s, 0, .none)
  | .keepAlive =>
    if rpr then (s, 13, .none)
    else if p.timer ∧ s.enabled ∧ p.avail ∧ p.reqQueued then
      ({ s with firstSent := true, state := .normal }, 14, .notifications)
    else if p.timer ∧ p.reqQueued ∧ s.ka = 1 ∧
        (!s.enabled ∨ (s.enabled ∧ (if c.fix15 then !p.avail else p.avail))) then
      (resetKa (startTimer (if c.fix15 then resetLife s else s)), 15, .keepAlive)
    else if p.timer ∧ s.ka > 1 ∧ (!s.enabled ∨ (s.enabled ∧ !p.avail)) then
      ({ startTimer s with ka := s.ka - 1 }, 16, .none)
    else if p.timer ∧ !p.reqQueued ∧ (s.ka = 1 ∨ (s.ka > 1 ∧ s.enabled ∧ p.avail)) then
      ({ startTimer s with state := .late }, 17, .none)
    else (s, 0, .none)
  | .closed => (s, 0, .none)

/-- `enqueue_notification`: panics when the sequence number is not the successor of the last one -/
def enqueueNotification (s : Subn) (m : Msg) : Outcome Subn :=
  if m.seq ≠ s.lastSeq + 1 then .panic
  else .ok { s with lastSeq := m.seq, notifs := s.notifs ++ [m] }

/-- `handle_state_result` -/
def handleStateResult (c : Cfg) (now : Nat) (s : Subn) (a : Action) (n : Option Msg) : Outcome Subn :=
  match a with
  | .none =>
    match n with
    | some m =>
      if c.keepOnNone ∧ s.enabled then enqueueNotification s m
      else .ok { s with seqNext := m.seq }
    | none => .ok s
  | .keepAlive =>
    let s := match n with
      | some m => { s with seqNext := m.seq }
      | none => s
    enqueueNotification { s with seqNext := s.seqNext + 1 } { seq := s.seqNext, time := now, body := .keepAlive }
  | .notifications =>
    match n with
    | some m => enqueueNotification s m
    | none => .ok s
  | .created =>
    match n with
    | some _ => .panic
    | none => .ok s
  | .expired =>
    match n with
    | some m =>
      if c.expiredDiscards then
        let s := { s with seqNext := m.seq }
        enqueueNotification { s with seqNext := s.seqNext + 1, items := [] }
          { seq := s.seqNext, time := now, body := .status 1 }
      else .panic
    | none =>
      enqueueNotification { s with seqNext := s.seqNext + 1, items := [] }
        { seq := s.seqNext, time := now, body := .status 1 }

/-- first part of `Subscription::tick`: has the publishing interval elapsed?
(`test_and_set_publishing_interval_elapsed`; only on the timer, always in the Creating state) -/
def elapsedStep (now : Nat) (timerTick : Bool) (s : Subn) : Subn × Bool :=
  if !timerTick then (s, false)
  else if s.state = .creating then (s, true)
  else match s.lastElapsed with
    | none => ({ s with lastElapsed := some now }, true)
    | some t => if now - t ≥ s.interval then ({ s with lastElapsed := some now }, true) else (s, false)

/-- second part: `tick_monitored_items` and the data change notification built from what the items
handed over (it takes the next sequence number) -/
def collectStep (nodes : List (Nat × Nat)) (now : Nat) (elapsed : Bool) (s : Subn) : Subn × Option Msg :=
  if s.state = .closed ∨ s.state = .creating then ({ s with resend := false }, none)
  else
    let (items, es) := tickAll nodes now elapsed s.resend s.items
    if es.isEmpty then ({ s with items := items, resend := false }, none)
    else ({ s with items := items, resend := false, seqNext := s.seqNext + 1 },
          some { seq := s.seqNext, time := now, body := .data es })

/-- `Subscription::tick`; `timerTick = false` is `TickReason::ReceivePublishRequest` -/
def subTick (c : Cfg) (nodes : List (Nat × Nat)) (now : Nat) (timerTick reqQueued : Bool) (s : Subn) :
    Outcome Subn :=
  let (s, elapsed) := elapsedStep now timerTick s
  let (s, notification) := collectStep nodes now elapsed s
  let avail := !s.notifs.isEmpty || notification.isSome
  let more := decide (s.notifs.length > 1)
  if avail || elapsed || reqQueued then
    let (s', _, a) := updateState c s (!timerTick)
      { avail := avail, more := more, reqQueued := reqQueued, timer := elapsed }
    handleStateResult c now s' a notification
  else .ok s

/-! ### the session's subscriptions -/

def insertKey (k : Nat × Nat) (m : Msg) : List ((Nat × Nat) × Msg) → List ((Nat × Nat) × Msg)
  | [] => [(k, m)]
  | (k', m') :: rest =>
    if k = k' then (k, m) :: rest
    else if k.1 < k'.1 ∨ (k.1 = k'.1 ∧ k.2 < k'.2) then (k, m) :: (k', m') :: rest
    else (k', m') :: insertKey k m rest

def hasSub (subs : List Subn) (id : Nat) : Bool := subs.any (fun s => s.id = id)

/-- `available_sequence_numbers` -/
def availSeqs (retrans : List ((Nat × Nat) × Msg)) (sid : Nat) : Option (List Nat) :=
  let l := (retrans.filter (fun e => e.1.1 = sid)).map (fun e => e.1.2)
  if l.isEmpty then none else some l

/-- `remove_old_unacknowledged_notifications` -/
def cleanup (subs : List Subn) (retrans : List ((Nat × Nat) × Msg)) : List ((Nat × Nat) × Msg) :=
  let r := retrans.filter (fun e => hasSub subs e.1.1)
  let max := subs.length * 2 * 2
  if r.length > max then r.drop (r.length - max) else r

/-- `process_subscription_acknowledgements` for one acknowledgement -/
def ackOne (subs : List Subn) (retrans : List ((Nat × Nat) × Msg)) (a : Nat × Nat) :
    List ((Nat × Nat) × Msg) × AckRes :=
  if hasSub subs a.1 then
    if retrans.any (fun e => e.1 = a) then (retrans.filter (fun e => e.1 ≠ a), .good)
    else (retrans, .seqUnknown)
  else (retrans, .subInvalid)

def ackAll (subs : List Subn) : List ((Nat × Nat) × Msg) → List (Nat × Nat) →
    List ((Nat × Nat) × Msg) × List AckRes
  | retrans, [] => (retrans, [])
  | retrans, a :: as =>
    let (r1, x) := ackOne subs retrans a
    let (r2, xs) := ackAll subs r1 as
    (r2, x :: xs)

/-- `find_notification_message` -/
inductive FindRes where
  | ok (m : Msg) | notAvailable | subInvalid
deriving Repr, DecidableEq

def findMsg (subs : List Subn) (retrans : List ((Nat × Nat) × Msg)) (sid seq : Nat) : FindRes :=
  if hasSub subs sid then
    match retrans.find? (fun e => e.1 = (sid, seq)) with
    | some e => .ok e.2
    | none => .notAvailable
  else .subInvalid

/-- the order in which `Subscriptions::tick` visits the subscriptions (stable sort by priority) -/
def insertByPrio (desc : Bool) (x : Nat × Nat) : List (Nat × Nat) → List (Nat × Nat)
  | [] => [x]
  | y :: rest =>
    if (if desc then y.2 < x.2 else x.2 < y.2) then x :: y :: rest
    else y :: insertByPrio desc x rest

def visitOrder (c : Cfg) (subs : List Subn) : List Nat :=
  ((subs.map fun s => (s.id, s.priority)).foldl (fun acc x => insertByPrio c.prioDesc x acc) []).map (·.1)

def updSub (subs : List Subn) (s : Subn) : List Subn :=
  subs.map fun t => if t.id = s.id then s else t

def getSub (subs : List Subn) (id : Nat) : Option Subn := subs.find? (fun s => s.id = id)

/-- the "process any notifications" loop: pair queued requests (oldest first) with the
subscription's notifications (oldest first) -/
def pairUp (sid : Nat) : List Req → List Msg → List (Nat × Req × Msg) → List Req × List Msg × List (Nat × Req × Msg)
  | r :: reqs, m :: ms, acc => pairUp sid reqs ms (acc ++ [(sid, r, m)])
  | reqs, ms, acc => (reqs, ms, acc)

/-- first phase of `Subscriptions::tick`: visit the subscriptions -/
def visit (c : Cfg) (timerTick : Bool) : List Nat → Sess → List (Nat × Req × Msg) →
    Outcome (Sess × List (Nat × Req × Msg))
  | [], ss, trans => .ok (ss, trans)
  | id :: ids, ss, trans =>
    match getSub ss.subs id with
    | none => .panic                                   -- `.get_mut(&id).unwrap()`; ids come from the map
    | some s =>
      match subTick c ss.nodes ss.now timerTick (!ss.reqs.isEmpty) s with
      | .panic => .panic
      | .ok s1 =>
        let (reqs, ms, trans) := pairUp id ss.reqs s1.notifs trans
        let s2 := { s1 with notifs := ms }
        let subs :=
          if s2.state = .closed ∧ s2.notifs.isEmpty then ss.subs.filter (fun t => t.id ≠ id)
          else updSub ss.subs s2
        visit c timerTick ids { ss with reqs := reqs, subs := subs } trans

/-- second phase: oldest first, move each transmitted notification to the retransmission queue and
queue a response -/
def transmit : List (Nat × Req × Msg) → Sess → Sess
  | [], ss => ss
  | (sid, r, m) :: rest, ss =>
    let more := rest.any (fun e => e.1 = sid)
    let avail := availSeqs ss.retrans sid
    let ss := { ss with
      retrans := insertKey (sid, m.seq) m ss.retrans,
      resps := ss.resps ++ [{ reqId := r.id, subId := sid, avail := avail, more := more, msg := m,
                              results := r.results }] }
    transmit rest ss

/-- `Subscriptions::tick` -/
def sessTick (c : Cfg) (timerTick : Bool) (ss : Sess) : Outcome Sess :=
  match visit c timerTick (visitOrder c ss.subs) ss [] with
  | .panic => .panic
  | .ok (ss, trans) =>
    let ss := transmit trans ss
    .ok { ss with retrans := cleanup ss.subs ss.retrans }

inductive PubRes where
  | queued | noSubscription | tooMany
deriving Repr, DecidableEq

/-- `async_publish` → `enqueue_publish_request` -/
def publish (c : Cfg) (ss : Sess) (reqId : Nat) (acks : Option (List (Nat × Nat))) : Outcome (Sess × PubRes) :=
  if ss.subs.isEmpty then .ok (ss, .noSubscription) else
  let max := ss.subs.length * 2
  let pre : Outcome Sess := if ss.reqs.length ≥ max then sessTick c false ss else .ok ss
  match pre with
  | .panic => .panic
  | .ok ss =>
    -- `max_publish_requests` was computed before the tick
    if ss.reqs.length ≥ max then .ok (ss, .tooMany)
    else
      let (retrans, results) : List ((Nat × Nat) × Msg) × Option (List AckRes) :=
        match acks with
        | none => (ss.retrans, none)
        | some as => let (r, xs) := ackAll ss.subs ss.retrans as; (r, some xs)
      let ss := { ss with retrans := retrans, reqs := ss.reqs ++ [{ id := reqId, results := results }] }
      match sessTick c false ss with
      | .panic => .panic
      | .ok ss => .ok (ss, .queued)

/-- `republish` service: look the message up; on success reset the subscription's lifetime counter -/
def republish (ss : Sess) (sid seq : Nat) : Sess × FindRes :=
  match findMsg ss.subs ss.retrans sid seq with
  | .ok m => ({ ss with subs := ss.subs.map fun s => if s.id = sid then resetLife s else s }, .ok m)
  | r => (ss, r)

/-- `create_subscription` with parameters that the server does not revise -/
def createSub (ss : Sess) (priority interval ka life : Nat) (enabled : Bool) : Sess × Nat :=
  let id := ss.nextSubId
  let s : Subn := {
    id := id, priority := priority, interval := interval, maxLife := life, maxKa := ka,
    state := .creating, life := life, ka := ka, firstSent := false, enabled := enabled, resend := false,
    seqNext := 1,
    lastSeq := 0, nextItemId := 1, lastElapsed := none, notifs := [], items := [] }
  ({ ss with subs := ss.subs ++ [s], nextSubId := id + 1 }, id)

/-- `delete_subscriptions` for one id -/
def deleteSub (ss : Sess) (sid : Nat) : Sess × Bool :=
  if hasSub ss.subs sid then ({ ss with subs := ss.subs.filter (fun s => s.id ≠ sid) }, true)
  else (ss, false)

/-- `set_publishing_mode` for one id -/
def setPublishing (ss : Sess) (sid : Nat) (en : Bool) : Sess × Bool :=
  if hasSub ss.subs sid then
    ({ ss with subs := ss.subs.map fun s => if s.id = sid then resetLife { s with enabled := en } else s }, true)
  else (ss, false)

inductive ItemRes where
  | created (id : Nat) | nodeUnknown | subInvalid
deriving Repr, DecidableEq

/-- `create_monitored_items` for one item (no filter; `maxQ` = server limit of the queue size) -/
def createItem (ss : Sess) (maxQ sid handle node qsize : Nat) (discardOldest : Bool) (mode : Mode)
    (sampling : Option Nat) : Sess × ItemRes :=
  match getSub ss.subs sid with
  | none => (ss, .subInvalid)
  | some s =>
    let s := resetLife s
    if (lookup ss.nodes node).isNone then ({ ss with subs := updSub ss.subs s }, .nodeUnknown)
    else
      let it : MItem := {
        id := s.nextItemId, handle := handle, node := node, mode := mode,
        sampling := sampling, lastSample := none, q := C24.mk maxQ qsize discardOldest, last := none,
        triggers := [] }
      let s := { s with items := s.items ++ [it], nextItemId := s.nextItemId + 1 }
      ({ ss with subs := updSub ss.subs s }, .created it.id)

inductive DelItemRes where
  | good | itemInvalid | subInvalid
deriving Repr, DecidableEq

/-- `delete_monitored_items` for one item -/
def deleteItem (ss : Sess) (sid iid : Nat) : Sess × DelItemRes :=
  match getSub ss.subs sid with
  | none => (ss, .subInvalid)
  | some s =>
    let s := resetLife s
    if s.items.any (fun i => i.id = iid) then
      ({ ss with subs := updSub ss.subs { s with items := s.items.filter (fun i => i.id ≠ iid) } }, .good)
    else ({ ss with subs := updSub ss.subs s }, .itemInvalid)

/-- `modify_subscription` with parameters that the server does not revise -/
def modifySub (ss : Sess) (sid priority interval ka life : Nat) : Sess × Bool :=
  if hasSub ss.subs sid then
    ({ ss with subs := ss.subs.map fun s =>
        if s.id = sid then
          { s with interval := interval, maxKa := ka, maxLife := life, priority := priority, life := life, ka := ka }
        else s }, true)
  else (ss, false)

/-- the ResendData method: `set_resend_data` -/
def resendData (ss : Sess) (sid : Nat) : Sess × Bool :=
  if hasSub ss.subs sid then
    ({ ss with subs := ss.subs.map fun s => if s.id = sid then { s with resend := true } else s }, true)
  else (ss, false)

inductive ItemOpRes where
  | good | itemInvalid | subInvalid | panic
deriving Repr, DecidableEq

/-- `set_monitoring_mode` for one item (no lifetime reset) -/
def setMode (ss : Sess) (sid iid : Nat) (mode : Mode) : Sess × ItemOpRes :=
  match getSub ss.subs sid with
  | none => (ss, .subInvalid)
  | some s =>
    if s.items.any (fun i => i.id = iid) then
      let s' := { s with items := s.items.map fun i => if i.id = iid then { i with mode := mode } else i }
      ({ ss with subs := updSub ss.subs s' }, .good)
    else (ss, .itemInvalid)

/-- `modify_monitored_items` for one item (no filter): client handle, sampling interval, queue size and
discard policy; the queue is resized by the C24 `modify` -/
def modifyItem (ss : Sess) (maxQ sid iid handle qsize : Nat) (discardOldest : Bool) (sampling : Option Nat) :
    Sess × ItemOpRes :=
  match getSub ss.subs sid with
  | none => (ss, .subInvalid)
  | some s =>
    let s := resetLife s
    match s.items.find? (fun i => i.id = iid) with
    | none => ({ ss with subs := updSub ss.subs s }, .itemInvalid)
    | some it =>
      match C24.modify maxQ it.q qsize discardOldest with
      | .panic => (ss, .panic)
      | .ok q' =>
        let it' := { it with handle := handle, sampling := sampling, q := q' }
        let s' := { s with items := s.items.map fun i => if i.id = iid then it' else i }
        ({ ss with subs := updSub ss.subs s' }, .good)

/-- `set_triggering`: per link Good iff the linked item exists and is not the triggering item; removals
are applied before additions; `none` = the triggering item does not exist (service fault) -/
def setTriggering (ss : Sess) (sid iid : Nat) (add remove : List Nat) :
    Sess × Option (Option (List Bool × List Bool)) :=
  match getSub ss.subs sid with
  | none => (ss, none)
  | some s =>
    let good := fun (i : Nat) => s.items.any (fun t => t.id = i) && decide (i ≠ iid)
    match s.items.find? (fun i => i.id = iid) with
    | none => (ss, some none)
    | some it =>
      let tr := (it.triggers.filter fun t => !((remove.filter good).contains t))
      let tr := (add.filter good).foldl (fun a i => insertAsc i a) tr
      let s' := { s with items := s.items.map fun i => if i.id = iid then { it with triggers := tr } else i }
      ({ ss with subs := updSub ss.subs s' }, some (some (add.map good, remove.map good)))

/-- test hook `Subscription::verif_set_position`: put the state machine of one subscription into an
arbitrary position (used by the single-step enumeration of the generator, not an API operation) -/
def setPosition (ss : Sess) (sid : Nat) (state : SState) (life ka : Nat) (firstSent : Bool) : Sess × Bool :=
  if hasSub ss.subs sid then
    ({ ss with subs := ss.subs.map fun s =>
        if s.id = sid then { s with state := state, life := life, ka := ka, firstSent := firstSent } else s }, true)
  else (ss, false)

/-- a write to the address space -/
def write (ss : Sess) (node v : Nat) : Sess :=
  { ss with nodes := ss.nodes.map fun p => if p.1 = node then (node, v) else p }

/-- the timer: advance the clock by `dt` units, then `tick_subscriptions(TickTimerFired)` -/
def timer (c : Cfg) (ss : Sess) (dt : Nat) : Outcome Sess :=
  sessTick c true { ss with now := ss.now + dt }

/-- `take_publish_responses` -/
def takeResponses (ss : Sess) : Sess × List Resp := ({ ss with resps := [] }, ss.resps)

def init (nodes : List (Nat × Nat)) : Sess :=
  { reqs := [], resps := [], subs := [], retrans := [], nodes := nodes, now := 0, nextSubId := 1 }

end OpcuaVerif.SubM
