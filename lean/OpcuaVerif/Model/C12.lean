import OpcuaVerif.Model.C11

/-
C12 — sequence numbers and request ids.

Receiver: `Chunker::validate_chunks` (core/comms/chunker.rs:45-103) and the update of
`last_received_sequence_number` in `turn_received_chunks_into_message`
(server/comms/tcp_transport.rs, client/transport/core.rs), the chunk collection of the server's
`process_chunk`/`process_final_chunk` for well-formed MSG chunks on a policy-None channel.

Sender: `SendBuffer::write`/`next_request_id` are in `Model.C11` (`SB.write`, `SB.nextRequestId`);
here `MessageWriter::{new, write, bytes_to_write, next_request_id}` (core/comms/message_writer.rs).

A chunk is abstracted to the three header fields `validate_chunks` looks at (`ChunkInfo`), or `none`
when `chunk_info()` fails.  u32 arithmetic is explicit: `fixed = false` is the pinned source
(unchecked `+`, panics in the dev profile), `fixed = true` the source after the `fix:` commits
(checked arithmetic → `BadSequenceNumberInvalid`; empty chunk list → `BadUnexpectedError`).
-/
namespace OpcuaVerif.C12
open OpcuaVerif.C11

structure CI where
  chan : Nat
  seq : Nat
  req : Nat
deriving Repr, DecidableEq

inductive VOut where
  | ok (last : Nat)
  | err (code : String)
  | panic
deriving Repr, DecidableEq

/-- the `for (i, chunk)` loop of `validate_chunks`; `none` = all chunks pass.
`first + i` is a u32 addition (dev profile: panic on overflow). -/
def checkLoop (chanId first req0 : Nat) : Nat → List (Option CI) → Option VOut
  | _, [] => none
  | _, none :: _ => some (.err "BadCommunicationError")
  | i, some c :: rest =>
    if chanId ≠ 0 ∧ c.chan ≠ chanId then some (.err "BadSecureChannelIdInvalid")
    else match addU32 first i with
      | none => some .panic
      | some expected =>
        if c.seq ≠ expected then some (.err "BadSecurityChecksFailed")
        else if i ≠ 0 ∧ c.req ≠ req0 then some (.err "BadSecurityChecksFailed")
        else checkLoop chanId first req0 (i + 1) rest

/-- `Chunker::validate_chunks(starting_sequence_number, secure_channel, chunks)` -/
def validateChunksWith (fixed : Bool) (start chanId : Nat) (chunks : List (Option CI)) : VOut :=
  match chunks with
  | [] => if fixed then .err "BadUnexpectedError" else .panic          -- `chunks[0]`
  | none :: _ => .err "BadCommunicationError"
  | some c0 :: _ =>
    if c0.seq < start then .err "BadSequenceNumberInvalid"
    else if fixed then
      match addU32 c0.seq (chunks.length - 1) with
      | none => .err "BadSequenceNumberInvalid"
      | some last =>
        match checkLoop chanId c0.seq c0.req 0 chunks with
        | some r => r
        | none => .ok last
    else
      match checkLoop chanId c0.seq c0.req 0 chunks with
      | some r => r
      | none =>
        -- `first_sequence_number + chunks.len() as u32 - 1`
        match addU32 c0.seq chunks.length with
        | none => .panic
        | some n => .ok (n - 1)

/-- the source as it is now -/
def validateChunks := validateChunksWith true

/-- `turn_received_chunks_into_message`, sequence part: validate against `last + 1`, remember the
new high-water mark. -/
def recvWith (fixed : Bool) (last chanId : Nat) (chunks : List (Option CI)) : VOut :=
  match addU32 last 1 with
  | none => if fixed then .err "BadSequenceNumberInvalid" else .panic
  | some start => validateChunksWith fixed start chanId chunks

def recv := recvWith true

inductive Fin where
  | final | intermediate | abort
deriving Repr, DecidableEq

/- The server's chunk collection (`process_chunk` / `process_final_chunk`) is modelled in full —
every chunk type and flag, before and after Hello / OpenSecureChannel — in `Model/SrvConn.lean`;
the C12 driver delegates its server ops to it. -/

/-! ### MessageWriter (server side sender) -/

structure MW where
  bufLen : Nat                 -- buffer.get_ref().len() (grows when more is written)
  out : Bytes                  -- bytes written since the last `bytes_to_write`
  lastReq : Nat
  lastSeq : Nat
  maxMsg : Nat
  maxChunks : Nat
deriving Repr, DecidableEq

def MW.new (bufferSize maxMsg maxChunks : Nat) : MW :=
  { bufLen := bufferSize, out := [], lastReq := 1000, lastSeq := 0, maxMsg := maxMsg, maxChunks := maxChunks }

inductive MWOut where
  | ok (s : MW)
  | err (s : MW) (code : String)
  | panic
deriving Repr, DecidableEq

/-- `MessageWriter::write` (Chunker::encode with `max_chunk_size = 0`: always one chunk) -/
def MW.write (s : MW) (c : Chan) (clientRole : Bool) (req nid : Nat) (msg : Bytes) : MWOut :=
  match addU32 s.lastSeq 1 with
  | none => .panic
  | some first =>
    match chunkerEncode c clientRole first req s.maxMsg 0 nid msg with
    | .panic => .panic
    | .err e => .err s e
    | .ok cs =>
      if s.maxChunks > 0 ∧ cs.length > s.maxChunks then .err s "BadCommunicationError"
      else match addU32 s.lastSeq cs.length with
        | none => .panic
        | some l =>
          -- apply_security into a scratch buffer of `buffer.len() + 1024`, then append
          let s1 := { s with lastSeq := l }
          cs.foldl (fun (acc : MWOut) ch =>
            match acc with
            | .ok a =>
              if ch.length > a.bufLen + 1024 then .err a "BadEncodingLimitsExceeded"
              else .ok { a with out := a.out ++ ch, bufLen := max a.bufLen (a.out.length + ch.length) }
            | other => other) (.ok s1)

/-- `bytes_to_write` -/
def MW.take (s : MW) : MW × Bytes := ({ s with out := [] }, s.out)

def MW.nextRequestId (s : MW) : Option (MW × Nat) :=
  (addU32 s.lastReq 1).map fun r => ({ s with lastReq := r }, r)

/-! ### reading the sequence header of an emitted chunk -/

/-- offset of the sequence header: 12 bytes chunk header + security header (asymmetric/None for an
`OPN` chunk — 59 bytes —, the 4-byte token id otherwise) -/
def seqOffset : Bytes → Nat
  | 79 :: _ => 12 + 59          -- 'O'PN
  | _ => 12 + 4

def chunkSeq (ch : Bytes) : Option Nat := (readU32 (ch.drop (seqOffset ch))).map (·.1)
def chunkReq (ch : Bytes) : Option Nat := (readU32 (ch.drop (seqOffset ch + 4))).map (·.1)

end OpcuaVerif.C12
