/-
C20 — model of user authentication in ActivateSession
(`lib/src/server/services/session.rs`: `create_session` (session nonce), `activate_session`,
`verify_client_signature`; `lib/src/server/state.rs`: `authenticate_endpoint`,
`authenticate_anonymous_token`, `authenticate_username_identity_token`,
`authenticate_x509_identity_token`; `lib/src/server/identity_token.rs`: `IdentityToken::new`;
`lib/src/server/config.rs`: `supports_anonymous / supports_user_pass / supports_x509`;
the acceptance conditions of `crypto::user_identity::{decrypt_user_identity_token_password,
legacy_password_decrypt, verify_x509_identity_token}` and `crypto::verify_signature_data`).

Abstractions: strings (user names, passwords, policy ids, token ids) and certificates (thumbprints,
key identities) are numbers; a nonce is a number (0 = the null ByteString).  RSA is ideal: a
ciphertext is the triple (padding used, password, nonce it was made for) and decrypts exactly with
the padding it was made with; a signature is (key that made it, nonce it covers) and verifies
exactly for that key and nonce.  These are the C16/C17 acceptance conditions.
-/
namespace OpcuaVerif.C20

inductive Status where
  | BadTcpEndpointUrlInvalid | BadIdentityTokenInvalid | BadIdentityTokenRejected
  | BadUserAccessDenied | BadDecodingError | BadSecurityChecksFailed | BadUnexpectedError
  | BadCertificateInvalid | BadSessionIdInvalid
deriving Repr, DecidableEq

/-- an entry of `ServerConfig.user_tokens` -/
inductive UserTok where
  | userpass (name : Nat) (pass : Option Nat)   -- `pass = none`: only the empty password matches
  | x509 (thumb : Option Nat)                   -- thumbprint, if the certificate file could be read
deriving Repr, DecidableEq

def UserTok.isUserPass : UserTok → Bool
  | .userpass _ _ => true
  | .x509 _ => false

/-- what `authenticate_endpoint` sees of the configuration and of the connection -/
structure Cfg where
  endpointOk : Bool                 -- `find_endpoint(session url, channel policy, channel mode)` succeeds
  tokenIds : List Nat               -- that endpoint's `user_token_ids` in iteration order; 0 = ANONYMOUS
  users : List (Nat × UserTok)      -- `config.user_tokens` (token id ↦ token)
  pwPolicyId : Nat                  -- `user_pass_security_policy_id(endpoint)`
  hasKey : Bool                     -- `server_pkey` is present
  hasCert : Bool                    -- `server_certificate` is present
  secured : Bool                    -- channel security policy ≠ None
deriving Repr, DecidableEq

/-- policy id strings as numbers -/
def pidAnonymous : Nat := 0
def pidX509 : Nat := 4

inductive Alg where
  | rsa15 | oaep | oaep256 | unknown
deriving Repr, DecidableEq

/-- the `password` + `encryption_algorithm` fields of a UserNameIdentityToken -/
inductive Pw where
  | plain (p : Nat) (emptyAlg : Bool)   -- UTF-8 bytes of password `p` (0 = empty), algorithm null (or "" when `emptyAlg`)
  | plainBad                            -- algorithm null, bytes are not UTF-8
  | enc (declared used : Alg) (p : Nat) (nonce : Nat)
      -- `legacy_password_encrypt p nonce` with padding `used`; `encryption_algorithm` says `declared`
deriving Repr, DecidableEq

/-- `user_token_signature` -/
inductive Sig where
  | by (key : Nat) (nonce : Nat)    -- made with private key `key` over server certificate ‖ `nonce`
  | garbage                         -- bytes that are no signature of anything
  | null
deriving Repr, DecidableEq

/-- `user_identity_token` after `IdentityToken::new` -/
inductive IdTok where
  | empty                                             -- null ExtensionObject: treated as anonymous
  | anon (pid : Nat)
  | user (pid : Nat) (name : Option Nat) (pw : Pw)
  | x509 (pid : Nat) (cert : Option Nat) (sig : Sig)   -- cert = thumbprint/key identity; none = unparsable
  | invalid                                           -- unknown type id or undecodable body
deriving Repr, DecidableEq

def lookupUser (c : Cfg) (id : Nat) : Option UserTok := c.users.lookup id

/-- `ServerEndpoint::supports_anonymous` -/
def supportsAnonymous (c : Cfg) : Bool := c.tokenIds.contains 0

/-- `ServerEndpoint::supports_user_pass` -/
def supportsUserPass (c : Cfg) : Bool :=
  c.tokenIds.any fun id => id != 0 && (match lookupUser c id with
    | some t => t.isUserPass
    | none => false)

/-- `ServerEndpoint::supports_x509` -/
def supportsX509 (c : Cfg) : Bool :=
  c.tokenIds.any fun id => id != 0 && (match lookupUser c id with
    | some t => !t.isUserPass
    | none => false)

/-- Outcome of obtaining the clear password: the password, or an error status.
Acceptance condition of `decrypt_user_identity_token_password` / `legacy_password_decrypt`:
the declared algorithm is known, the ciphertext was made with that padding, and the nonce inside
equals the session nonce (with a null session nonce nothing is compared). -/
def clearPassword (c : Cfg) (sessionNonce : Nat) : Pw → Except Status Nat
  | .plain p false => .ok p
  | .plain p true => if c.hasKey then .ok p else .error .BadIdentityTokenInvalid
  | .plainBad => .error .BadDecodingError
  | .enc declared used p n =>
    if !c.hasKey then .error .BadIdentityTokenInvalid
    else if declared = .unknown then .error .BadIdentityTokenInvalid
    else if declared ≠ used then .error .BadDecodingError
    else if n = sessionNonce then .ok p
    else .error .BadDecodingError

/-- the password comparison of `authenticate_username_identity_token`: a user configured without
password accepts only the empty password -/
def passOk : Option Nat → Nat → Bool
  | none, pw => pw == 0
  | some p, pw => p == pw

/-- the loop over `endpoint.user_token_ids` in `authenticate_username_identity_token` -/
def matchUser (c : Cfg) (name pw : Nat) : List Nat → Except Status Nat
  | [] => .error .BadUserAccessDenied
  | id :: rest =>
    match lookupUser c id with
    | some (.userpass n pass) =>
      if n = name then
        (if passOk pass pw then .ok id else .error .BadUserAccessDenied)
      else matchUser c name pw rest
    | _ => matchUser c name pw rest

/-- the loop over `endpoint.user_token_ids` in `authenticate_x509_identity_token` -/
def matchThumb (c : Cfg) (thumb : Nat) : List Nat → Except Status Nat
  | [] => .error .BadIdentityTokenInvalid
  | id :: rest =>
    match lookupUser c id with
    | some (.x509 (some t)) => if t = thumb then .ok id else matchThumb c thumb rest
    | _ => matchThumb c thumb rest

/-- acceptance condition of `verify_signature_data` (C17): made by the key of `cert` over the
session nonce -/
def sigValid (sig : Sig) (cert : Nat) (sessionNonce : Nat) : Bool :=
  match sig with
  | .by k n => k == cert && n == sessionNonce
  | _ => false

/-- the per-token-kind helpers of `authenticate_endpoint`: `ok id` = the matching user token id
(0 = anonymous) -/
def authTok (c : Cfg) (sessionNonce : Nat) : IdTok → Except Status Nat
  | .invalid => .error .BadIdentityTokenInvalid
  | .empty => if !supportsAnonymous c then .error .BadIdentityTokenRejected else .ok 0
  | .anon pid =>
    if pid ≠ pidAnonymous then .error .BadIdentityTokenInvalid
    else if !supportsAnonymous c then .error .BadIdentityTokenRejected
    else .ok 0
  | .user pid name pw =>
    if !supportsUserPass c then .error .BadIdentityTokenRejected
    else if pid ≠ c.pwPolicyId then .error .BadIdentityTokenInvalid
    else match name with
      | none => .error .BadIdentityTokenInvalid
      | some name =>
        match clearPassword c sessionNonce pw with
        | .error e => .error e
        | .ok p => matchUser c name p c.tokenIds
  | .x509 pid cert sig =>
    if !supportsX509 c then .error .BadIdentityTokenRejected
    else if pid ≠ pidX509 then .error .BadIdentityTokenRejected
    else if !c.hasCert then .error .BadIdentityTokenInvalid
    else match cert with
      | none => .error .BadCertificateInvalid
      | some cert =>
        if !sigValid sig cert sessionNonce then .error .BadSecurityChecksFailed
        else matchThumb c cert c.tokenIds

/-- `ServerState::authenticate_endpoint` -/
def authenticate (c : Cfg) (sessionNonce : Nat) (tok : IdTok) : Except Status Nat :=
  if !c.endpointOk then .error .BadTcpEndpointUrlInvalid else authTok c sessionNonce tok

/-- `client_signature` of the request: made by the client application key over the server
certificate and nonce `n`, or absent -/
inductive ClientSig where
  | over (nonce : Nat)
  | null
deriving Repr, DecidableEq

/-- `SessionService::verify_client_signature` (only called when the channel policy is not None);
acceptance condition of `verify_signature_data`: made over the session's nonce -/
def clientSigStatus (c : Cfg) (sessionNonce : Nat) (cs : ClientSig) : Option Status :=
  if c.secured then
    if !c.hasCert then some .BadUnexpectedError
    else match cs with
      | .over n => if n = sessionNonce then none else some .BadSecurityChecksFailed
      | .null => some .BadSecurityChecksFailed
  else none

/-- status part of `SessionService::activate_session` (same channel id as at creation) -/
def activateStatus (c : Cfg) (sessionNonce : Nat) (cs : ClientSig) (tok : IdTok) : Option Status :=
  if !c.endpointOk then some .BadTcpEndpointUrlInvalid
  else
    match clientSigStatus c sessionNonce cs with
    | some e => some e
    | none =>
      match authenticate c sessionNonce tok with
      | .error e => some e
      | .ok _ => none

/-! ### sessions and nonces -/

structure Sess where
  nonce : Nat          -- session_nonce (0 = null)
  activated : Bool
  user : Option Nat    -- user token id the session was authenticated as
deriving Repr, DecidableEq

structure St where
  cfg : Cfg
  sessions : List Sess
  handed : List Nat      -- every server nonce returned so far (CreateSession / ActivateSession responses), oldest first
deriving Repr, DecidableEq

/-- The nonce put into a Create/ActivateSession response.  `fresh = false` is the pinned source:
`SecurityPolicy::None.random_nonce()` is the null ByteString.  `fresh = true` is the repaired source:
32 random bytes for every policy.  Random values are modelled as a counter (never repeating). -/
def newNonce (fresh : Bool) (s : St) : Nat :=
  if fresh || s.cfg.secured then s.handed.length + 1 else 0

inductive Op where
  | create
  | activate (sess : Nat) (cs : ClientSig) (tok : IdTok)
deriving Repr, DecidableEq

inductive Out where
  | created (sess : Nat) (nonceIdx : Nat)
  | activated (nonceIdx : Nat)
  | fault (e : Status)
deriving Repr, DecidableEq

def setAt (l : List Sess) (i : Nat) (x : Sess) : List Sess := l.set i x

def stepWith (fresh : Bool) (s : St) : Op → St × Out
  | .create =>
    if s.sessions.length ≥ 5 then (s, .fault .BadSessionIdInvalid)   -- harness never does this
    else
      let n := newNonce fresh s
      ({ s with sessions := s.sessions ++ [{ nonce := n, activated := false, user := none }],
                handed := s.handed ++ [n] },
       .created s.sessions.length s.handed.length)
  | .activate i cs tok =>
    match s.sessions[i]? with
    | none => (s, .fault .BadSessionIdInvalid)
    | some x =>
      match activateStatus s.cfg x.nonce cs tok with
      | some e => ({ s with sessions := setAt s.sessions i { x with activated := false } }, .fault e)
      | none =>
        let n := newNonce fresh s
        let u := match authenticate s.cfg x.nonce tok with
          | .ok id => some id
          | .error _ => none
        ({ s with sessions := setAt s.sessions i { nonce := n, activated := true, user := u },
                  handed := s.handed ++ [n] },
         .activated s.handed.length)

/-- which variant the current source is (`true` after the `fix:` commit) -/
def freshAsInSource : Bool := true

def step := stepWith freshAsInSource

def runWith (fresh : Bool) (s : St) : List Op → St
  | [] => s
  | op :: ops => runWith fresh (stepWith fresh s op).1 ops

def run := runWith freshAsInSource

def St.init (c : Cfg) : St := { cfg := c, sessions := [], handed := [] }

end OpcuaVerif.C20
