/-
C37 — model of the reconnect back-off iterator
(`lib/src/client/retry.rs`: `ExponentialBackoff::new`, `Iterator::next`, `SessionRetryPolicy::new_backoff`).

`std::time::Duration` is modelled exactly as the pair (secs : u64, nanos : u32 < 10^9) with the
library's own `checked_mul` / `saturating_mul` / derived lexicographic `Ord`; `retry_count` is a
`u32` whose `+= 1` panics on overflow (dev profile).
-/
namespace OpcuaVerif.C37

def NANOS : Nat := 1000000000
def U64 : Nat := 18446744073709551616
def U32 : Nat := 4294967296

/-- `core::time::Duration` -/
structure Dur where
  secs : Nat
  nanos : Nat
deriving Repr, DecidableEq

/-- `Duration::MAX` -/
def Dur.dmax : Dur := ⟨U64 - 1, NANOS - 1⟩

/-- `Duration::checked_mul(self, 2)` (core::time): nanos are multiplied in u64, the carry is added
to `secs.checked_mul(2)` with `checked_add`. -/
def Dur.checkedMul2 (d : Dur) : Option Dur :=
  let total := d.nanos * 2
  let extra := total / NANOS
  let nanos := total % NANOS
  let s := d.secs * 2
  if s ≥ U64 then none
  else if s + extra ≥ U64 then none
  else some ⟨s + extra, nanos⟩

/-- `Duration::saturating_mul(self, 2)` -/
def Dur.satMul2 (d : Dur) : Dur :=
  match d.checkedMul2 with
  | some r => r
  | none => Dur.dmax

/-- derived `Ord` on (secs, nanos): `a > b` -/
def Dur.gt (a b : Dur) : Bool :=
  decide (b.secs < a.secs) || (decide (a.secs = b.secs) && decide (b.nanos < a.nanos))

/-- `Ord::min(a, b)` : `b` when `a > b`, else `a` -/
def Dur.dmin (a b : Dur) : Dur := if a.gt b then b else a

/-- `ExponentialBackoff` -/
structure Backoff where
  maxSleep : Dur
  maxRetries : Option Nat
  cur : Dur
  count : Nat
deriving Repr, DecidableEq

/-- `SessionRetryPolicy` -/
structure Policy where
  maxSleep : Dur
  limit : Option Nat
  initial : Dur
deriving Repr, DecidableEq

/-- `SessionRetryPolicy::new_backoff` / `ExponentialBackoff::new` -/
def init (p : Policy) : Backoff :=
  { maxSleep := p.maxSleep, maxRetries := p.limit, cur := p.initial, count := 0 }

/-- `Duration::from_millis` -/
def Dur.ofMillis (ms : Nat) : Dur := ⟨ms / 1000, ms % 1000 * 1000000⟩

/-- `SessionRetryPolicy::default()` : DEFAULT_MAX_SLEEP_MS = 30000, DEFAULT_RETRY_LIMIT = 10,
DEFAULT_INITIAL_SLEEP_MS = 500 -/
def policyDefault : Policy := { maxSleep := Dur.ofMillis 30000, limit := some 10, initial := Dur.ofMillis 500 }

/-- `SessionRetryPolicy::never()` -/
def policyNever : Policy := { policyDefault with limit := some 0 }

/-- `SessionRetryPolicy::infinity(max_sleep, initial_sleep)` -/
def policyInfinity (mx i : Dur) : Policy := { maxSleep := mx, limit := none, initial := i }

inductive Out where
  | panic
  | done                 -- `None`
  | delay (d : Dur)      -- `Some(d)`
deriving Repr, DecidableEq

/-- which source text is modelled: the pinned tree (`current_sleep * 2`, unconditional
`retry_count += 1`) or the tree after the `fix:` commit (`saturating_mul(2)`, counting only when a
limit exists). -/
inductive Src where
  | pinned
  | fixed
deriving Repr, DecidableEq

/-- `self.max_retries.is_some_and(|max| max <= self.retry_count)` -/
def exhausted (s : Backoff) : Bool :=
  match s.maxRetries with
  | some m => decide (m ≤ s.count)
  | none => false

/-- `Iterator::next`.  On `panic` the returned state is the state at the moment of the panic. -/
def nextWith (src : Src) (s : Backoff) : Out × Backoff :=
  if exhausted s then (.done, s) else
  match src with
  | .pinned =>
    -- `self.current_sleep * 2` = `checked_mul(2).expect(..)`
    match s.cur.checkedMul2 with
    | none => (.panic, s)
    | some d2 =>
      let s1 := { s with cur := s.maxSleep.dmin d2 }
      -- `self.retry_count += 1`
      if s.count + 1 ≥ U32 then (.panic, s1) else (.delay s.cur, { s1 with count := s.count + 1 })
  | .fixed =>
    let s1 := { s with cur := s.maxSleep.dmin s.cur.satMul2 }
    match s.maxRetries with
    | some _ =>
      if s.count + 1 ≥ U32 then (.panic, s1) else (.delay s.cur, { s1 with count := s.count + 1 })
    | none => (.delay s.cur, s1)

/-- the source as it is now (after the `fix:` commit) -/
def next := nextWith .fixed

/-- results of `n` consecutive calls; a panic ends the sequence (the caller is unwound) -/
def outputs (src : Src) : Backoff → Nat → List Out
  | _, 0 => []
  | s, n + 1 =>
    match nextWith src s with
    | (.panic, _) => [.panic]
    | (o, s') => o :: outputs src s' n

/-- state after `n` calls, `none` when one of them panicked -/
def iterate (src : Src) : Backoff → Nat → Option Backoff
  | s, 0 => some s
  | s, n + 1 =>
    match nextWith src s with
    | (.panic, _) => none
    | (_, s') => iterate src s' n

/-- `nextn k` of the driver: (number of delays yielded, last result, state) or `none` on panic -/
def nextN (src : Src) : Backoff → Nat → Nat → Out → Option (Nat × Out × Backoff)
  | s, 0, y, last => some (y, last, s)
  | s, n + 1, y, _ =>
    match nextWith src s with
    | (.panic, _) => none
    | (.done, s') => nextN src s' n y .done
    | (.delay d, s') => nextN src s' n (y + 1) (.delay d)

end OpcuaVerif.C37
