/-
C19 — model of the per-connection session dispatcher
(`lib/src/server/services/message_handler.rs`: `handle_message`, `validate_service_request`,
`validate_activate_service_request`, `is_session_activated`, `is_session_timed_out`;
`lib/src/server/services/session.rs`: `create_session`, `activate_session`, `close_session`;
`lib/src/server/session.rs`: `SessionManager::{find_session_by_token, register_session,
deregister_session}`).

Abstractions: authentication tokens are numbers (`0` = the null NodeId; `create` issues the next
unused number — the real code draws 32 random bytes); the user identity check of ActivateSession
is a parameter of the op (`Cred`, its table is C20's subject); "any service other than discovery
and the session services" is one of four representative services with an observable effect
(Write/Read of one variable, Browse, CreateSubscription); time is the number of milliseconds a
session has been idle (`now − last_service_request_timestamp`).
-/
namespace OpcuaVerif.C19

/-! ### exact `f64` comparison (the session timeout is an `f64`) -/

/-- exact value of an IEEE-754 binary64 -/
inductive F where
  | nan
  | inf (neg : Bool)
  | fin (neg : Bool) (m : Nat) (e : Int)      -- (−1)^neg · m · 2^e
deriving Repr, DecidableEq

def F.ofBits (b : Nat) : F :=
  let neg := b / 2 ^ 63 % 2 == 1
  let ex := b / 2 ^ 52 % 2048
  let frac := b % 2 ^ 52
  if ex = 2047 then (if frac = 0 then .inf neg else .nan)
  else if ex = 0 then .fin neg frac (-1074)
  else .fin neg (frac + 2 ^ 52) (Int.ofNat ex - 1075)

/-- `m · 2^e > n` on exact values (`m`, `n` naturals) -/
def scaledGt (m : Nat) (e : Int) (n : Nat) : Bool :=
  if e ≥ 0 then decide (m * 2 ^ e.toNat > n) else decide (m > n * 2 ^ (-e).toNat)

/-- `n > m · 2^e` -/
def gtScaled (n : Nat) (m : Nat) (e : Int) : Bool :=
  if e ≥ 0 then decide (n > m * 2 ^ e.toNat) else decide (n * 2 ^ (-e).toNat > m)

/-- Rust `x > (n as f64)` for a natural `n < 2^53` (so that the cast is exact) -/
def F.gtNat : F → Nat → Bool
  | .nan, _ => false
  | .inf neg, _ => !neg
  | .fin true _ _, _ => false
  | .fin false m e, n => scaledGt m e n

/-- Rust `(n as f64) > x` for a natural `n < 2^53` -/
def F.ltNat : F → Nat → Bool
  | .nan, _ => false
  | .inf neg, _ => neg
  | .fin true m _, n => decide (m > 0) || decide (n > 0)
  | .fin false m e, n => gtScaled n m e

/-- `constants::MAX_SESSION_TIMEOUT` = 60000.0 -/
def maxSessionTimeout : Nat := 60000
/-- bit pattern of 60000.0f64 -/
def maxSessionTimeoutBits : Nat := 0x40ED4C0000000000

/-- `create_session`: `if requested > MAX_SESSION_TIMEOUT { MAX } else { requested }` (bit patterns) -/
def reviseTimeout (bits : Nat) : Nat :=
  if (F.ofBits bits).gtNat maxSessionTimeout then maxSessionTimeoutBits else bits

/-! ### state -/

structure Sess where
  token : Nat            -- authentication token (0 = null)
  activated : Bool
  chan : Nat             -- secure_channel_id the session is bound to
  idle : Nat             -- ms since last_service_request_timestamp
  timeout : Nat          -- session_timeout, f64 bit pattern
  term : Bool            -- terminate_session flag
  subs : Nat             -- number of subscriptions
deriving Repr, DecidableEq

structure St where
  chan : Nat                     -- the connection's secure channel id
  sessions : List Sess           -- SessionManager.sessions (creation order)
  issued : Nat                   -- tokens issued so far on this connection
  v : Nat                        -- the variable the representative Write/Read service uses
deriving Repr, DecidableEq

def St.init (chan : Nat) : St := { chan := chan, sessions := [], issued := 0, v := 0 }

/-- authentication token in a request header -/
inductive Tok where
  | num (n : Nat)        -- 0 = null NodeId, k ≥ 1 = the k-th token issued on this connection (if issued)
  | foreign              -- a token never issued on this connection
deriving Repr, DecidableEq

inductive Cred where
  | anon | user | badpw | badpol
deriving Repr, DecidableEq

inductive Svc where
  | write (x : Nat) | read | browse | sub
  | other (k : Nat)      -- any further service behind `validate_service_request` without an effect the probe shows
                         -- (Cancel, Call, Publish, TranslateBrowsePaths, RegisterNodes … numbered by the harness)
deriving Repr, DecidableEq

inductive Op where
  | create (timeoutBits : Nat)
  | createBadUrl         -- CreateSession whose endpoint url is null or matches no endpoint
  | activate (t : Tok) (c : Cred)
  | close (t : Tok)
  | service (t : Tok) (s : Svc)
  | discovery
  | setChan (c : Nat)
  | elapse (ms : Nat)
deriving Repr, DecidableEq

inductive Status where
  | BadTooManySessions | BadSessionIdInvalid | BadSessionNotActivated | BadSecureChannelIdInvalid
  | BadUserAccessDenied | BadIdentityTokenInvalid | BadTcpEndpointUrlInvalid
deriving Repr, DecidableEq

inductive Out where
  | created (k : Nat) (revised : Nat)
  | activated
  | closed
  | wrote
  | readv (v : Nat)
  | browsed
  | subscribed (n : Nat)
  | served (k : Nat)
  | discovered
  | done
  | fault (s : Status)
deriving Repr, DecidableEq

def Out.isFault : Out → Bool
  | .fault _ => true
  | _ => false

/-- `MAX_SESSIONS_PER_TRANSPORT` -/
def maxSessions : Nat := 5

/-- `session.authentication_token() == authentication_token` -/
def Tok.matches (t : Tok) (token : Nat) : Bool :=
  match t with
  | .num n => n == token
  | .foreign => false

/-- `SessionManager::find_session_by_token` -/
def find (s : St) (t : Tok) : Option Sess := s.sessions.find? (fun x => t.matches x.token)

/-- the condition tested by `is_session_timed_out`:
`elapsed.num_milliseconds() as f64 > session_timeout && session_timeout > 0.0` -/
def timedOut (x : Sess) : Bool :=
  (F.ofBits x.timeout).ltNat x.idle && (F.ofBits x.timeout).gtNat 0

/-- replace the session carrying `token` -/
def setSess (s : St) (token : Nat) (f : Sess → Sess) : St :=
  { s with sessions := s.sessions.map (fun x => if x.token = token then f x else x) }

/-- user identity check of `activate_session` (the part C20 is about), for the fixture endpoint -/
def credStatus : Cred → Option Status
  | .anon => none
  | .user => none
  | .badpw => some .BadUserAccessDenied
  | .badpol => some .BadIdentityTokenInvalid

/-- `SessionService::activate_session` (status part) -/
def activateResult (s : St) (x : Sess) (c : Cred) : Option Status :=
  match credStatus c with
  | some e => some e
  | none => if !x.activated && x.chan != s.chan then some .BadSecureChannelIdInvalid else none

/-- effect of a representative service executed for session `x` -/
def perform (s : St) (x : Sess) : Svc → St × Out
  | .write v => ({ s with v := v }, .wrote)
  | .read => (s, .readv s.v)
  | .browse => (s, .browsed)
  | .sub => (setSess s x.token (fun y => { y with subs := y.subs + 1 }), .subscribed (x.subs + 1))
  | .other k => (s, .served k)

def step (s : St) : Op → St × Out
  | .createBadUrl =>
    -- the capacity test of `handle_message` comes first, then `create_session` rejects the url
    if s.sessions.length ≥ maxSessions then (s, .fault .BadTooManySessions)
    else (s, .fault .BadTcpEndpointUrlInvalid)
  | .create bits =>
    if s.sessions.length ≥ maxSessions then (s, .fault .BadTooManySessions)
    else
      let k := s.issued + 1
      let rev := reviseTimeout bits
      ({ s with issued := k,
                sessions := s.sessions ++ [{ token := k, activated := false, chan := s.chan, idle := 0,
                                             timeout := rev, term := false, subs := 0 }] },
       .created k rev)
  | .activate t c =>
    match find s t with
    | none => (s, .fault .BadSessionIdInvalid)
    | some x =>
      if timedOut x then (setSess s x.token (fun y => { y with term := true }), .fault .BadSessionIdInvalid)
      else
        match activateResult s x c with
        | some e => (setSess s x.token (fun y => { y with activated := false, idle := 0 }), .fault e)
        | none => (setSess s x.token (fun y => { y with activated := true, chan := s.chan, idle := 0 }), .activated)
  | .close t =>
    match find s t with
    | none => (s, .fault .BadSessionIdInvalid)
    | some x =>
      if !x.activated && x.chan != s.chan then (s, .fault .BadSecureChannelIdInvalid)
      else ({ s with sessions := s.sessions.filter (fun y => y.token != x.token) }, .closed)
  | .service t svc =>
    match find s t with
    | none => (s, .fault .BadSessionIdInvalid)
    | some x =>
      if !x.activated then (s, .fault .BadSessionNotActivated)
      else if x.chan != s.chan then (s, .fault .BadSessionIdInvalid)
      else if timedOut x then (setSess s x.token (fun y => { y with term := true }), .fault .BadSessionIdInvalid)
      else
        let (s', o) := perform s x svc
        (setSess s' x.token (fun y => { y with idle := 0 }), o)
  | .discovery => (s, .discovered)
  | .setChan c => ({ s with chan := c }, .done)
  | .elapse ms => ({ s with sessions := s.sessions.map (fun y => { y with idle := y.idle + ms }) }, .done)

def run (s : St) : List Op → St
  | [] => s
  | op :: ops => run (step s op).1 ops

end OpcuaVerif.C19
