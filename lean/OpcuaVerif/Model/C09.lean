/-
C09 (shared by C08) — model of the secure-channel RECEIVE path
`SecureChannel::verify_and_remove_security_forensic` (lib/src/core/comms/secure_channel.rs:612-761)
with everything it calls:

* `MessageChunkHeader::decode`            (message_chunk.rs:94)
* `AsymmetricSecurityHeader::decode`, `SymmetricSecurityHeader::decode` (security_header.rs)
* `UAString::decode` / `ByteString::decode` (length prefix, limits, UTF-8 validity)
* `asymmetric_decrypt_and_verify`         (secure_channel.rs:907) incl. the block loop of
  `PrivateKey::private_decrypt` (crypto/pkey.rs) and `verify_padding` (secure_channel.rs:863)
* `symmetric_decrypt_and_verify`          (secure_channel.rs:1176) incl. `AesKey::validate_aes_args`
* `update_message_size_and_truncate`

Every index, slice, `unwrap`, `panic!` and checked subtraction on that path is an explicit
`Outcome.panic site`.  OpenSSL (X.509 parsing, RSA, AES-CBC, HMAC) is the parameter `Crypto`:
partial functions whose answers the theorems quantify over.

`Fixes` selects, per repaired defect, the pinned source (`false`) or the current source (`true`);
`current` is what the repository copy contains now, `pinned` the tree before the `fix:` commits.
-/
namespace OpcuaVerif.C09

abbrev Bytes := List Nat

/-- Security policy of a channel (`SecurityPolicy::Unknown` is never stored by the receive path). -/
inductive Policy where
  | none | b128 | b256 | b256s | a128 | a256
deriving Repr, DecidableEq

inductive Mode where
  | none | sign | signEncrypt | invalid
deriving Repr, DecidableEq

inductive Status where
  | badDecodingError | badUnexpectedError | badSecurityPolicyRejected | badCertificateInvalid
  | badNoValidCertificates | badSecurityChecksFailed
deriving Repr, DecidableEq

/-- panic sites of the receive path -/
inductive Site where
  | nullCert       -- `sender_certificate.value.as_ref().unwrap()` on a null certificate
  | noOwnCert      -- `self.cert.as_ref().unwrap()`
  | noOwnKey       -- `self.private_key.as_ref().unwrap()`
  | rsaBlock       -- `&src[src_idx..src_idx + cipher_text_block_size]` in `private_decrypt`
  | rsaDst         -- `&mut dst[dst_idx..dst_idx + cipher_text_block_size]` / copy into `dst`
  | sigUnderflow   -- `encrypted_range.start + decrypted_size - verification_key_signature_size`
  | padIndex       -- `src[padding_end - 1]`, `src[padding_end - 2]`
  | padUnderflow   -- `padding_end - padding_size - 1` / `- 2`
  | symShort       -- `message_size - signature_size`
  | noKeys         -- `self.remote_keys.as_ref().unwrap()`
  | aesBlock       -- `panic!("Block size {} is wrong, check stack")` in `validate_aes_args`
  | aesDst         -- `dst[encrypted_range]` after decryption
deriving Repr, DecidableEq

inductive Outcome where
  | ok (data : Bytes)
  | err (s : Status)
  | panic (site : Site)
  | fuel                    -- model-only: loop fuel exhausted (excluded by `Chan.wf`)
deriving Repr, DecidableEq

/-- The receiver's channel state as far as the receive path reads or writes it. -/
structure Chan where
  policy : Policy
  mode : Mode
  /-- size in bytes of the public key of our certificate (`cert`), if we have one -/
  ownCert : Option Nat
  /-- size in bytes of our private key, if we have one -/
  ownKey : Option Nat
  /-- `derive_keys` has been called (`remote_keys` is `Some`) -/
  keys : Bool
  /-- `DecodingOptions::max_string_length` / `max_byte_string_length` -/
  maxStr : Nat
  maxBs : Nat
deriving Repr, DecidableEq

def Chan.wf (ch : Chan) : Prop := ∀ k, ch.ownKey = some k → 0 < k

/-- the channel signs (and possibly encrypts) its symmetric traffic -/
def Chan.secured (ch : Chan) : Prop := ch.policy ≠ .none ∧ (ch.mode = .sign ∨ ch.mode = .signEncrypt)

instance (ch : Chan) : Decidable ch.secured := by unfold Chan.secured; infer_instance

/-- OpenSSL as abstract partial functions.  The block index / policy arguments only make the
functions more general (the theorems hold for every instance). -/
structure Crypto where
  /-- `X509::from_byte_string` then `public_key()`: `none` = not a certificate,
      `some none` = no public key, `some (some n)` = key of `n` bytes -/
  x509 : Bytes → Option (Option Nat)
  /-- our certificate's SHA-1 thumbprint equals these bytes -/
  thumbEq : Bytes → Bool
  /-- RSA private decryption of ONE cipher-text block (index, block) with the policy's padding -/
  rsaDec : Policy → Nat → Bytes → Option Bytes
  /-- RSA signature verification with the key of certificate `cert` over `data`:
      `none` = OpenSSL error (`BadUnexpectedError`) -/
  rsaVerify : Policy → (cert data sig : Bytes) → Option Bool
  /-- AES-CBC decryption (no padding) of block-aligned input with the remote keys -/
  aesDec : Bytes → Option Bytes
  /-- HMAC verification (algorithm of the policy, remote signing key) -/
  hmacOk : Policy → (data sig : Bytes) → Bool

/-- What the protocol logic needs to know about the primitives. -/
structure CryptoLaws (C : Crypto) : Prop where
  /-- RSA decryption of a block never yields more bytes than the block has -/
  rsaLen : ∀ p i b out, C.rsaDec p i b = some out → out.length ≤ b.length
  /-- AES-CBC without padding preserves the length -/
  aesLen : ∀ b out, C.aesDec b = some out → out.length = b.length
  /-- a certificate is longer than the key it contains -/
  certLen : ∀ c n, C.x509 c = some (some n) → n ≤ c.length

/-- Which of the repaired defects are repaired (`true` = guard present). -/
structure Fixes where
  nullCert : Bool
  ownCred : Bool
  rsaBlock : Bool
  padding : Bool
  symShort : Bool
  aesBlock : Bool
  keys : Bool
  /-- C08: an OPN chunk whose policy differs from that of an already secured channel is rejected -/
  opnPolicy : Bool
  /-- C07: the padding of an encrypted MSG/CLO chunk is verified and stripped -/
  symPadding : Bool
deriving Repr, DecidableEq

def Fixes.pinned : Fixes := ⟨false, false, false, false, false, false, false, false, false⟩
def Fixes.current : Fixes := ⟨true, true, true, true, true, true, true, true, true⟩

/-! ### byte-level helpers -/

def le32 (a b c d : Nat) : Nat := a + 256 * b + 65536 * c + 16777216 * d

def u32le (n : Nat) : Bytes := [n % 256, n / 256 % 256, n / 65536 % 256, n / 16777216 % 256]

/-- `update_message_size`: rewrite bytes 4..8 (the data always holds a valid 12-byte header here) -/
def setSize (d : Bytes) (n : Nat) : Bytes := d.take 4 ++ u32le n ++ d.drop 8

/-- `update_message_size_and_truncate` -/
def setSizeTrunc (d : Bytes) (n : Nat) : Bytes := (setSize d n).take n

def isCont (b : Nat) : Bool := 0x80 ≤ b && b ≤ 0xBF

/-- `String::from_utf8` accepts exactly well-formed UTF-8 (no overlongs, no surrogates, ≤ U+10FFFF);
`fuel` ≥ length. -/
def utf8Valid : Nat → Bytes → Bool
  | _, [] => true
  | 0, _ => false
  | f + 1, b0 :: rest =>
    if b0 < 0x80 then utf8Valid f rest
    else if 0xC2 ≤ b0 ∧ b0 ≤ 0xDF then
      match rest with
      | b1 :: r => isCont b1 && utf8Valid f r
      | _ => false
    else if 0xE0 ≤ b0 ∧ b0 ≤ 0xEF then
      match rest with
      | b1 :: b2 :: r =>
        (if b0 = 0xE0 then (0xA0 ≤ b1 && b1 ≤ 0xBF)
         else if b0 = 0xED then (0x80 ≤ b1 && b1 ≤ 0x9F)
         else isCont b1) && isCont b2 && utf8Valid f r
      | _ => false
    else if 0xF0 ≤ b0 ∧ b0 ≤ 0xF4 then
      match rest with
      | b1 :: b2 :: b3 :: r =>
        (if b0 = 0xF0 then (0x90 ≤ b1 && b1 ≤ 0xBF)
         else if b0 = 0xF4 then (0x80 ≤ b1 && b1 ≤ 0x8F)
         else isCont b1) && isCont b2 && isCont b3 && utf8Valid f r
      | _ => false
    else false

/-- a decoded `UAString` / `ByteString` -/
inductive Fld where
  | null
  | val (b : Bytes)
deriving Repr, DecidableEq

def Fld.bytes : Fld → Bytes
  | .null => []
  | .val b => b

/-- `ByteString::decode` / the length part of `UAString::decode`; `none` = `BadDecodingError` -/
def rdField (max : Nat) (rest : Bytes) : Option (Fld × Bytes) :=
  match rest with
  | a :: b :: c :: d :: r =>
    let n := le32 a b c d
    if n = 4294967295 then some (.null, r)
    else if n ≥ 2147483648 then none
    else if n > max then none
    else if r.length < n then none
    else some (.val (r.take n), r.drop n)
  | _ => none

inductive MType where
  | msg | opn | clo
deriving Repr, DecidableEq

/-- `MessageChunkHeader::decode`: type, final flag, size, channel id; rest of the stream -/
def rdHeader (src : Bytes) : Option (MType × Nat × Bytes) :=
  match src with
  | a :: b :: c :: f :: s0 :: s1 :: s2 :: s3 :: _ :: _ :: _ :: _ :: rest =>
    let t : Option MType :=
      if a = 77 ∧ b = 83 ∧ c = 71 then some .msg
      else if a = 79 ∧ b = 80 ∧ c = 78 then some .opn
      else if a = 67 ∧ b = 76 ∧ c = 79 then some .clo
      else none
    match t with
    | none => none
    | some t =>
      if f = 70 ∨ f = 67 ∨ f = 65 then some (t, le32 s0 s1 s2 s3, rest) else none
  | _ => none

structure AsymHdr where
  uri : Fld
  cert : Fld
  thumb : Fld
deriving Repr, DecidableEq

/-- `AsymmetricSecurityHeader::decode` -/
def rdAsym (ch : Chan) (rest : Bytes) : Option (AsymHdr × Bytes) :=
  match rdField ch.maxStr rest with
  | none => none
  | some (u, r1) =>
    if !(utf8Valid u.bytes.length u.bytes) then none else
    match rdField ch.maxBs r1 with
    | none => none
    | some (c, r2) =>
      match rdField ch.maxBs r2 with
      | none => none
      | some (t, r3) =>
        if c.bytes.length ≥ 32767 then none
        else if t.bytes.length > 0 ∧ t.bytes.length ≠ 20 then none
        else some (⟨u, c, t⟩, r3)

def uriPrefix : Bytes :=
  [104, 116, 116, 112, 58, 47, 47, 111, 112, 99, 102, 111, 117, 110, 100, 97, 116, 105, 111, 110,
   46, 111, 114, 103, 47, 85, 65, 47, 83, 101, 99, 117, 114, 105, 116, 121, 80, 111, 108, 105, 99,
   121, 35]

def Policy.suffix : Policy → Bytes
  | .none => [78, 111, 110, 101]
  | .b128 => [66, 97, 115, 105, 99, 49, 50, 56, 82, 115, 97, 49, 53]
  | .b256 => [66, 97, 115, 105, 99, 50, 53, 54]
  | .b256s => [66, 97, 115, 105, 99, 50, 53, 54, 83, 104, 97, 50, 53, 54]
  | .a128 => [65, 101, 115, 49, 50, 56, 95, 83, 104, 97, 50, 53, 54, 95, 82, 115, 97, 79, 97, 101, 112]
  | .a256 => [65, 101, 115, 50, 53, 54, 95, 83, 104, 97, 50, 53, 54, 95, 82, 115, 97, 80, 115, 115]

def Policy.uri (p : Policy) : Bytes := uriPrefix ++ p.suffix

/-- `SecurityPolicy::from_uri`; `none` = `SecurityPolicy::Unknown` -/
def policyOfUri (u : Bytes) : Option Policy :=
  if u = Policy.none.uri then some .none
  else if u = Policy.b128.uri then some .b128
  else if u = Policy.b256.uri then some .b256
  else if u = Policy.b256s.uri then some .b256s
  else if u = Policy.a128.uri then some .a128
  else if u = Policy.a256.uri then some .a256
  else none

/-- `symmetric_signature_size` -/
def Policy.symSig : Policy → Nat
  | .none => 0
  | .b128 | .b256 => 20
  | _ => 32

/-! ### asymmetric part -/

inductive RsaRes where
  | done (plain : Bytes)
  | fail                    -- OpenSSL rejected a block  → `BadSecurityChecksFailed`
  | panic (s : Site)
  | fuel
deriving Repr, DecidableEq

/-- the `while src_idx < src_len` loop of `PrivateKey::private_decrypt`; `total` = `dst.len()`,
`i` = block index, `acc` = plain text so far (`dst_idx = acc.length`) -/
def rsaLoop (C : Crypto) (p : Policy) (k total : Nat) : Nat → Nat → Bytes → Bytes → RsaRes
  | _, _, [], acc => .done acc
  | 0, _, _ :: _, _ => .fuel
  | f + 1, i, src@(_ :: _), acc =>
    if src.length < k then .panic .rsaBlock
    else if acc.length + k > total then .panic .rsaDst
    else match C.rsaDec p i (src.take k) with
      | none => .fail
      | some out => rsaLoop C p k total f (i + 1) (src.drop k) (acc ++ out)

/-- `verify_padding`; `inl` = early outcome, `inr` = start of the padding range -/
def verifyPadding (F : Fixes) (dst : Bytes) (keySize padEnd : Nat) : Outcome ⊕ Nat :=
  if keySize > 256 then
    if F.padding ∧ (padEnd < 2 ∨ padEnd > dst.length) then .inl (.err .badSecurityChecksFailed)
    else if padEnd < 2 ∨ padEnd > dst.length then .inl (.panic .padIndex)
    else
      let pb := (dst.drop (padEnd - 2)).headD 0
      let epb := (dst.drop (padEnd - 1)).headD 0
      let ps := epb * 256 + pb
      if F.padding ∧ ps + 2 > padEnd then .inl (.err .badSecurityChecksFailed)
      else if ps + 2 > padEnd then .inl (.panic .padUnderflow)
      else
        let start := padEnd - ps - 2
        if ((dst.drop start).take (ps + 1)).all (· == pb) then .inr start
        else .inl (.err .badSecurityChecksFailed)
  else
    if F.padding ∧ (padEnd < 1 ∨ padEnd > dst.length) then .inl (.err .badSecurityChecksFailed)
    else if padEnd < 1 ∨ padEnd > dst.length then .inl (.panic .padIndex)
    else
      let pb := (dst.drop (padEnd - 1)).headD 0
      if F.padding ∧ pb + 1 > padEnd then .inl (.err .badSecurityChecksFailed)
      else if pb + 1 > padEnd then .inl (.panic .padUnderflow)
      else
        let start := padEnd - pb - 1
        if ((dst.drop start).take (pb + 1)).all (· == pb) then .inr start
        else .inl (.err .badSecurityChecksFailed)

/-- `asymmetric_decrypt_and_verify` + the final `update_message_size_and_truncate`.
`start` = offset of the encrypted data, `vk` = size of the sender's public key. -/
def asymDecryptVerify (F : Fixes) (C : Crypto) (ch : Chan) (p : Policy) (src : Bytes) (start : Nat)
    (cert thumb : Bytes) (vk : Nat) : Outcome :=
  match ch.ownCert with
  | none => if F.ownCred then .err .badNoValidCertificates else .panic .noOwnCert
  | some keySize =>
    if !(C.thumbEq thumb) then .err .badNoValidCertificates else
    match ch.ownKey with
    | none => if F.ownCred then .err .badNoValidCertificates else .panic .noOwnKey
    | some k =>
      let enc := src.drop start
      if F.rsaBlock ∧ enc.length % k ≠ 0 then .err .badSecurityChecksFailed else
      match rsaLoop C p k enc.length enc.length 0 enc [] with
      | .panic s => .panic s
      | .fuel => .fuel
      | .fail => .err .badSecurityChecksFailed
      | .done plain =>
        let dsize := plain.length
        if start + dsize > src.length then .panic .rsaDst
        else if start + dsize < vk then .panic .sigUnderflow
        else
          let sigOff := start + dsize - vk
          let dst := src.take start ++ plain ++ List.replicate (src.length - start - dsize) 0
          match C.rsaVerify p cert (dst.take sigOff) ((dst.drop sigOff).take vk) with
          | none => .err .badUnexpectedError
          | some false => .err .badSecurityChecksFailed
          | some true =>
            match verifyPadding F dst keySize sigOff with
            | .inl o => o
            | .inr padStart => .ok (setSizeTrunc dst padStart)

/-- the `OPN` branch of `verify_and_remove_security_forensic` -/
def recvOpn (F : Fixes) (C : Crypto) (ch : Chan) (src : Bytes) (ah : AsymHdr) (start : Nat) :
    Chan × Outcome :=
  if F.opnPolicy ∧ ch.secured ∧ policyOfUri ah.uri.bytes ≠ some ch.policy then
    (ch, .err .badSecurityPolicyRejected)
  else
  match policyOfUri ah.uri.bytes with
  | none => (ch, .err .badSecurityPolicyRejected)
  | some .none => (ch, .ok src)
  | some p =>
    let ch := { ch with policy := p }
    match ah.cert with
    | .null => (ch, if F.nullCert then .err .badCertificateInvalid else .panic .nullCert)
    | .val cert =>
      match C.x509 cert with
      | none => (ch, .err .badCertificateInvalid)
      | some none => (ch, .err .badCertificateInvalid)
      | some (some vk) => (ch, asymDecryptVerify F C ch p src start cert ah.thumb.bytes vk)

/-! ### symmetric part -/

/-- the `MSG`/`CLO` branch: `symmetric_decrypt_and_verify` + strip the signature -/
def recvSym (F : Fixes) (C : Crypto) (ch : Chan) (src : Bytes) (start : Nat) : Outcome :=
  if ch.policy ≠ .none ∧ (ch.mode = .sign ∨ ch.mode = .signEncrypt) then
    let sig := ch.policy.symSig
    let n := src.length
    if F.symShort ∧ n < start + sig then .err .badSecurityChecksFailed
    else if n < sig then .panic .symShort
    else if ch.mode = .sign then
      if !ch.keys then (if F.keys then .err .badSecurityChecksFailed else .panic .noKeys)
      else if C.hmacOk ch.policy (src.take (n - sig)) (src.drop (n - sig)) then
        .ok (setSizeTrunc src (n - sig))
      else .err .badSecurityChecksFailed
    else
      if !ch.keys then (if F.keys then .err .badSecurityChecksFailed else .panic .noKeys)
      else
        let ct := src.drop start
        if ct.length % 16 ≠ 0 then
          (if F.aesBlock then .err .badSecurityChecksFailed else .panic .aesBlock)
        else match C.aesDec ct with
          | none => .err .badUnexpectedError
          | some pt =>
            let encEnd := start + pt.length
            if encEnd > n then .panic .aesDst
            else if encEnd < sig then .panic .symShort
            else
              let dst := src.take start ++ pt ++ List.replicate (n - encEnd) 0
              if C.hmacOk ch.policy (dst.take (n - sig)) ((dst.drop (encEnd - sig)).take sig) then
                if F.symPadding then
                  match verifyPadding F dst sig (encEnd - sig) with
                  | .inl o => o
                  | .inr padStart => .ok (setSizeTrunc dst padStart)
                else .ok (setSizeTrunc dst (encEnd - sig))
              else .err .badSecurityChecksFailed
  else .ok src

/-- `verify_and_remove_security_forensic(src, None)`: new channel state and outcome -/
def recvWith (F : Fixes) (C : Crypto) (ch : Chan) (src : Bytes) : Chan × Outcome :=
  match rdHeader src with
  | none => (ch, .err .badDecodingError)
  | some (.opn, size, rest) =>
    match rdAsym ch rest with
    | none => (ch, .err .badDecodingError)
    | some (ah, rest') =>
      if size ≠ src.length then (ch, .err .badUnexpectedError)
      else recvOpn F C ch src ah (src.length - rest'.length)
  | some (_, size, rest) =>
    match rest with
    | _ :: _ :: _ :: _ :: _ =>
      if size ≠ src.length then (ch, .err .badUnexpectedError)
      else (ch, recvSym F C ch src 16)
    | _ => (ch, .err .badDecodingError)

/-- the receive path of the current source -/
def recv := recvWith Fixes.current

end OpcuaVerif.C09
