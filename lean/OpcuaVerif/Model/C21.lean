import OpcuaVerif.Model.SubMDrv

/-
C21 — histories of one session over the SubM pipeline model, with ghost logs:
`accepted` = ids of the publish requests the session queued (in order), `answered` = request ids of the
publish responses handed to the transport (in order), `sent` = (subscription id, message) of those
responses.  The executable definitions are those of `SubM`.
-/
namespace OpcuaVerif.C21
open OpcuaVerif.SubM

/-- what a client / the timer / the address space can do to the session -/
inductive Op where
  | createSub (priority interval ka life : Nat) (enabled : Bool)
  | deleteSub (sid : Nat)
  | setPublishing (sid : Nat) (enabled : Bool)
  | createItem (sid handle node qsize : Nat) (discardOldest : Bool) (mode : Mode) (sampling : Option Nat)
  | deleteItem (sid iid : Nat)
  | write (node v : Nat)
  | timer (dt : Nat)
  | publish (reqId : Nat) (acks : Option (List (Nat × Nat)))
  | republish (sid seq : Nat)
  | modifySub (sid priority interval ka life : Nat)
  | setMode (sid iid : Nat) (mode : Mode)
  | modifyItem (sid iid handle qsize : Nat) (discardOldest : Bool) (sampling : Option Nat)
  | setTriggering (sid iid : Nat) (add remove : List Nat)
  | resend (sid : Nat)
  | take                                   -- the transport takes the queued publish responses
deriving Repr

structure G where
  ss : Sess
  accepted : List Nat
  answered : List Nat
  sent : List (Nat × Msg)
deriving Repr

def ginit (nodes : List (Nat × Nat)) : G := { ss := init nodes, accepted := [], answered := [], sent := [] }

/-- one step; `none` = the implementation panicked -/
def gstep (c : Cfg) (maxQ : Nat) (g : G) : Op → Option G
  | .createSub p i k l e => some { g with ss := (createSub g.ss p i k l e).1 }
  | .deleteSub sid => some { g with ss := (deleteSub g.ss sid).1 }
  | .setPublishing sid e => some { g with ss := (setPublishing g.ss sid e).1 }
  | .createItem sid h n q d m s => some { g with ss := (createItem g.ss maxQ sid h n q d m s).1 }
  | .deleteItem sid iid => some { g with ss := (deleteItem g.ss sid iid).1 }
  | .write n v => some { g with ss := write g.ss n v }
  | .timer dt => match timer c g.ss dt with
    | .ok ss => some { g with ss := ss }
    | .panic => none
  | .publish rid acks => match publish c g.ss rid acks with
    | .ok (ss, .queued) => some { g with ss := ss, accepted := g.accepted ++ [rid] }
    | .ok (ss, _) => some { g with ss := ss }
    | .panic => none
  | .republish sid seq => some { g with ss := (republish g.ss sid seq).1 }
  | .modifySub sid p i k l => some { g with ss := (modifySub g.ss sid p i k l).1 }
  | .setMode sid iid m => some { g with ss := (setMode g.ss sid iid m).1 }
  | .modifyItem sid iid h q d s =>
    if (modifyItem g.ss maxQ sid iid h q d s).2 = .panic then none
    else some { g with ss := (modifyItem g.ss maxQ sid iid h q d s).1 }
  | .setTriggering sid iid a r => some { g with ss := (setTriggering g.ss sid iid a r).1 }
  | .resend sid => some { g with ss := (resendData g.ss sid).1 }
  | .take =>
    let (ss, rs) := takeResponses g.ss
    some { g with ss := ss, answered := g.answered ++ rs.map (·.reqId),
                  sent := g.sent ++ rs.map fun r => (r.subId, r.msg) }

def grun (c : Cfg) (maxQ : Nat) : G → List Op → Option G
  | g, [] => some g
  | g, op :: ops => match gstep c maxQ g op with
    | some g' => grun c maxQ g' ops
    | none => none

def reqIds (ss : Sess) : List Nat := ss.reqs.map (·.id)
def respIds (ss : Sess) : List Nat := ss.resps.map (·.reqId)

/-- sequence numbers `a+1, a+2, …` -/
def chain : Nat → List Nat → Prop
  | _, [] => True
  | a, x :: xs => x = a + 1 ∧ chain x xs

/-- per subscription: the queued notifications carry consecutive sequence numbers ending at
`lastSeq`, and the next number to hand out is `lastSeq + 1` -/
def SeqInv (s : Subn) : Prop :=
  ∃ base, chain base (s.notifs.map (·.seq)) ∧ base + s.notifs.length = s.lastSeq ∧ s.seqNext = s.lastSeq + 1

end OpcuaVerif.C21
