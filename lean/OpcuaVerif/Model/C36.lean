/-
C36 — model of the client's acknowledgement bookkeeping.

`lib/src/client/session/services/subscriptions/state.rs`:
  `SubscriptionState::{take_acknowledgements, add_acknowledgement, re_queue_acknowledgements,
  handle_notification, add_subscription, delete_subscription}`
`lib/src/client/session/services/subscriptions/service.rs`: `Session::publish` (take the pending
acknowledgements, put them into the PublishRequest (`None` when empty), send; on a
`PublishResponse` call `handle_notification` and return; on anything else re-queue what was taken).

Several `publish()` futures may be in flight at once (`SubscriptionEventLoop` keeps up to
`max_inflight_publish` of them), so a publish is split into its two atomic halves: `start` (up to
the point where the request is handed to the transport) and its completion (`complete`/`fail`).
-/
namespace OpcuaVerif.C36

/-- `SubscriptionAcknowledgement { subscription_id, sequence_number }` -/
abbrev Ack := Nat × Nat

/-- one `publish()` future that has sent its request and waits for the response -/
structure Flight where
  id : Nat
  /-- `acks` local of `publish()`: `None` when nothing was pending -/
  taken : Option (List Ack)
  /-- the future lives in the `FuturesUnordered` of `SubscriptionEventLoop` (otherwise the harness
  awaits it directly) -/
  viaLoop : Bool := false
deriving Repr, DecidableEq

/-- a client-side `Subscription`: what `handle_notification` / `on_notification` / `next_publish_time`
look at -/
structure SubInfo where
  id : Nat
  /-- `publishing_enabled` (constructor argument, `set_publishing_mode`) -/
  enabled : Bool
  /-- a monitored item with the client handle the harness' data notifications carry is present -/
  hasItem : Bool
deriving Repr, DecidableEq

structure State where
  /-- `SubscriptionState::acknowledgements` -/
  pending : List Ack
  /-- `SubscriptionState::subscriptions` (sorted by id, duplicate free) -/
  subs : List SubInfo
  /-- publish futures in flight, oldest first -/
  flights : List Flight
  nextId : Nat
  /-- `AsyncSecureChannel::request_send` is `Some` -/
  connected : Bool
  /-- how often the subscription callback received a data value (`on_data_value`) -/
  callbacks : Nat := 0
  /-- `max_inflight_publish` of the subscription event loop -/
  maxPublish : Nat := 2
  /-- `is_waiting_for_response` of the event loop (set by BadTooManyPublishRequests) -/
  waiting : Bool := false
  /-- `last_publish` lies so far back that the periodic publish is due -/
  aged : Bool := false
  /-- the wake-up time the running turn of the event loop computed (`next`) has been reached -/
  cachedDue : Bool := false
deriving Repr, DecidableEq

def init : State := { pending := [], subs := [], flights := [], nextId := 0, connected := true }

/-- `take_acknowledgements` + the `is_empty` test at the top of `publish()` -/
def takeAcks (s : State) : Option (List Ack) × State :=
  (if s.pending.isEmpty then none else some s.pending, { s with pending := [] })

/-- `re_queue_acknowledgements` guarded by `if let Some(acks) = acks` -/
def requeue (s : State) (taken : Option (List Ack)) : State :=
  match taken with
  | some a => { s with pending := s.pending ++ a }
  | none => s

def BadUnknownResponse : Nat := 0x80090000
def BadTimeout : Nat := 0x800A0000
def BadNotConnected : Nat := 0x808A0000
def BadConnectionClosed : Nat := 0x80AE0000

/-- how a publish request fails -/
inductive FailKind where
  /-- the transport reports `Err(BadTimeout)` -/
  | timeout
  /-- the response callback is dropped (`Request::send` maps it to `BadConnectionClosed`) -/
  | closed
  /-- `Ok(ServiceFault)` with this service result -/
  | fault (status : Nat)
  /-- `Ok(r)` with `r` some other response type -/
  | wrongType
deriving Repr, DecidableEq

/-- `Err(e) => e`, `Ok(r) => process_unexpected_response(r)` -/
def FailKind.status : FailKind → Nat
  | .timeout => BadTimeout
  | .closed => BadConnectionClosed
  | .fault st => st
  | .wrongType => BadUnknownResponse

/-- what the event loop sees of one op -/
inductive Out where
  /-- request handed to the transport: the flight id and the request's `subscription_acknowledgements` -/
  | sent (id : Nat) (acks : Option (List Ack))
  /-- `publish()` returned `Ok(more_notifications)` -/
  | retOk (more : Bool)
  /-- `publish()` returned `Err(status)` (`StatusCode::bits()`) -/
  | retErr (status : Nat)
  /-- not a publish op -/
  | unit
  | badOp
deriving Repr, DecidableEq

/-- first half of `publish()`.  When the channel is not connected `channel.send` fails at once
(`BadNotConnected`) and the taken acknowledgements are re-queued by the same call. -/
def startWith (viaLoop : Bool) (s : State) : Out × State :=
  let (taken, s1) := takeAcks s
  if s.connected then
    (.sent s.nextId taken, { s1 with flights := s1.flights ++ [⟨s.nextId, taken, viaLoop⟩], nextId := s.nextId + 1 })
  else
    (.retErr BadNotConnected, requeue s1 taken)

def start := startWith false

def findFlight : List Flight → Nat → Option Flight
  | [], _ => none
  | f :: fs, id => if f.id == id then some f else findFlight fs id

/-- the completed future leaves the set of futures in flight -/
def removeFlight : List Flight → Nat → List Flight
  | [], _ => []
  | f :: fs, id => if f.id == id then fs else f :: removeFlight fs id

/-- which source text is modelled: the pinned tree (`handle_notification` acknowledges every
message, keep-alives included) or the tree after the `fix:` commit (only messages that carry
notification data are acknowledged). -/
inductive Src where
  | pinned
  | fixed
deriving Repr, DecidableEq

/-- second half, `Ok(SupportedMessage::PublishResponse(r))`: `handle_notification` pushes the
acknowledgement of the received message (whether or not the subscription is known) and
`publish()` returns without touching what it took.  `ka` = the message is a keep-alive
(`notification_data` is `None` or empty). -/
def findSub : List SubInfo → Nat → Option SubInfo
  | [], _ => none
  | x :: xs, id => if x.id == id then some x else findSub xs id

/-- `Subscription::on_notification`: a data change is passed to the callback when the subscription
exists and knows the item's client handle — whether or not its publishing is enabled -/
def delivers (s : State) (sub : Nat) (ka : Bool) : Bool :=
  !ka && (match findSub s.subs sub with
          | some x => x.hasItem
          | none => false)

def completeWith (src : Src) (s : State) (id sub seq : Nat) (more ka : Bool) : Out × State :=
  match findFlight s.flights id with
  | none => (.badOp, s)
  | some _ =>
    let acked : Bool := match src with
      | .pinned => true
      | .fixed => !ka
    -- the acknowledgement is queued first, for every message that carries data: for a known, an unknown,
    -- a deleted, an enabled and a disabled subscription alike
    (.retOk more, { s with flights := removeFlight s.flights id,
                           pending := if acked then s.pending ++ [(sub, seq)] else s.pending,
                           callbacks := if delivers s sub ka then s.callbacks + 1 else s.callbacks })

/-- the source as it is now -/
def complete := completeWith .fixed

/-- second half, every other outcome (`Err(e)` from the channel: timeout / closed; `Ok(r)` with
`r` not a PublishResponse: ServiceFault or a stray response type): re-queue what was taken. -/
def fail (s : State) (id : Nat) (k : FailKind) : Out × State :=
  match findFlight s.flights id with
  | none => (.badOp, s)
  | some f => (.retErr k.status, requeue { s with flights := removeFlight s.flights id } f.taken)

/-- `HashMap::insert`: a subscription with the same id is replaced -/
def insertSorted (x : SubInfo) : List SubInfo → List SubInfo
  | [] => [x]
  | y :: ys => if x.id < y.id then x :: y :: ys else if x.id = y.id then x :: ys else y :: insertSorted x ys

def updateSub (f : SubInfo → SubInfo) (id : Nat) : List SubInfo → List SubInfo
  | [] => []
  | y :: ys => if y.id == id then f y :: ys else y :: updateSub f id ys

inductive Op where
  | start
  | complete (id sub seq : Nat) (more ka : Bool)
  | fail (id : Nat) (k : FailKind)
  | setConnected (c : Bool)
  /-- `add_subscription(Subscription::new(id, …, publishing_enabled, …))` -/
  | addSub (id : Nat) (enabled : Bool)
  | delSub (id : Nat)
  /-- `set_publishing_mode(&[id], enabled)` -/
  | setPub (id : Nat) (enabled : Bool)
  /-- `insert_monitored_items` / `delete_monitored_items` of the item the data notifications refer to -/
  | setItem (id : Nat) (present : Bool)
deriving Repr, DecidableEq

def stepWith (src : Src) (s : State) : Op → Out × State
  | .start => start s
  | .complete id sub seq more ka => completeWith src s id sub seq more ka
  | .fail id k => fail s id k
  | .setConnected c => (.unit, { s with connected := c })
  | .addSub id e => (.unit, { s with subs := insertSorted ⟨id, e, false⟩ s.subs })
  | .delSub id => (.unit, { s with subs := s.subs.filter (fun x => x.id != id) })
  | .setPub id e => (.unit, { s with subs := updateSub (fun x => { x with enabled := e }) id s.subs })
  | .setItem id b => (.unit, { s with subs := updateSub (fun x => { x with hasItem := b }) id s.subs })

def step := stepWith .fixed

/-! ### `SubscriptionEventLoop::run` (client/session/services/subscriptions/event_loop.rs)

The loop owns the publish futures.  It publishes on an external trigger (always), when a response
says `more_notifications` (always), again after a `BadTimeout` (when fewer than
`max_inflight_publish` futures remain) and on the periodic tick (same limit; the tick is held back
while `is_waiting_for_response` is set and a future is in flight); every other failure is only
reported.  Real time enters only through `last_publish`: `aged` says that it lies so far back that
the tick is due; the loop looks at it when a turn starts (after every yielded item) — `cachedDue` —
and resets it whenever it calls `next_publish_time(true)`.
Each op below is one external stimulus followed by polling the stream until it is pending. -/

def BadTooManyPublishRequests : Nat := 0x80780000

/-- what the stream / the transport shows, in order -/
inductive Ev where
  /-- a publish future handed its request to the transport -/
  | sent (id : Nat) (acks : Option (List Ack))
  /-- the stream yielded `SubscriptionActivity::Publish` -/
  | publish
  /-- the stream yielded `SubscriptionActivity::PublishFailed(status)` -/
  | failed (status : Nat)
deriving Repr, DecidableEq

/-- `futures.push(static_publish())` followed by the next poll of the stream: the new future either
hands its request over or (channel not connected) fails at once, which the loop reports -/
def loopStart (s : State) : List Ev × State :=
  match startWith true s with
  | (.sent id acks, s') => ([.sent id acks], s')
  | (.retErr e, s') => ([.failed e], s')
  | (_, s') => ([], s')

/-- number of publish futures the loop holds (`futures.len()`) -/
def loopLen (s : State) : Nat := (s.flights.filter (fun f => f.viaLoop)).length

/-- `next_publish_time(true)`: `last_publish = now` -/
def resetTime (s : State) : State := { s with aged := false, cachedDue := false }

/-- the stream yielded an item; the next turn starts with `next = next_publish_time(false)`, which is
`Some(last_publish + interval)` when a subscription has publishing enabled; with only disabled ones it
is `last_publish + interval · lifetime_count` (the keep-alive timeout), which the harness' `age`
does not reach; `None` without subscriptions -/
def newTurn (s : State) : State := { s with cachedDue := s.aged && s.subs.any (·.enabled) }

def yielded : List Ev → Bool
  | [] => false
  | .sent _ _ :: rest => yielded rest
  | _ :: _ => true

/-- start a pushed future; when it fails at once the failure is an item of the stream -/
def loopStartTurn (s : State) : List Ev × State :=
  let (evs, s1) := loopStart s
  (evs, if yielded evs then newTurn s1 else s1)

/-- the periodic tick, when it is due and not held back -/
def loopTick (s : State) : List Ev × State :=
  if s.cachedDue ∧ ¬ (s.waiting ∧ loopLen s > 0) then
    if loopLen s < s.maxPublish then loopStartTurn (resetTime s) else ([], resetTime s)
  else ([], s)

/-- external trigger: publish whatever the number in flight, then `next_publish_time(true)` -/
def loopTrigger (s : State) : List Ev × State := loopStartTurn (resetTime s)

def findLoopFlight (s : State) (id : Nat) : Option Flight :=
  match findFlight s.flights id with
  | some f => if f.viaLoop then some f else none
  | none => none

/-- a PublishResponse arrives for a future of the loop -/
def loopComplete (s : State) (id sub seq : Nat) (more ka : Bool) : Option (List Ev × State) :=
  match findLoopFlight s id with
  | none => none
  | some _ =>
    let s1 := { (complete s id sub seq more ka).2 with waiting := false }
    if more then
      -- push a publish, `next_publish_time(true)`, yield `Publish`; the next turn starts the future
      let (evs, s2) := loopStartTurn (newTurn (resetTime s1))
      let (tev, s3) := loopTick s2
      some (.publish :: evs ++ tev, s3)
    else
      let (tev, s2) := loopTick (newTurn s1)
      some (.publish :: tev, s2)

/-- `BadTooManyPublishRequests` makes the loop wait for a response before it publishes on a tick -/
def markWaiting (s : State) (status : Nat) : State :=
  if status = BadTooManyPublishRequests then { s with waiting := true } else s

/-- a future of the loop fails -/
def loopFail (s : State) (id : Nat) (k : FailKind) : Option (List Ev × State) :=
  match findLoopFlight s id with
  | none => none
  | some _ =>
    let s1 := markWaiting (fail s id k).2 k.status
    if k.status = BadTimeout ∧ loopLen s1 < s1.maxPublish then
      let (evs, s2) := loopStartTurn (newTurn s1)
      let (tev, s3) := loopTick s2
      some (.failed k.status :: evs ++ tev, s3)
    else
      let (tev, s2) := loopTick (newTurn s1)
      some (.failed k.status :: tev, s2)

/-- time passes: `last_publish` is now more than a publishing interval ago -/
def age (s : State) : State := { s with aged := true }

end OpcuaVerif.C36
