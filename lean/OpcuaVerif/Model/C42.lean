import OpcuaVerif.Model.Text
import OpcuaVerif.Model.C04
/-
C42 — model of the JSON (serde) encoding of the built-in types, at the level of `serde_json::Value`
trees (`to_value` / `from_value`):

* `UAString`, `ByteString`, `Guid`, `DateTime`, `StatusCode` Serialize/Deserialize
  (lib/src/types/string.rs:43-90, byte_string.rs:41-90, guid.rs:24-42, date_time.rs:36-55,289-307, status_code.rs:104-154)
* `NodeId` / `ExpandedNodeId` via `JsonNodeId` / `JsonExpandedNodeId` (node_id.rs:146-275, expanded_node_id.rs:58-190)
* derived impls of `LocalizedText`, `QualifiedName`, `DataValue` (serde derive rules: PascalCase names,
  `skip_serializing_if`, missing `Option`/`UAString` fields, structs accepted from arrays)
* `Variant` (variant_json.rs): `JsonVariant {Type, Body, Dimensions}`, every scalar kind except
  ExtensionObject and DiagnosticInfo; arrays panic on serialisation (`todo`/`panic!`).

JSON numbers are modelled as `serde_json` (feature `arbitrary_precision`) exposes them: an integer
text (`as_u64`/`as_i64`) or a float text identified with the `f64` it parses to (`as_f64`).
`f32` values are written with their shortest decimal (`ryu`) and read back through `f64`:
`widen32` implements exactly that (shortest digits, correctly rounded decimal → binary64).
Floats are IEEE bit patterns (`Nat`), all arithmetic is exact integer arithmetic.
-/
namespace OpcuaVerif.C42
open OpcuaVerif.Text OpcuaVerif.C04

/-! ## JSON trees -/

inductive JNum where
  | int (z : Int)          -- integer-syntax number text
  | flt (bits : Nat)       -- any other number text, as the finite f64 it parses to
deriving Repr, DecidableEq

inductive Json where
  | null
  | bool (b : Bool)
  | num (n : JNum)
  | str (s : List Char)
  | arr (l : List Json)
  | obj (kv : List (List Char × Json))
deriving Repr

/-! ## exact float arithmetic on bit patterns -/

/-- `m / 2^s` rounded to nearest, ties to even -/
def roundShift (m s : Nat) : Nat :=
  if s = 0 then m
  else
    let q := m / 2 ^ s
    let r := m % 2 ^ s
    let half := 2 ^ (s - 1)
    if r > half ∨ (r = half ∧ q % 2 = 1) then q + 1 else q

/-- IEEE bits (precision `p`, `ebits` exponent bits) of the value `±m·2^e` rounded to nearest even;
overflow gives infinity. -/
def toFloatBits (p ebits : Nat) (neg : Bool) (m : Nat) (e : Int) : Nat :=
  let bias : Int := 2 ^ (ebits - 1) - 1
  let emin : Int := 1 - bias - (p - 1 : Nat)
  let signBit := if neg then 2 ^ (p - 1 + ebits) else 0
  if m = 0 then signBit
  else
    let bl := Nat.log2 m + 1
    let q0 : Int := e + bl - p
    let q : Int := if q0 < emin then emin else q0
    let mant0 := if q ≤ e then m * 2 ^ (e - q).toNat else roundShift m (q - e).toNat
    let mant := if mant0 = 2 ^ p then 2 ^ (p - 1) else mant0
    let q := if mant0 = 2 ^ p then q + 1 else q
    if mant < 2 ^ (p - 1) then signBit + mant
    else
      let field := (q - emin + 1).toNat
      if field ≥ 2 ^ ebits - 1 then signBit + (2 ^ ebits - 1) * 2 ^ (p - 1)
      else signBit + field * 2 ^ (p - 1) + (mant - 2 ^ (p - 1))

/-- correctly rounded binary64 of `±d·10^k` (`str::parse::<f64>` on a decimal text) -/
def decToF64 (neg : Bool) (d : Nat) (k : Int) : Nat :=
  if 0 ≤ k then toFloatBits 53 11 neg (d * 10 ^ k.toNat) 0
  else
    let den := 10 ^ (-k).toNat
    let s := Nat.log2 den + 65
    let q := d * 2 ^ s / den
    let sticky := if d * 2 ^ s % den = 0 then 0 else 1
    toFloatBits 53 11 neg (2 * q + sticky) (-(s + 1 : Nat))

/-- classification of an IEEE pattern with `p`-bit precision and `ebits` exponent bits -/
inductive FClass where
  | nan
  | inf (neg : Bool)
  | fin (neg : Bool) (m : Nat) (e : Int)
deriving Repr, DecidableEq

def classify (p ebits : Nat) (bits : Nat) : FClass :=
  let neg := decide (bits / 2 ^ (p - 1 + ebits) % 2 = 1)
  let ex := bits / 2 ^ (p - 1) % 2 ^ ebits
  let fr := bits % 2 ^ (p - 1)
  let bias : Int := 2 ^ (ebits - 1) - 1
  if ex = 2 ^ ebits - 1 then (if fr = 0 then .inf neg else .nan)
  else if ex = 0 then .fin neg fr (1 - bias - (p - 1 : Nat))
  else .fin neg (fr + 2 ^ (p - 1)) ((ex : Int) - bias - (p - 1 : Nat))

def classify32 := classify 24 8
def classify64 := classify 53 11

def nan32 : Nat := 0x7fc00000
def nan64 : Nat := 0x7ff8000000000000
def inf32 (neg : Bool) : Nat := if neg then 0xff800000 else 0x7f800000
def inf64 (neg : Bool) : Nat := if neg then 0xfff0000000000000 else 0x7ff0000000000000

/-- `x as f32` for an f64 pattern -/
def narrow (bits : Nat) : Nat :=
  match classify64 bits with
  | .nan => nan32
  | .inf neg => inf32 neg
  | .fin neg m e => toFloatBits 24 8 neg m e

/-- compare `a·2^ea` with `b·2^eb` (non-negative values): `a·2^ea ≤ b·2^eb` -/
def leScaled (a : Nat) (ea : Int) (b : Nat) (eb : Int) : Bool :=
  let lo := if ea ≤ eb then ea else eb
  decide (a * 2 ^ (ea - lo).toNat ≤ b * 2 ^ (eb - lo).toNat)

/-- `|v| ≤ f32::MAX as f64` for a finite f64 `m·2^e` -/
def inF32Range (m : Nat) (e : Int) : Bool := leScaled m e (2 ^ 24 - 1) 104

/-! ### shortest decimal of an f32 (`ryu`), then read as f64 -/

/-- `a/b ≤ c/d` on non-negative rationals -/
def ratLe (a b c d : Nat) : Bool := decide (a * d ≤ c * b)
def ratLt (a b c d : Nat) : Bool := decide (a * d < c * b)

/-- value `x·2^e` as a fraction -/
def asFrac (x : Nat) (e : Int) : Nat × Nat :=
  if 0 ≤ e then (x * 2 ^ e.toNat, 1) else (x, 2 ^ (-e).toNat)

/-- `c·10^t` as a fraction -/
def decFrac (c : Nat) (t : Int) : Nat × Nat :=
  if 0 ≤ t then (c * 10 ^ t.toNat, 1) else (c, 10 ^ (-t).toNat)

/-- floor(log10 (n/d)) for n/d > 0, searched from a bit-length estimate -/
def floorLog10 (n d : Nat) : Int :=
  let est : Int := (((Nat.log2 n : Int) - (Nat.log2 d : Int)) * 30103) / 100000
  let rec up (fuel : Nat) (t : Int) : Int :=
    match fuel with
    | 0 => t
    | f + 1 =>
      let (pn, pd) := decFrac 1 (t + 1)
      if ratLe pn pd n d then up f (t + 1) else t
  let rec down (fuel : Nat) (t : Int) : Int :=
    match fuel with
    | 0 => t
    | f + 1 =>
      let (pn, pd) := decFrac 1 t
      if ratLt n d pn pd then down f (t - 1) else t
  up 4 (down 4 est)

/-- strip trailing decimal zeros -/
def stripZeros : Nat → Nat → Int → Nat × Int
  | 0, c, t => (c, t)
  | f + 1, c, t => if c ≠ 0 ∧ c % 10 = 0 then stripZeros f (c / 10) (t + 1) else (c, t)

/-- shortest decimal `(digits, exponent)` that identifies the f32 `m·2^e` (`m > 0`), closest to the
exact value among the shortest; `lowHalf` = the lower neighbour is at half distance (m = 2^23). -/
def shortestDec (m : Nat) (e : Int) (lowHalf : Bool) (maxDigits : Nat) : Nat × Int :=
  let (vn, vd) := asFrac (4 * m) (e - 2)
  let (ln, ld) := asFrac (4 * m - (if lowHalf then 1 else 2)) (e - 2)
  let (hn, hd) := asFrac (4 * m + 2) (e - 2)
  let incl := decide (m % 2 = 0)
  let inside (c : Nat) (t : Int) : Bool :=
    let (cn, cd) := decFrac c t
    (if incl then ratLe ln ld cn cd else ratLt ln ld cn cd) &&
    (if incl then ratLe cn cd hn hd else ratLt cn cd hn hd)
  let t0 := floorLog10 vn vd
  let rec go (fuel : Nat) (n : Nat) : Nat × Int :=
    match fuel with
    | 0 => (0, 0)
    | f + 1 =>
      let u : Int := t0 - n + 1
      -- floor(v / 10^u)
      let dlo := if 0 ≤ u then vn / (vd * 10 ^ u.toNat) else vn * 10 ^ (-u).toNat / vd
      let dhi := dlo + 1
      let inLo := inside dlo u
      let inHi := inside dhi u
      -- distance comparison: v - dlo·10^u  vs  dhi·10^u - v   ⇔   2v vs (dlo+dhi)·10^u
      let (sn, sd) := decFrac (dlo + dhi) u
      let loCloser := ratLt (2 * vn) vd sn sd
      let tie := decide (2 * vn * sd = sn * vd)
      if inLo ∧ inHi then
        (if loCloser ∨ (tie ∧ dlo % 2 = 0) then stripZeros 20 dlo u else stripZeros 20 dhi u)
      else if inLo then stripZeros 20 dlo u
      else if inHi then stripZeros 20 dhi u
      else go f (n + 1)
  go maxDigits 1

/-- the f64 that `serde_json` reads back from the number written for a finite f32 -/
def widen32 (bits : Nat) : Nat :=
  match classify32 bits with
  | .fin neg m e =>
    if m = 0 then (if neg then 2 ^ 63 else 0)
    else
      let lowHalf := decide (m = 2 ^ 23 ∧ bits / 2 ^ 23 % 256 > 1)
      let (d, t) := shortestDec m e lowHalf 9
      decToF64 neg d t
  | _ => 0

/-- `as_f64()` of an integer-syntax number -/
def intToF64 (z : Int) : Nat := decToF64 (decide (z < 0)) z.natAbs 0

/-! ## typed values -/

structure DT where
  secs : Int          -- seconds since 1601-01-01T00:00:00Z
  nanos : Nat         -- may exceed 10^9 - 1 by a leap second
deriving Repr, DecidableEq

structure QName where
  ns : Nat
  name : Option (List Char)
deriving Repr, DecidableEq

structure LText where
  locale : Option (List Char)
  text : Option (List Char)
deriving Repr, DecidableEq

mutual
  inductive Var where
    | empty
    | bool (b : Bool)
    | sbyte (v : Int) | byte (v : Int) | i16 (v : Int) | u16 (v : Int)
    | i32 (v : Int) | u32 (v : Int) | i64 (v : Int) | u64 (v : Int)
    | float (bits : Nat)
    | double (bits : Nat)
    | string (s : Option (List Char))
    | dateTime (d : DT)
    | guid (g : List Nat)
    | byteString (b : Option (List Nat))
    | xml (s : Option (List Char))
    | nodeId (n : NodeId)
    | expNodeId (e : ExpNodeId)
    | status (c : Nat)
    | qname (q : QName)
    | ltext (l : LText)
    | dataValue (d : DVal)
    | variant (v : Var)
    | array                       -- any `Variant::Array` (content irrelevant: serialisation panics)
  inductive DVal where
    | mk (value : Option Var) (status : Option Nat) (srcTs : Option DT) (srcPico : Option Nat)
        (srvTs : Option DT) (srvPico : Option Nat)
end

/-! ## serialisation (`to_value`) -/

def optStrJ : Option (List Char) → Json
  | none => .null
  | some s => .str s

def natJ (n : Nat) : Json := .num (.int n)

/-- signed decimal text (`i64::to_string`) -/
def intDec (z : Int) : List Char := if z < 0 then '-' :: toDec z.natAbs else toDec z.natAbs

/-- `DateTime::to_rfc3339()`: `YYYY-MM-DDTHH:MM:SS.mmmZ` (for values within 1601..9999) -/
def printDtMillis (d : DT) : List Char :=
  let days := d.secs.toNat / 86400
  let sod := d.secs.toNat % 86400
  let (y, m, dd) := civilFromDays days
  padDec 4 y ++ '-' :: padDec 2 m ++ '-' :: padDec 2 dd ++ 'T' :: padDec 2 (sod / 3600) ++
    ':' :: padDec 2 (sod / 60 % 60) ++ ':' :: padDec 2 (sod % 60) ++ '.' :: padDec 3 (d.nanos / 1000000 % 1000) ++ ['Z']

def identTypeId : Ident → Option Nat
  | .numeric _ => none
  | .str _ => some 1
  | .guid _ => some 2
  | .bytes _ => some 3

def identIdJ : Ident → Json
  | .numeric n => natJ n
  | .str s => .str (s.getD [])
  | .guid g => .str (printGuid g)
  | .bytes b => .str (b64Encode (b.getD []))

def kType : List Char := ['T', 'y', 'p', 'e']
def kId : List Char := ['I', 'd']
def kNamespace : List Char := ['N', 'a', 'm', 'e', 's', 'p', 'a', 'c', 'e']
def kServerUri : List Char := ['S', 'e', 'r', 'v', 'e', 'r', 'U', 'r', 'i']
def kBody : List Char := ['B', 'o', 'd', 'y']
def kDimensions : List Char := ['D', 'i', 'm', 'e', 'n', 's', 'i', 'o', 'n', 's']
def kUri : List Char := ['U', 'r', 'i']
def kName : List Char := ['N', 'a', 'm', 'e']
def kLocale : List Char := ['L', 'o', 'c', 'a', 'l', 'e']
def kText : List Char := ['T', 'e', 'x', 't']
def kValue : List Char := ['V', 'a', 'l', 'u', 'e']
def kStatus : List Char := ['S', 't', 'a', 't', 'u', 's']
def kSourceTimestamp : List Char := ['S', 'o', 'u', 'r', 'c', 'e', 'T', 'i', 'm', 'e', 's', 't', 'a', 'm', 'p']
def kSourcePicoseconds : List Char :=
  ['S', 'o', 'u', 'r', 'c', 'e', 'P', 'i', 'c', 'o', 's', 'e', 'c', 'o', 'n', 'd', 's']
def kServerTimestamp : List Char := ['S', 'e', 'r', 'v', 'e', 'r', 'T', 'i', 'm', 'e', 's', 't', 'a', 'm', 'p']
def kServerPicoseconds : List Char :=
  ['S', 'e', 'r', 'v', 'e', 'r', 'P', 'i', 'c', 'o', 's', 'e', 'c', 'o', 'n', 'd', 's']

/-- an optional field: present only when `some` (`skip_serializing_if = "Option::is_none"`) -/
def optField (k : List Char) : Option Json → List (List Char × Json)
  | none => []
  | some j => [(k, j)]

def nodeIdJ (n : NodeId) : Json :=
  .obj (optField kType ((identTypeId n.id).map natJ) ++ [(kId, identIdJ n.id)] ++
    optField kNamespace (if n.ns = 0 then none else some (natJ n.ns)))

/-- the `Namespace` field of an ExpandedNodeId.  `uriJson = true` (current source): a non-null
namespace uri is written as a JSON string; otherwise (and always in the pinned source) the index,
omitted when 0 -/
def nsFieldJ (uriJson : Bool) (uri : Option (List Char)) (ns : Nat) : Option Json :=
  match uriJson, uri with
  | true, some u => some (.str u)
  | _, _ => if ns = 0 then none else some (natJ ns)

def expNodeIdJ (uriJson : Bool) (e : ExpNodeId) : Json :=
  .obj (optField kType ((identTypeId e.node.id).map natJ) ++ [(kId, identIdJ e.node.id)] ++
    optField kNamespace (nsFieldJ uriJson e.uri e.node.ns) ++
    optField kServerUri (if e.svr = 0 then none else some (natJ e.svr)))

def qnameJ (q : QName) : Json := .obj [(kUri, natJ q.ns), (kName, optStrJ q.name)]

def ltextJ (l : LText) : Json := .obj [(kLocale, optStrJ l.locale), (kText, optStrJ l.text)]

def byteStringJ : Option (List Nat) → Json
  | none => .null
  | some b => .str (b64Encode b)

def float32J (bits : Nat) : Json :=
  match classify32 bits with
  | .nan => .str ['N', 'a', 'N']
  | .inf false => .str ['I', 'n', 'f', 'i', 'n', 'i', 't', 'y']
  | .inf true => .str ['-', 'I', 'n', 'f', 'i', 'n', 'i', 't', 'y']
  | .fin _ _ _ => .num (.flt (widen32 bits))

def float64J (bits : Nat) : Json :=
  match classify64 bits with
  | .nan => .str ['N', 'a', 'N']
  | .inf false => .str ['I', 'n', 'f', 'i', 'n', 'i', 't', 'y']
  | .inf true => .str ['-', 'I', 'n', 'f', 'i', 'n', 'i', 't', 'y']
  | .fin _ _ _ => .num (.flt bits)

/-- `mask` = union of all defined StatusCode bits.  The flags select the pinned (false) or the repaired
(true) source: `xmlNull` a missing XmlElement body read as the null XmlElement; `floatRounded` the Float
range test applied to the value rounded to f32; `uriJson` the ExpandedNodeId namespace uri written/read
as the string form of `Namespace`; `arrayErr` serialising an array variant is an error, not a panic. -/
structure Cfg where
  mask : Nat
  xmlNull : Bool
  floatRounded : Bool
  uriJson : Bool
  arrayErr : Bool

def variantJ (id : Nat) (body : Option Json) : Json :=
  .obj ((kType, natJ id) :: optField kBody body)

def bindJ (r : Res Json) (f : Json → Json) : Res Json :=
  match r with
  | .ok j => .ok (f j)
  | .err => .err
  | .panic => .panic

mutual
  /-- `to_value(&Variant)`; `panic` = the serialiser panics (arrays) -/
  def varJ (cfg : Cfg) : Var → Res Json
    | .empty => .ok (variantJ 0 none)
    | .bool b => .ok (variantJ 1 (some (.bool b)))
    | .sbyte v => .ok (variantJ 2 (some (.num (.int v))))
    | .byte v => .ok (variantJ 3 (some (.num (.int v))))
    | .i16 v => .ok (variantJ 4 (some (.num (.int v))))
    | .u16 v => .ok (variantJ 5 (some (.num (.int v))))
    | .i32 v => .ok (variantJ 6 (some (.num (.int v))))
    | .u32 v => .ok (variantJ 7 (some (.num (.int v))))
    | .i64 v => .ok (variantJ 8 (some (.str (intDec v))))
    | .u64 v => .ok (variantJ 9 (some (.str (intDec v))))
    | .float b => .ok (variantJ 10 (some (float32J b)))
    | .double b => .ok (variantJ 11 (some (float64J b)))
    | .string s => .ok (variantJ 12 (some (optStrJ s)))
    | .dateTime d => .ok (variantJ 13 (some (.str (printDtMillis d))))
    | .guid g => .ok (variantJ 14 (some (.str (printGuid g))))
    | .byteString b => .ok (variantJ 15 (some (byteStringJ b)))
    | .xml s => .ok (variantJ 16 (some (optStrJ s)))
    | .nodeId n => .ok (variantJ 17 (some (nodeIdJ n)))
    | .expNodeId e => .ok (variantJ 18 (some (expNodeIdJ cfg.uriJson e)))
    | .status c => .ok (variantJ 19 (some (natJ c)))
    | .qname q => .ok (variantJ 20 (some (qnameJ q)))
    | .ltext l => .ok (variantJ 21 (some (ltextJ l)))
    | .dataValue d => bindJ (dvalJ cfg d) (fun j => variantJ 23 (some j))
    | .variant v => bindJ (varJ cfg v) (fun j => variantJ 24 (some j))
    | .array => if cfg.arrayErr then .err else .panic
  /-- `to_value(&DataValue)` -/
  def dvalJ (cfg : Cfg) : DVal → Res Json
    | .mk (some v) st sts sp vts vp =>
      bindJ (varJ cfg v) (fun j => .obj ((kValue, j) :: dvalRest st sts sp vts vp))
    | .mk none st sts sp vts vp => .ok (.obj (dvalRest st sts sp vts vp))
  /-- the five non-recursive fields -/
  def dvalRest (st : Option Nat) (sts : Option DT) (sp : Option Nat) (vts : Option DT) (vp : Option Nat) :
      List (List Char × Json) :=
    optField kStatus (st.map natJ) ++ optField kSourceTimestamp (sts.map fun d => .str (printDtMillis d)) ++
    optField kSourcePicoseconds (sp.map natJ) ++ optField kServerTimestamp (vts.map fun d => .str (printDtMillis d)) ++
    optField kServerPicoseconds (vp.map natJ)
end

/-! ## deserialisation (`from_value`) -/

def lookup (k : List Char) : List (List Char × Json) → Option Json
  | [] => none
  | (k', v) :: r => if k' = k then some v else lookup k r

/-- fields of a derived struct: from an object by name (unknown keys ignored), or from an array of
exactly the right length by position; `none` = not a struct -/
def structFields (names : List (List Char)) : Json → Option (List (Option Json))
  | .obj kv => some (names.map fun k => lookup k kv)
  | .arr l => if l.length = names.length then some (l.map some) else none
  | _ => none

/-- `Option<…>` field: missing or `null` is `None` -/
def optPresent : Option Json → Option Json
  | none => none
  | some .null => none
  | some j => some j

/-- strict unsigned integer (`u16`/`u32` Deserialize) -/
def uintJ (max : Nat) : Json → Option Nat
  | .num (.int z) => if 0 ≤ z ∧ z ≤ max then some z.toNat else none
  | _ => none

/-- `Value::as_u64` -/
def asU64 : Json → Option Nat
  | .num (.int z) => if 0 ≤ z ∧ z ≤ 18446744073709551615 then some z.toNat else none
  | _ => none

/-- `Value::as_i64` -/
def asI64 : Json → Option Int
  | .num (.int z) => if -9223372036854775808 ≤ z ∧ z ≤ 9223372036854775807 then some z else none
  | _ => none

/-- `Value::as_f64` (finite f64 bits) -/
def asF64 : Json → Option Nat
  | .num (.int z) =>
    let b := intToF64 z
    match classify64 b with
    | .fin _ _ _ => some b
    | _ => none
  | .num (.flt b) => some b
  | _ => none

def asStr : Json → Option (List Char)
  | .str s => some s
  | _ => none

/-- `UAString` Deserialize (through `deserialize_option`): null → null string -/
def uaStringJ : Option Json → Option (Option (List Char))
  | none => some none
  | some .null => some none
  | some (.str s) => some (some s)
  | some _ => none

def byteStringFromJ : Option Json → Option (Option (List Nat))
  | none => some none
  | some .null => some none
  | some (.str s) => (b64Decode (utf8 s)).map some
  | some _ => none

/-- `str::parse::<i64>()` -/
def parseI64 (cs : List Char) : Option Int :=
  match cs with
  | '-' :: r =>
    if r.isEmpty || !r.all isDigit then none
    else if digitsVal r ≤ 9223372036854775808 then some (-(digitsVal r : Int)) else none
  | _ => (parseUnsigned 9223372036854775807 cs).map Int.ofNat

/-! ### RFC 3339 (chrono `parse_rfc3339`, strict) -/

/-- exactly `n` ASCII digits (`scan::number(s, n, n)`) -/
def digitsN (n : Nat) (cs : List Char) : Option (Nat × List Char) := takeDigitsN n cs

/-- `scan::nanosecond`: 1.. digits, the first nine count -/
def scanNanos (cs : List Char) : Option (Nat × List Char) :=
  let ds := (spanP isDigit cs).1
  let rest := (spanP isDigit cs).2
  if ds.isEmpty then none
  else
    let used := ds.take 9
    some (digitsVal (used ++ List.replicate (9 - used.length) '0'), rest)

/-- `scan::timezone_offset(s, colon, allow_zulu, !allow_missing_minutes, allow U+2212)`: seconds east -/
def scanOffset (cs : List Char) : Option (Int × List Char) :=
  match cs with
  | 'Z' :: r => some (0, r)
  | 'z' :: r => some (0, r)
  | sg :: r =>
    if sg = '+' ∨ sg = '-' ∨ sg = Char.ofNat 0x2212 then
      match digitsN 2 r with
      | none => none
      | some (h, r1) =>
        match r1 with
        | ':' :: r2 =>
          match r2 with
          | m1 :: m2 :: r3 =>
            if isDigit m1 ∧ isDigit m2 then
              if digitVal m1 ≤ 5 then
                let secs : Int := h * 3600 + (digitVal m1 * 10 + digitVal m2) * 60
                some (if sg = '+' then secs else -secs, r3)
              else none
            else none
          | _ => none
        | _ => none
    else none
  | [] => none

def endSecs : Int := 265046774399      -- 9999-12-31T23:59:59Z in seconds since 1601

/-- `DateTime::parse_from_rfc3339`: chrono's strict parser, conversion to UTC, clipping to
[1601-01-01, 9999-12-31T23:59:59]. -/
def parseDtJ (cs : List Char) : Option DT :=
  match digitsN 4 cs with
  | none => none
  | some (y, cs) =>
  match expectChar '-' cs with
  | none => none
  | some cs =>
  match digitsN 2 cs with
  | none => none
  | some (mo, cs) =>
  match expectChar '-' cs with
  | none => none
  | some cs =>
  match digitsN 2 cs with
  | none => none
  | some (d, cs) =>
  match cs with
  | [] => none
  | sep :: cs =>
  if ¬ (sep = 'T' ∨ sep = 't' ∨ sep = ' ') then none else
  match twoThen ':' cs with
  | none => none
  | some (h, cs) =>
  match twoThen ':' cs with
  | none => none
  | some (mi, cs) =>
  match digitsN 2 cs with
  | none => none
  | some (s, cs) =>
  let frac : Option (Nat × List Char) :=
    match cs with
    | '.' :: r => scanNanos r
    | r => some (0, r)
  match frac with
  | none => none
  | some (ns, cs) =>
  match scanOffset cs with
  | none => none
  | some (off, rest) =>
    if rest ≠ [] then none
    else if off < -86340 ∨ off > 86340 then none
    else if mo < 1 ∨ mo > 12 ∨ d < 1 ∨ d > daysInMonth y mo ∨ h > 23 ∨ mi > 59 ∨ s > 60 then none
    else
      let sec := if s = 60 then 59 else s
      let nanos := if s = 60 then ns + 1000000000 else ns
      let loc : Int := daysFromCivil y mo d * 86400 + (h * 3600 + mi * 60 + sec : Nat)
      let utc := loc - off
      if utc < 0 then some ⟨0, 0⟩
      else if utc > endSecs ∨ (utc = endSecs ∧ nanos > 0) then some ⟨endSecs, 0⟩
      else some ⟨utc, nanos⟩

def dtFromJ : Json → Option DT
  | .str s => parseDtJ s
  | _ => none

/-! ### node ids -/

def identFromJ (t : Nat) (id : Json) : Option Ident :=
  if t = 0 then (asU64 id).map fun v => .numeric (v % 4294967296)
  else if t = 1 then
    match asStr id with
    | some s => if s.isEmpty then none else some (.str (some s))
    | none => none
  else if t = 2 then
    match asStr id with
    | some s => if s.isEmpty then none else (parseGuid (utf8 s)).map Ident.guid
    | none => none
  else if t = 3 then
    match asStr id with
    | some s => if s.isEmpty then none else (b64Decode (utf8 s)).map fun b => .bytes (some b)
    | none => none
  else none

/-- optional numeric index field (`Namespace`, `ServerUri`): absent → 0 -/
def indexField (max : Nat) : Option Json → Option Nat
  | none => some 0
  | some j =>
    match asU64 j with
    | some v => if v > max then none else some v
    | none => none

/-- `Option<u32>` field -/
def optU (max : Nat) : Option Json → Option (Option Nat)
  | none => some none
  | some j => (uintJ max j).map some

def nodeIdFromJ (j : Json) : Option NodeId :=
  match structFields [kType, kId, kNamespace] j with
  | some [t, id, ns] =>
    match optU 4294967295 (optPresent t), id, indexField 65535 (optPresent ns) with
    | some t, some id, some ns => (identFromJ (t.getD 0) id).map fun i => ⟨ns, i⟩
    | _, _, _ => none
  | _ => none

/-- reading the `Namespace` field: a JSON string is the uri (current source), a number the index -/
def nsUriFromJ (uriJson : Bool) (o : Option Json) : Option (Nat × Option (List Char)) :=
  match uriJson, o with
  | true, some (.str u) => some (0, some u)
  | _, n => (indexField 65535 n).map fun i => (i, none)

def expNodeIdFromJ (uriJson : Bool) (j : Json) : Option ExpNodeId :=
  match structFields [kType, kId, kNamespace, kServerUri] j with
  | some [t, id, ns, su] =>
    match optU 4294967295 (optPresent t), id, nsUriFromJ uriJson (optPresent ns),
        indexField 4294967295 (optPresent su) with
    | some t, some id, some (ns, uri), some svr => (identFromJ (t.getD 0) id).map fun i => ⟨⟨ns, i⟩, uri, svr⟩
    | _, _, _, _ => none
  | _ => none

def qnameFromJ (j : Json) : Option QName :=
  match structFields [kUri, kName] j with
  | some [u, n] =>
    match u.bind (uintJ 65535), uaStringJ n with
    | some ns, some name => some ⟨ns, name⟩
    | _, _ => none
  | _ => none

def ltextFromJ (j : Json) : Option LText :=
  match structFields [kLocale, kText] j with
  | some [l, t] =>
    match uaStringJ l, uaStringJ t with
    | some l, some t => some ⟨l, t⟩
    | _, _ => none
  | _ => none

/-- `StatusCode` Deserialize: `deserialize_u32` on a `Value` parses the number text as `u32` (strict),
then `from_bits_truncate` keeps the bits in `mask` (the union of all defined flags). -/
def statusFromJ (mask : Nat) (j : Json) : Option Nat :=
  (uintJ 4294967295 j).map fun c => Nat.land c mask

/-- integer body of the small integer variants: missing body is 0 -/
def intBody (signed : Bool) (lo hi : Int) : Option Json → Option Int
  | none => some 0
  | some j =>
    match (if signed then asI64 j else (asU64 j).map Int.ofNat) with
    | some v => if v < lo ∨ v > hi then none else some v
    | none => none

/-- `numeric_f64`: result as an f64 pattern -/
def f64Body (isF32 : Bool) : Option Json → Option Nat
  | none => some 0
  | some (.str s) =>
    if s = ['I', 'n', 'f', 'i', 'n', 'i', 't', 'y'] then some (inf64 false)
    else if s = ['-', 'I', 'n', 'f', 'i', 'n', 'i', 't', 'y'] then some (inf64 true)
    else if s = ['N', 'a', 'N'] then some nan64
    else none
  | some j =>
    match asF64 j with
    | some b =>
      match classify64 b with
      | .fin _ m e => if isF32 ∧ !inF32Range m e then none else some b
      | _ => none
    | none => none

def optDt : Option Json → Option (Option DT)
  | none => some none
  | some j => (dtFromJ j).map some

def optStatus (mask : Nat) : Option Json → Option (Option Nat)
  | none => some none
  | some j => (statusFromJ mask j).map some

/-- Float body → f32 pattern -/
def floatBody (cfg : Cfg) (body : Option Json) : Option Nat :=
  if cfg.floatRounded then
    match f64Body false body with
    | some b =>
      match classify64 b, classify32 (narrow b) with
      | .fin _ _ _, .inf _ => none
      | _, _ => some (narrow b)
    | none => none
  else (f64Body true body).map narrow

def requireJ {α : Type} (f : Json → Option α) : Option Json → Option α
  | none => none
  | some j => f j

def okOr {α : Type} (f : α → Var) : Option α → Res Var
  | some a => .ok (f a)
  | none => .err

mutual
  /-- `from_value::<Variant>`; fuel bounds the nesting -/
  def varFromJ (cfg : Cfg) : Nat → Json → Res Var
    | 0, _ => .err
    | _ + 1, .null => .ok .empty
    | fuel + 1, j =>
      match structFields [kType, kBody, kDimensions] j with
      | some [t, body, dims] =>
        match t.bind (uintJ 4294967295) with
        | none => .err
        | some t =>
          let body := optPresent body
          match optPresent dims with
          | some _ => .err
          | none =>
            match t with
            | 0 => if body.isSome then .err else .ok .empty
            | 1 =>
              match body with
              | some (.bool b) => .ok (.bool b)
              | _ => .err
            | 2 => okOr Var.sbyte (intBody true (-128) 127 body)
            | 3 => okOr Var.byte (intBody false 0 255 body)
            | 4 => okOr Var.i16 (intBody true (-32768) 32767 body)
            | 5 => okOr Var.u16 (intBody false 0 65535 body)
            | 6 => okOr Var.i32 (intBody true (-2147483648) 2147483647 body)
            | 7 => okOr Var.u32 (intBody false 0 4294967295 body)
            | 8 =>
              match body with
              | none => .ok (.i64 0)
              | some (.str s) => okOr Var.i64 (parseI64 s)
              | some _ => .err
            | 9 =>
              match body with
              | none => .ok (.u64 0)
              | some (.str s) => okOr (fun n => Var.u64 (Int.ofNat n)) (parseUnsigned 18446744073709551615 s)
              | some _ => .err
            | 10 => okOr Var.float (floatBody cfg body)
            | 11 => okOr Var.double (f64Body false body)
            | 12 => okOr Var.string (uaStringJ body)
            | 13 => okOr Var.dateTime (requireJ dtFromJ body)
            | 14 => okOr Var.guid (requireJ (fun j => (asStr j).bind fun s => parseGuid (utf8 s)) body)
            | 15 => okOr Var.byteString (byteStringFromJ body)
            | 16 =>
              match body with
              | none => if cfg.xmlNull then .ok (.xml none) else .err
              | some j => okOr Var.xml (uaStringJ (some j))
            | 17 => okOr Var.nodeId (requireJ nodeIdFromJ body)
            | 18 => okOr Var.expNodeId (requireJ (expNodeIdFromJ cfg.uriJson) body)
            | 19 => okOr (fun c => Var.status (Nat.land c cfg.mask)) (requireJ (uintJ 4294967295) body)
            | 20 => okOr Var.qname (requireJ qnameFromJ body)
            | 21 => okOr Var.ltext (requireJ ltextFromJ body)
            | 23 =>
              match body with
              | none => .err
              | some b =>
                match dvalFromJ cfg fuel b with
                | .ok d => .ok (.dataValue d)
                | .err => .err
                | .panic => .panic
            | 24 =>
              match body with
              | none => .err
              | some b =>
                match varFromJ cfg fuel b with
                | .ok v => .ok (.variant v)
                | .err => .err
                | .panic => .panic
            | _ => .err
      | _ => .err
  /-- `from_value::<DataValue>` -/
  def dvalFromJ (cfg : Cfg) : Nat → Json → Res DVal
    | 0, _ => .err
    | fuel + 1, j =>
      match structFields [kValue, kStatus, kSourceTimestamp, kSourcePicoseconds, kServerTimestamp,
          kServerPicoseconds] j with
      | some [v, st, sts, sp, vts, vp] =>
        match optStatus cfg.mask (optPresent st), optDt (optPresent sts), optU 65535 (optPresent sp),
            optDt (optPresent vts), optU 65535 (optPresent vp) with
        | some st, some sts, some sp, some vts, some vp =>
          match optPresent v with
          | none => .ok (.mk none st sts sp vts vp)
          | some jv =>
            match varFromJ cfg fuel jv with
            | .ok x => .ok (.mk (some x) st sts sp vts vp)
            | .err => .err
            | .panic => .panic
        | _, _, _, _, _ => .err
      | _ => .err
end

/-- the CURRENT source (after the four `fix:` commits) -/
def current (mask : Nat) : Cfg := ⟨mask, true, true, true, true⟩

/-- the pinned source -/
def pinned (mask : Nat) : Cfg := ⟨mask, false, false, false, false⟩

mutual
  /-- nesting depth, the fuel `varFromJ` needs -/
  def Var.depth : Var → Nat
    | .dataValue d => d.depth + 1
    | .variant v => v.depth + 1
    | _ => 1
  def DVal.depth : DVal → Nat
    | .mk (some v) _ _ _ _ _ => v.depth + 1
    | .mk none _ _ _ _ _ => 1
end

end OpcuaVerif.C42
