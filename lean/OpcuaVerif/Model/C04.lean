import OpcuaVerif.Model.Text
/-
C04 — model of the textual forms of identifiers:

* `Identifier`/`NodeId` `Display` + `FromStr`            (lib/src/types/node_id.rs:37-66, 136-144, 378-417)
* `ExpandedNodeId` `Display` + `FromStr`                   (lib/src/types/expanded_node_id.rs:354-433)
* `Guid` `Debug`(hyphenated) + `FromStr` (uuid 1.10 `parser.rs::try_parse`)   (lib/src/types/guid.rs)
* `ByteString::as_base64/from_base64` (base64 0.21 STANDARD engine)            (lib/src/types/byte_string.rs:219-235)
* `NumericRange::as_string/from_str/parse_range`           (lib/src/types/numeric_range.rs:158-262)
* `DateTime` `Display` (chrono `to_rfc3339`, AutoSi) and `FromStr` restricted to the printed grammar
  (lib/src/types/date_time.rs:159-208)

The three `regex` patterns are re-expressed as hand-written matchers with the crate's
leftmost-first semantics.  The `…With` functions take flags selecting the pinned (defective)
behaviour or the repaired one; the un-suffixed functions are the CURRENT source (after the three
`fix:` commits) and are what the driver executes.
-/
namespace OpcuaVerif.C04
open OpcuaVerif.Text

/-! ## values -/

inductive Ident where
  | numeric (n : Nat)
  | str (s : Option (List Char))      -- UAString, `none` = null
  | guid (g : List Nat)               -- 16 bytes
  | bytes (b : Option (List Nat))     -- ByteString, `none` = null
deriving Repr, DecidableEq

structure NodeId where
  ns : Nat
  id : Ident
deriving Repr, DecidableEq

structure ExpNodeId where
  node : NodeId
  uri : Option (List Char)            -- UAString, `none` = null
  svr : Nat
deriving Repr, DecidableEq

/-! ## Guid text (uuid crate) -/

def hexOf (bs : List Nat) : List Char := bs.flatMap hex2

/-- `Uuid::hyphenated()` lower case: 8-4-4-4-12 -/
def printGuid (g : List Nat) : List Char :=
  hexOf (g.take 4) ++ '-' :: hexOf ((g.drop 4).take 2) ++ '-' :: hexOf ((g.drop 6).take 2) ++
    '-' :: hexOf ((g.drop 8).take 2) ++ '-' :: hexOf (g.drop 10)

/-- `parse_simple` (bytes of the text) -/
def parseSimple (s : List Nat) : Option (List Nat) :=
  if s.length ≠ 32 then none else hexPairs s

def seg (s : List Nat) (i : Nat) : List Nat := (s.drop i).take 4

/-- `parse_hyphenated`: hyphens (byte 45) at 8, 13, 18, 23 and hex quads at the eight positions -/
def parseHyphenated (s : List Nat) : Option (List Nat) :=
  if s.length ≠ 36 then none
  else if s[8]? = some 45 ∧ s[13]? = some 45 ∧ s[18]? = some 45 ∧ s[23]? = some 45 then
    hexPairs (seg s 0 ++ seg s 4 ++ seg s 9 ++ seg s 14 ++ seg s 19 ++ seg s 24 ++ seg s 28 ++ seg s 32)
  else none

/-- "urn:uuid:" -/
def urnPrefix : List Nat := [117, 114, 110, 58, 117, 117, 105, 100, 58]

/-- `uuid::parser::try_parse` over the UTF-8 bytes of the text -/
def parseGuid (s : List Nat) : Option (List Nat) :=
  if s.length = 32 then parseSimple s
  else if s.length = 36 then parseHyphenated s
  else if s.length = 38 ∧ s.head? = some 123 ∧ s.getLast? = some 125 then
    parseHyphenated ((s.drop 1).take 36)
  else if s.length = 45 ∧ s.take 9 = urnPrefix then parseHyphenated (s.drop 9)
  else none

/-! ## Identifier -/

def printIdent : Ident → List Char
  | .numeric n => 'i' :: '=' :: toDec n
  | .str (some s) => 's' :: '=' :: s
  | .str none => ['s', '=', '[', 'n', 'u', 'l', 'l', ']']
  | .guid g => 'g' :: '=' :: printGuid g
  | .bytes (some b) => 'b' :: '=' :: b64Encode b
  | .bytes none => ['b', '=']

/-- `Identifier::from_str`.  `guard = false` is the pinned source: `&s[..2]` panics when byte 2 is
not a char boundary. -/
def identFromStrWith (guard : Bool) (s : List Char) : Res Ident :=
  if utf8Len s < 2 then .err
  else match splitAtByte s 2 with
    | none => if guard then .err else .panic
    | some (k, v) =>
      if k = ['i', '='] then
        match parseUnsigned 4294967295 v with
        | some n => .ok (.numeric n)
        | none => .err
      else if k = ['s', '='] then .ok (.str (some v))
      else if k = ['g', '='] then
        match parseGuid (utf8 v) with
        | some g => .ok (.guid g)
        | none => .err
      else if k = ['b', '='] then
        match b64Decode (utf8 v) with
        | some b => .ok (.bytes (some b))
        | none => .err
      else .err

def identFromStr := identFromStrWith true

/-! ## NodeId -/

def printNodeId (n : NodeId) : List Char :=
  if n.ns ≠ 0 then ['n', 's', '='] ++ toDec n.ns ++ ';' :: printIdent n.id else printIdent n.id

/-- `[isgb]=.+` up to the end of the text; `dotAll = false`: `.` does not match `\n` -/
def matchT (dotAll : Bool) : List Char → Bool
  | k :: '=' :: v =>
    (k = 'i' || k = 's' || k = 'g' || k = 'b') && !v.isEmpty && (dotAll || v.all (· ≠ '\n'))
  | _ => false

/-- `<lit>[0-9]+;` at the start: returns the digits and the rest -/
def digitsSemi (lit : List Char) (cs : List Char) : Option (List Char × List Char) :=
  match stripPrefix? lit cs with
  | none => none
  | some r =>
    match spanP isDigit r with
    | (d, ';' :: r') => if d.isEmpty then none else some (d, r')
    | _ => none

/-- `^(ns=(?P<ns>[0-9]+);)?(?P<t>[isgb]=.+)$` — leftmost-first: the optional group is tried first -/
def nodeIdRe (dotAll : Bool) (cs : List Char) : Option (Option (List Char) × List Char) :=
  match digitsSemi ['n', 's', '='] cs with
  | some (d, r) => if matchT dotAll r then some (some d, r) else
      if matchT dotAll cs then some (none, cs) else none
  | none => if matchT dotAll cs then some (none, cs) else none

def liftIdent (ns : Nat) : Res Ident → Res NodeId
  | .ok i => .ok ⟨ns, i⟩
  | .err => .err
  | .panic => .panic

def parseNodeIdWith (dotAll guard : Bool) (cs : List Char) : Res NodeId :=
  match nodeIdRe dotAll cs with
  | none => .err
  | some (none, t) => liftIdent 0 (identFromStrWith guard t)
  | some (some d, t) =>
    match parseUnsigned 65535 d with
    | none => .err
    | some ns => liftIdent ns (identFromStrWith guard t)

def parseNodeId := parseNodeIdWith true true

/-! ## ExpandedNodeId -/

def escapeUri (u : List Char) : List Char := replace [';'] ['%', '3', 'b'] (replace ['%'] ['%', '2', '5'] u)

def unescapeUri (u : List Char) : List Char := replace ['%', '2', '5'] ['%'] (replace ['%', '3', 'b'] [';'] u)

def uriIsEmpty : Option (List Char) → Bool
  | none => true
  | some u => u.isEmpty

def printExp (e : ExpNodeId) : List Char :=
  if uriIsEmpty e.uri then ['s', 'v', 'r', '='] ++ toDec e.svr ++ ';' :: printNodeId e.node
  else ['s', 'v', 'r', '='] ++ toDec e.svr ++ [';', 'n', 's', 'u', '='] ++ escapeUri (e.uri.getD []) ++ ';' :: printIdent e.node.id

structure ExpCaps where
  svr : List Char
  ns : Option (List Char)
  nsu : Option (List Char)
  t : List Char
deriving Repr, DecidableEq

/-- `nsu=(?P<nsu>[^;]+);` -/
def nsuSemi (cs : List Char) : Option (List Char × List Char) :=
  match stripPrefix? ['n', 's', 'u', '='] cs with
  | none => none
  | some r =>
    match spanP (· ≠ ';') r with
    | (u, ';' :: r') => if u.isEmpty then none else some (u, r')
    | _ => none

/-- `^svr=(?P<svr>[0-9]+);((ns=(?P<ns>[0-9]+)|nsu=(?P<nsu>[^;]+));)?(?P<t>[isgb]=.+)$`;
`nsOpt = false` is the pinned pattern in which the ns/nsu group is mandatory. -/
def expRe (dotAll nsOpt : Bool) (cs : List Char) : Option ExpCaps :=
  match digitsSemi ['s', 'v', 'r', '='] cs with
  | none => none
  | some (sv, r) =>
    let bare := if nsOpt && matchT dotAll r then some ⟨sv, none, none, r⟩ else none
    match digitsSemi ['n', 's', '='] r with
    | some (d, r') => if matchT dotAll r' then some ⟨sv, some d, none, r'⟩ else bare
    | none =>
      match nsuSemi r with
      | some (u, r') => if matchT dotAll r' then some ⟨sv, none, some u, r'⟩ else bare
      | none => bare

def parseExpWith (dotAll guard nsOpt : Bool) (cs : List Char) : Res ExpNodeId :=
  match expRe dotAll nsOpt cs with
  | none => .err
  | some c =>
    match parseUnsigned 4294967295 c.svr with
    | none => .err
    | some svr =>
      let uri := c.nsu.map unescapeUri
      match (match c.ns with
             | some d => parseUnsigned 65535 d
             | none => some 0) with
      | none => .err
      | some ns =>
        match identFromStrWith guard c.t with
        | .ok i => .ok ⟨⟨ns, i⟩, uri, svr⟩
        | .err => .err
        | .panic => .panic

def parseExp := parseExpWith true true true

/-! ## NumericRange -/

/-- One dimension (`NumericRange::None/Index/Range`). -/
inductive Dim where
  | none
  | index (n : Nat)
  | range (a b : Nat)
deriving Repr, DecidableEq

/-- `NumericRange`; `MultipleRanges` nested inside `MultipleRanges` is not modelled (never parsed,
never generated). -/
inductive NR where
  | one (d : Dim)
  | multi (ds : List Dim)
deriving Repr, DecidableEq

def printDim : Dim → List Char
  | .none => []
  | .index n => toDec n
  | .range a b => toDec a ++ ':' :: toDec b

def joinComma : List (List Char) → List Char
  | [] => []
  | [x] => x
  | x :: y :: r => x ++ ',' :: joinComma (y :: r)

def printNR : NR → List Char
  | .one d => printDim d
  | .multi ds => joinComma (ds.map printDim)

/-- `parse_range`: `^(?P<min>[0-9]{1,10})(:(?P<max>[0-9]{1,10}))?$` + numeric checks -/
def parseRange (s : List Char) : Option Dim :=
  if s.isEmpty then none
  else
    match spanP isDigit s with
    | (d1, []) =>
      if d1.length < 1 ∨ d1.length > 10 then none
      else (parseUnsigned 4294967295 d1).map Dim.index
    | (d1, ':' :: r) =>
      if d1.length < 1 ∨ d1.length > 10 then none
      else if r.length < 1 ∨ r.length > 10 ∨ !r.all isDigit then none
      else
        let mn := digitsVal d1
        let mx := digitsVal r
        if mn ≥ mx ∨ mx > 4294967295 then none else some (.range mn mx)
    | _ => none

def parseAll : List (List Char) → Option (List Dim)
  | [] => some []
  | p :: ps =>
    match parseRange p, parseAll ps with
    | some d, some ds => some (d :: ds)
    | _, _ => none

def maxIndices : Nat := 10

def parseNR (s : List Char) : Option NR :=
  if s.isEmpty then some (.one .none)
  else
    let parts := splitOnChar ',' s
    if parts.length = 1 then (parseRange (parts.headD [])).map NR.one
    else if 2 ≤ parts.length ∧ parts.length ≤ maxIndices then (parseAll parts).map NR.multi
    else none

def dimValid : Dim → Bool
  | .none => true
  | .index _ => true
  | .range a b => decide (a < b)

def dimIndexOrRange : Dim → Bool
  | .none => false
  | d => dimValid d

/-- `NumericRange::is_valid`.  `strict = true` is the current source (a `MultipleRanges` needs 2..=10
entries, each an index or a range); `false` the pinned one (any number of entries, `None` allowed). -/
def isValidNR (strict : Bool) : NR → Bool
  | .one d => dimValid d
  | .multi ds =>
    if strict then decide (2 ≤ ds.length ∧ ds.length ≤ maxIndices) && ds.all dimIndexOrRange
    else ds.all dimValid

/-! ## DateTime (100 ns ticks since 1601-01-01T00:00:00Z) -/

def isLeap (y : Int) : Bool := (y % 4 = 0 && y % 100 ≠ 0) || y % 400 = 0

def daysInMonth (y : Int) (m : Nat) : Nat :=
  if m = 2 then (if isLeap y then 29 else 28)
  else if m = 4 ∨ m = 6 ∨ m = 9 ∨ m = 11 then 30 else 31

/-- days before month `m` (1-based) in a year -/
def daysBeforeMonth (leap : Bool) (m : Nat) : Nat :=
  let l := if leap then 1 else 0
  match m with
  | 1 => 0 | 2 => 31 | 3 => 59 + l | 4 => 90 + l | 5 => 120 + l | 6 => 151 + l | 7 => 181 + l
  | 8 => 212 + l | 9 => 243 + l | 10 => 273 + l | 11 => 304 + l | _ => 334 + l

/-- days from 1601-01-01 to y-01-01 (1601 starts a 400-year Gregorian cycle) -/
def daysBeforeYear (y : Int) : Int :=
  let k := y - 1601
  365 * k + k / 4 - k / 100 + k / 400

def daysFromCivil (y : Int) (m d : Nat) : Int :=
  daysBeforeYear y + daysBeforeMonth (isLeap y) m + (d - 1 : Nat)

/-- month (1-based) and day (1-based) from the day of the year (0-based) -/
def monthDay (leap : Bool) (doy : Nat) : Nat × Nat :=
  let l := if leap then 1 else 0
  if doy < 31 then (1, doy + 1)
  else if doy < 59 + l then (2, doy - 31 + 1)
  else if doy < 90 + l then (3, doy - (59 + l) + 1)
  else if doy < 120 + l then (4, doy - (90 + l) + 1)
  else if doy < 151 + l then (5, doy - (120 + l) + 1)
  else if doy < 181 + l then (6, doy - (151 + l) + 1)
  else if doy < 212 + l then (7, doy - (181 + l) + 1)
  else if doy < 243 + l then (8, doy - (212 + l) + 1)
  else if doy < 273 + l then (9, doy - (243 + l) + 1)
  else if doy < 304 + l then (10, doy - (273 + l) + 1)
  else if doy < 334 + l then (11, doy - (304 + l) + 1)
  else (12, doy - (334 + l) + 1)

/-- (year, day of the year 0-based) of the `n`-th day after 1601-01-01 -/
def yearDoy (n : Nat) : Nat × Nat :=
  let n400 := n / 146097
  let r := n % 146097
  let n100 := min (r / 36524) 3
  let r := r - n100 * 36524
  let n4 := r / 1461
  let r := r % 1461
  let n1 := min (r / 365) 3
  (1601 + 400 * n400 + 100 * n100 + 4 * n4 + n1, r - n1 * 365)

/-- (year, month, day) of the `n`-th day after 1601-01-01 -/
def civilFromDays (n : Nat) : Nat × Nat × Nat :=
  let yd := yearDoy n
  let md := monthDay (isLeap yd.1) yd.2
  (yd.1, md.1, md.2)

def ticksPerSec : Nat := 10000000
def ticksPerDay : Nat := 864000000000

/-- ticks of 9999-12-31T23:59:59Z (`endtimes_ticks`) -/
def endTicks : Nat := 2650467743990000000

/-- fractional part as chrono's `SecondsFormat::AutoSi` prints it -/
def printFrac (nanos : Nat) : List Char :=
  if nanos = 0 then []
  else if nanos % 1000000 = 0 then '.' :: padDec 3 (nanos / 1000000)
  else if nanos % 1000 = 0 then '.' :: padDec 6 (nanos / 1000)
  else '.' :: padDec 9 nanos

/-- `DateTime::from(ticks).to_string()` for `ticks ≤ endTicks` -/
def printDateTime (ticks : Nat) : List Char :=
  let days := ticks / ticksPerDay
  let rem := ticks % ticksPerDay
  let secs := rem / ticksPerSec
  let nanos := rem % ticksPerSec * 100
  let (y, m, d) := civilFromDays days
  padDec 4 y ++ '-' :: padDec 2 m ++ '-' :: padDec 2 d ++ 'T' :: padDec 2 (secs / 3600) ++
    ':' :: padDec 2 (secs / 60 % 60) ++ ':' :: padDec 2 (secs % 60) ++ (printFrac nanos ++ ['+', '0', '0', ':', '0', '0'])

/-- exactly `n` leading ASCII digits -/
def takeDigitsN (n : Nat) (cs : List Char) : Option (Nat × List Char) :=
  let d := cs.take n
  if d.length = n ∧ d.all isDigit then some (digitsVal d, cs.drop n) else none

def expectChar (c : Char) : List Char → Option (List Char)
  | x :: r => if x = c then some r else none
  | [] => none

/-- nanoseconds from up to 9 fraction digits (right-padded with zeros) -/
def fracNanos (ds : List Char) : Nat := digitsVal (ds ++ List.replicate (9 - ds.length) '0')

/-- Field validation + tick arithmetic of the parse path (`chrono` field checks, then
`DateTime::from(DateTimeUtc)` truncating to 100 ns, then `ticks()`).  Second 60 (leap second
notation) is accepted by chrono and lands on the next second boundary plus the fraction. -/
def ticksOfFields (y m d h mi s nanos : Nat) : Option Int :=
  if m < 1 ∨ m > 12 ∨ d < 1 ∨ d > daysInMonth y m ∨ h > 23 ∨ mi > 59 ∨ s > 60 then none
  else some (daysFromCivil y m d * ticksPerDay + ((h * 3600 + mi * 60 + s) * ticksPerSec + nanos / 100 : Nat))

def tz : List Char := ['+', '0', '0', ':', '0', '0']

/-- optional fraction (1..9 digits) and the `+00:00` offset -/
def parseTail (y m d h mi s : Nat) (cs : List Char) : Option (Option Int) :=
  match cs with
  | '.' :: r =>
    if (spanP isDigit r).1.length < 1 ∨ (spanP isDigit r).1.length > 9 then none
    else if (spanP isDigit r).2 = tz then some (ticksOfFields y m d h mi s (fracNanos (spanP isDigit r).1))
    else none
  | r => if r = tz then some (ticksOfFields y m d h mi s 0) else none

/-- two digits followed by the separator `c` -/
def twoThen (c : Char) (cs : List Char) : Option (Nat × List Char) :=
  match takeDigitsN 2 cs with
  | none => none
  | some (v, r) =>
    match expectChar c r with
    | none => none
    | some r' => some (v, r')

/-- `DateTime::from_str` on the grammar of the printed form only:
`dddd-dd-ddTdd:dd:dd[.d{1,9}]+00:00`.  Outer `none` = outside that grammar (not modelled);
inner `none` = in the grammar but rejected (field out of range). -/
def parsePrinted (cs : List Char) : Option (Option Int) :=
  match takeDigitsN 4 cs with
  | none => none
  | some (y, cs) =>
  match expectChar '-' cs with
  | none => none
  | some cs =>
  match twoThen '-' cs with
  | none => none
  | some (m, cs) =>
  match twoThen 'T' cs with
  | none => none
  | some (d, cs) =>
  match twoThen ':' cs with
  | none => none
  | some (h, cs) =>
  match twoThen ':' cs with
  | none => none
  | some (mi, cs) =>
  match takeDigitsN 2 cs with
  | none => none
  | some (s, cs) => parseTail y m d h mi s cs

end OpcuaVerif.C04
