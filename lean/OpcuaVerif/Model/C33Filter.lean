/-
C33 — the guard logic in front of the panic sites of event where-clause evaluation
(`lib/src/server/events/operator.rs`: `evaluate`, `value_of`, the `&operands[k]` accesses of every
operator function, `compare_values!`; `event_filter.rs`: `evaluate_where_clause`).  Only *whether a
panic site is reached* is modelled (the operator semantics are C39's subject).

`fixed = false` is the pinned source (four panic sites); `fixed = true` is the source after the
C39 repairs: `evaluate` checks the operand count before dispatching, `value_of` answers
BadFilterOperandInvalid for an element index out of range and for an AttributeOperand, and a failed
implicit conversion makes the comparison an error (FALSE) instead of reaching `compare_values!`'s
`panic!()`.  The driver and the totality theorem use `true`, the counterexamples `false`.
-/
namespace OpcuaVerif.C33

inductive Lit where
  | int      -- Variant::Int32
  | empty    -- Variant::Empty
deriving Repr, DecidableEq

inductive Operand where
  | lit (l : Lit)
  | elem (idx : Nat)      -- ElementOperand
  | attr                  -- AttributeOperand
deriving Repr, DecidableEq

inductive FOp where
  | eq | isNull | gt | lt | gte | lte | not | between | inList | and | or | unsupported
deriving Repr, DecidableEq

structure Elem where
  op : FOp
  operands : List Operand
deriving Repr, DecidableEq

inductive PanicSite where
  | operandIndex      -- `&operands[k]` with too few operands
  | elementIndex      -- `elements[o.index]` out of range
  | attributeOperand  -- `Operand::AttributeOperand(_) => panic!()`
  | compareValues     -- `compare_values!` on values that could not be brought to one type
deriving Repr, DecidableEq

/-- result of evaluating: a value class, an error status, or a panic -/
inductive Ev where
  | val (l : Lit)     -- Int32 / Empty (Booleans produced by operators count as `int`: never compared here)
  | bool
  | err
  | panic (s : PanicSite)
deriving Repr, DecidableEq

/-- `compare_operands` on two evaluated operands (after `convert`): Int32 against Empty hits
`compare_values!`'s `panic!()`; Empty first gives `ComparisonResult::Error`.  `proceeds` = the result
is Equals (all Int32 literals of the harness carry the same value), which is what lets `between`
look at its third operand and `in_list` stop. -/
def cmp (fixed : Bool) (a b : Ev) : Ev :=
  match a, b with
  | .panic s, _ => .panic s
  | .err, _ => .err
  | _, .panic s => .panic s
  | _, .err => .err
  | .val .int, .val .empty => if fixed then .bool else .panic .compareValues
  | _, _ => .bool

def isEqualInts (a b : Ev) : Bool := a == .val .int && b == .val .int

/-- the tail of `in_list`: compare operand 0 with each remaining operand until one is equal -/
def inListTail (fixed : Bool) (v0 : Ev) : List Ev → Ev
  | [] => .bool
  | w :: rest =>
    match cmp fixed v0 w with
    | .panic s => .panic s
    | _ => if isEqualInts v0 w then .bool else inListTail fixed v0 rest

/-- `operator::value_of` for one operand; `sub used idx` evaluates element `idx` (an ElementOperand) -/
def evalOperand (fixed : Bool) (sub : List Nat → Nat → Ev) (used : List Nat) : Operand → Ev
  | .lit l => .val l
  | .attr => if fixed then .err else .panic .attributeOperand
  | .elem idx => if used.contains idx then .err else sub (idx :: used) idx

/-- the operand count `evaluate` insists on before it dispatches (repaired source) -/
def minOperands : FOp → Nat
  | .isNull => 1
  | .not => 1
  | .between => 3
  | _ => 2

/-- `operator::evaluate` for element `i` (fuel = remaining nesting depth; `used` = `used_elements`) -/
def evalElem (fixed : Bool) (els : List Elem) : Nat → List Nat → Nat → Ev
  | 0, _, _ => .err
  | fuel + 1, used, i =>
    match els[i]? with
    | none => if fixed then .err else .panic .elementIndex
    | some e =>
      if e.operands.isEmpty then .err
      else if fixed && decide (e.operands.length < minOperands e.op) then .err
      else
        let v (k : Nat) : Ev := match e.operands[k]? with
          | none => .panic .operandIndex
          | some o => evalOperand fixed (evalElem fixed els fuel) used o
        -- `f(&operands[0], &operands[1], ..)`: the arguments are indexed before anything is evaluated
        let binary : Ev := if e.operands.length < 2 then .panic .operandIndex else cmp fixed (v 0) (v 1)
        -- `value_as(&operands[0])?` then `value_as(&operands[1])?`
        let seq2 : Ev := match v 0 with
          | .panic s => .panic s
          | .err => .err
          | _ => (match v 1 with
              | .panic s => .panic s
              | .err => .err
              | _ => .bool)
        match e.op with
        | .unsupported => .err
        | .isNull => (match v 0 with
            | .panic s => .panic s
            | .err => .err
            | _ => .bool)
        | .not => (match v 0 with
            | .panic s => .panic s
            | .err => .err
            | _ => .bool)
        | .eq => binary
        | .gt => binary
        | .lt => binary
        | .gte => binary
        | .lte => binary
        | .between =>
          (match binary with
            | .panic s => .panic s
            | .err => .err
            | _ =>
              if isEqualInts (v 0) (v 1) then
                (if e.operands.length < 3 then .panic .operandIndex
                 else match cmp fixed (v 0) (v 2) with
                  | .panic s => .panic s
                  | .err => .err
                  | _ => .bool)
              else .bool)
        | .inList => inListTail fixed (v 0) ((e.operands.drop 1).map (fun o => evalOperand fixed (evalElem fixed els fuel) used o))
        | .and => seq2
        | .or => seq2

/-- `evaluate_where_clause`: does evaluating the clause on an event reach a panic site? -/
def whereClausePanics (fixed : Bool) (els : List Elem) : Option PanicSite :=
  if els.isEmpty then none
  else match evalElem fixed els (els.length + 1) [0] 0 with
    | .panic s => some s
    | _ => none

end OpcuaVerif.C33

namespace OpcuaVerif.C33

/-! ### `References::reference_type_matches` — the worklist loop over HasSubtype references -/

/-- One run of the `while let Some(current) = stack.pop()` loop of `reference_type_matches`
(`include_subtypes = true`, `ref_type ≠ ref_subtype`): `subs t` are the HasSubtype targets of `t`.
`none` = the loop has not finished within `fuel` iterations. -/
def matchLoop (subs : Nat → List Nat) (target : Nat) : Nat → List Nat → Option Bool
  | 0, _ => none
  | _ + 1, [] => some false
  | fuel + 1, current :: rest =>
    -- `stack.pop()` takes the *last* element; the stack is kept with its top first
    if target = current then some true
    else if (subs current).contains target then some true
    else matchLoop subs target fuel ((subs current).reverse ++ rest)

/-- the repaired loop: a type that was examined before is skipped (`visited`) -/
def matchLoopVisited (subs : Nat → List Nat) (target : Nat) : Nat → List Nat → List Nat → Option Bool
  | 0, _, _ => none
  | _ + 1, _, [] => some false
  | fuel + 1, visited, current :: rest =>
    if visited.contains current then matchLoopVisited subs target fuel visited rest
    else if target = current then some true
    else if (subs current).contains target then some true
    else matchLoopVisited subs target fuel (current :: visited) ((subs current).reverse ++ rest)

end OpcuaVerif.C33
