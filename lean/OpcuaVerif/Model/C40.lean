import OpcuaVerif.Model.SubM

/-
C40 — the retransmission queue seen as a map, and the operations the session applies to it.
The executable definitions are those of `SubM` (`insertKey`, `ackOne/ackAll`, `cleanup`, `findMsg`,
`transmit`): `lib/src/server/subscriptions/subscriptions.rs` (`retransmission_queue`,
`process_subscription_acknowledgements`, `remove_old_unacknowledged_notifications`,
`find_notification_message`, second half of `tick`).  This file adds the map view and the op language
the history theorems quantify over.
-/
namespace OpcuaVerif.C40
open OpcuaVerif.SubM

abbrev Key := Nat × Nat                      -- (subscription id, sequence number)
abbrev RQ := List (Key × Msg)                -- retransmission_queue

/-- map view: the message retained under a key -/
def lookupR (r : RQ) (k : Key) : Option Msg :=
  match r.find? (fun e => e.1 = k) with
  | some e => some e.2
  | none => none

/-- everything the session ever does to the retransmission queue -/
inductive ROp where
  | send (k : Key) (m : Msg)                 -- a notification leaves in a publish response
  | acks (subs : List Subn) (as : List Key)  -- acknowledgements of one publish request
  | clean (subs : List Subn)                 -- end of a tick: purge dead subscriptions, enforce the limit
deriving Repr

def rstep (r : RQ) : ROp → RQ
  | .send k m => insertKey k m r
  | .acks subs as => (ackAll subs r as).1
  | .clean subs => cleanup subs r

def rrun (r : RQ) (ops : List ROp) : RQ := ops.foldl rstep r

/-- does this op (applied in state `r`) take the message under `k` away or replace it? -/
def touches (k : Key) (r : RQ) : ROp → Prop
  | .send k' _ => k' = k
  | .acks subs as => k ∈ as ∧ hasSub subs k.1 = true
  | .clean subs => lookupR (cleanup subs r) k = none

/-- no op of the history touches `k` (each op looked at in the state it is applied to) -/
def untouched (k : Key) : RQ → List ROp → Prop
  | _, [] => True
  | r, op :: ops => ¬ touches k r op ∧ untouched k (rstep r op) ops

end OpcuaVerif.C40
