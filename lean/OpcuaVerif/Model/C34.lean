import OpcuaVerif.Model.C29

/-
C34 — model of the per-item functions of the node management services
(`lib/src/server/services/node_management.rs`: `add_node`, `add_reference`, `delete_node`,
`delete_reference`) on top of the address space model of C29/C28, plus the global id counter
`NodeId::next_numeric` (`lib/src/types/node_id.rs`) counted relative to its value at the start of
the case.

Abstractions: a browse name is a number (namespace 0 names only); a node class is a number
(0 = Unspecified, 1 = Object, 2 = Variable; 8 = ObjectType, 16 = VariableType as in Part 3); the
node attributes are reduced to "decode and fit the node class: yes/no"; the closure of
HierarchicalReferences (walked by `find_nodes_relative_path`) and of Aggregates (walked by
`find_aggregates_of`) are the parameters `hier` and `agg`.
-/
namespace OpcuaVerif.C34
open OpcuaVerif.C28 OpcuaVerif.C29

inductive Status where
  | good
  | badUserAccessDenied
  | badNodeIdRejected
  | badNodeClassInvalid
  | badNodeIdExists
  | badBrowseNameInvalid
  | badBrowseNameDuplicated
  | badReferenceTypeIdInvalid
  | badTypeDefinitionInvalid
  | badParentNodeIdInvalid
  | badNodeAttributesInvalid
  | badServerUriInvalid
  | badReferenceLocalOnly
  | badSourceNodeIdInvalid
  | badTargetNodeIdInvalid
  | badDuplicateReferenceNotAllowed
  | badNodeIdUnknown
  | badReferenceNotAllowed
  | badNothingToDo
  | badTooManyOperations
deriving Repr, DecidableEq

def Status.name : Status → String
  | .good => "Good"
  | .badUserAccessDenied => "BadUserAccessDenied"
  | .badNodeIdRejected => "BadNodeIdRejected"
  | .badNodeClassInvalid => "BadNodeClassInvalid"
  | .badNodeIdExists => "BadNodeIdExists"
  | .badBrowseNameInvalid => "BadBrowseNameInvalid"
  | .badBrowseNameDuplicated => "BadBrowseNameDuplicated"
  | .badReferenceTypeIdInvalid => "BadReferenceTypeIdInvalid"
  | .badTypeDefinitionInvalid => "BadTypeDefinitionInvalid"
  | .badParentNodeIdInvalid => "BadParentNodeIdInvalid"
  | .badNodeAttributesInvalid => "BadNodeAttributesInvalid"
  | .badServerUriInvalid => "BadServerUriInvalid"
  | .badReferenceLocalOnly => "BadReferenceLocalOnly"
  | .badSourceNodeIdInvalid => "BadSourceNodeIdInvalid"
  | .badTargetNodeIdInvalid => "BadTargetNodeIdInvalid"
  | .badDuplicateReferenceNotAllowed => "BadDuplicateReferenceNotAllowed"
  | .badNodeIdUnknown => "BadNodeIdUnknown"
  | .badReferenceNotAllowed => "BadReferenceNotAllowed"
  | .badNothingToDo => "BadNothingToDo"
  | .badTooManyOperations => "BadTooManyOperations"

def clsObject : Nat := 1
def clsVariable : Nat := 2
def clsObjectType : Nat := 8
def clsVariableType : Nat := 16
def hasTypeDefinition : Nat := 40

structure NS where
  sp : Space
  /-- node ↦ (node class, browse name); read only for nodes that exist -/
  info : AMap (Nat × Nat)
  /-- `NEXT_NODE_ID_NUMERIC` minus its value at the start of the case -/
  next : Nat
  /-- `session.can_modify_address_space()` -/
  canModify : Bool
deriving Repr, DecidableEq

/-- node ids handed out by `next_numeric` are `idBase + counter` in the model's numbering -/
def idBase : Nat := 1000

def exists? (s : NS) (n : Nat) : Bool := s.sp.nodes.contains n

/-- ids from `unregBase` upwards stand for node ids whose namespace index is not registered in the
address space (`AddressSpace::namespace_exists` is false) -/
def unregBase : Nat := 5000
def inRegisteredNs (n : Nat) : Bool := n < unregBase

def classOf (s : NS) (n : Nat) : Option Nat :=
  if exists? s n then (s.info.get n).map (·.1) else none

def nameOf (s : NS) (n : Nat) : Option Nat :=
  if exists? s n then (s.info.get n).map (·.2) else none

structure AddNodesItem where
  /-- `requested_new_node_id`: `none` = null (the server assigns one) -/
  requested : Option Nat
  /-- its `server_index` -/
  serverIndex : Nat
  parent : Nat
  /-- `reference_type_id`; `none` = not a `ReferenceTypeId` -/
  refType : Option Nat
  /-- `browse_name`; `none` = null or empty name -/
  name : Option Nat
  nodeClass : Nat
  /-- `type_definition`: `none` = null -/
  typeDef : Option Nat
  /-- the attributes extension object decodes and is the one for `nodeClass` -/
  attrsFit : Bool
deriving Repr, DecidableEq

/-- the duplicate browse name test: `find_nodes_relative_path(parent, "/name")` is non-empty, i.e.
the parent exists and some existing target of one of its hierarchical references has that name -/
def nameTaken (hier : Nat → Bool) (s : NS) (parent name : Nat) : Bool :=
  exists? s parent &&
    (fwdOf s.sp.refs parent).any (fun r => hier r.1 && nameOf s r.2 == some name)
where
  fwdOf (r : Refs) (a : Nat) : List (Nat × Nat) := (r.fwd.get a).getD []

/-- `is_valid_type_definition` -/
def validTypeDef (s : NS) (nodeClass : Nat) (typeDef : Option Nat) : Bool :=
  if nodeClass = clsObject then
    match typeDef with
    | some t => classOf s t == some clsObjectType
    | none => false
  else if nodeClass = clsVariable then
    match typeDef with
    | some t => classOf s t == some clsVariableType
    | none => false
  else typeDef.isNone

/-- the loop that draws ids from `next_numeric` until one is free (since the `fix:` commit);
`fuel` bounds the number of draws (theorem `freshId_some`: `nodes.length + 1` draws suffice) -/
def freshId (nodes : List Nat) : Nat → Nat → Option (Nat × Nat)
  | 0, _ => none
  | fuel + 1, next =>
    if nodes.contains (idBase + next) then freshId nodes fuel (next + 1)
    else some (idBase + next, next + 1)

/-- the single draw of the pinned source -/
def drawId (next : Nat) : Nat × Nat := (idBase + next, next + 1)

inductive Outcome (α : Type) where
  | ok (s : NS) (status : Status) (val : α)
  | panic
deriving Repr

/-- `add_node`, first part: the tests made before an id is chosen.  `.ok (name, refType)` = all
passed. (The reference type test is the outermost `if let Ok(reference_type_id)` of the source: its
`else` branch is reached only when everything before it passed.) -/
def precheck (hier : Nat → Bool) (s : NS) (it : AddNodesItem) : Except Status (Nat × Nat) :=
  if !s.canModify then .error .badUserAccessDenied
  else if it.serverIndex ≠ 0 then .error .badNodeIdRejected
  else if it.nodeClass = 0 then .error .badNodeClassInvalid
  else if (match it.requested with | some r => !inRegisteredNs r | none => false) then
    .error .badNodeIdRejected
  else if (match it.requested with | some r => exists? s r | none => false) then
    .error .badNodeIdExists
  else match it.name with
  | none => .error .badBrowseNameInvalid
  | some name =>
    if nameTaken hier s it.parent name then .error .badBrowseNameDuplicated
    else match it.refType with
    | none => .error .badReferenceTypeIdInvalid
    | some refType => .ok (name, refType)

/-- the id of the new node and the counter afterwards: the requested id, or ids drawn from
`next_numeric` — one draw in the pinned source, draws until a free id since the `fix:` commit -/
def chooseId (asPinned : Bool) (s : NS) (requested : Option Nat) : Option (Nat × Nat) :=
  match requested with
  | some r => some (r, s.next)
  | none => if asPinned then some (drawId s.next) else freshId s.sp.nodes (s.sp.nodes.length + 1) s.next

/-- second part: the tests made after the id was chosen (the counter has moved) -/
def postcheck (s : NS) (it : AddNodesItem) : Option Status :=
  if !validTypeDef s it.nodeClass it.typeDef then some .badTypeDefinitionInvalid
  else if !exists? s it.parent then some .badParentNodeIdInvalid
  else if !it.attrsFit then some .badNodeAttributesInvalid
  else none

/-- `set_node_type` for objects and variables -/
def typedRefs (refs : Refs) (nodeClass : Nat) (typeDef : Option Nat) (newId : Nat) : Option Refs :=
  if nodeClass = clsObject ∨ nodeClass = clsVariable then
    match typeDef with
    | some t => insertRef refs newId t hasTypeDefinition
    | none => some refs
  else some refs

/-- third part: `AddressSpace::insert` with the parent link (nothing happens when the id exists —
the pinned source ignored that result), then `set_node_type`.  The pinned source inserted the
parent link as a forward reference of the NEW node. -/
def commitAdd (asPinned : Bool) (s : NS) (it : AddNodesItem) (name refType newId : Nat) : Outcome (Option Nat) :=
  let inserted := !exists? s newId
  let linked : Option Refs :=
    if inserted then
      (if asPinned then insertRef s.sp.refs newId it.parent refType
       else insertRef s.sp.refs it.parent newId refType)
    else some s.sp.refs
  match linked with
  | none => .panic
  | some refs =>
    let nodes := if inserted then s.sp.nodes ++ [newId] else s.sp.nodes
    let info := if inserted then s.info.set newId (it.nodeClass, name) else s.info
    match typedRefs refs it.nodeClass it.typeDef newId with
    | none => .panic
    | some refs => .ok { s with sp := { nodes := nodes, refs := refs }, info := info } .good (some newId)

/-- `add_node`.  `asPinned = true` reproduces the two defects of the pinned source (see `chooseId`
and `commitAdd`). -/
def addNodeWith (asPinned : Bool) (hier : Nat → Bool) (s : NS) (it : AddNodesItem) : Outcome (Option Nat) :=
  match precheck hier s it with
  | .error st => .ok s st none
  | .ok (name, refType) =>
    match chooseId asPinned s it.requested with
    | none => .panic   -- unreachable (`chooseId_some`)
    | some (newId, next) =>
      -- from here on the counter has moved even when the item fails
      let s := { s with next := next }
      match postcheck s it with
      | some st => .ok s st none
      | none => commitAdd asPinned s it name refType newId

/-- the current source -/
def addNode := addNodeWith false

structure AddReferencesItem where
  source : Nat
  target : Nat
  /-- `target_node_id.server_index` -/
  serverIndex : Nat
  /-- `target_server_uri` is null -/
  uriNull : Bool
  refType : Option Nat
  isForward : Bool
  targetClass : Nat
deriving Repr, DecidableEq

/-- `add_reference`: the tests; `.ok t` = all passed, `t` the reference type -/
def addRefCheck (s : NS) (it : AddReferencesItem) : Except Status Nat :=
  if !s.canModify then .error .badUserAccessDenied
  else if !it.uriNull then .error .badServerUriInvalid
  else if it.serverIndex ≠ 0 then .error .badReferenceLocalOnly
  else if !exists? s it.source then .error .badSourceNodeIdInvalid
  else if !exists? s it.target then .error .badTargetNodeIdInvalid
  else if it.targetClass = 0 then .error .badNodeClassInvalid
  else if it.source = it.target then .error .badReferenceNotAllowed
  else if classOf s it.target != some it.targetClass then .error .badNodeClassInvalid
  else match it.refType with
  | none => .error .badReferenceTypeIdInvalid
  | some t =>
    -- the duplicate test looks at source → target whatever `is_forward` says
    if hasRef s.sp.refs it.source it.target t then .error .badDuplicateReferenceNotAllowed
    else .ok t

/-- the insertion, in the direction asked for; `none` = the self reference panic of
`insert_reference`, out of reach since `add_reference` answers BadReferenceNotAllowed for it
(theorem `addref_total`) -/
def linkRefs (s : NS) (it : AddReferencesItem) (t : Nat) : Option Refs :=
  if it.isForward then insertRef s.sp.refs it.source it.target t
  else insertRef s.sp.refs it.target it.source t

/-- `add_reference` -/
def addReference (s : NS) (it : AddReferencesItem) : Outcome Unit :=
  match addRefCheck s it with
  | .error st => .ok s st ()
  | .ok t =>
    match linkRefs s it t with
    | none => .panic
    | some refs => .ok { s with sp := { nodes := s.sp.nodes, refs := refs } } .good ()

/-- `delete_node`.  `checkExists = false` is the source before the `fix:` commit, which asked
`AddressSpace::delete` straight away and reported its flag. -/
def deleteNodeWith (checkExists : Bool) (agg : Nat → Bool) (s : NS) (n : Nat) (dtr : Bool) : Option (NS × Status) :=
  if !s.canModify then some (s, .badUserAccessDenied)
  else if checkExists && !exists? s n then some (s, .badNodeIdUnknown)
  else match C29.delete agg s.sp n dtr with
    | none => none
    | some (sp', b) => some ({ s with sp := sp' }, if b then .good else .badNodeIdUnknown)

def deleteNode := deleteNodeWith true

structure DeleteReferencesItem where
  source : Nat
  target : Nat
  serverIndex : Nat
  refType : Option Nat
  isForward : Bool
  bidirectional : Bool
  /-- the ids are not null -/
  sourceNull : Bool
  targetNull : Bool
deriving Repr, DecidableEq

/-- `delete_reference`: the tests -/
def delRefCheck (s : NS) (it : DeleteReferencesItem) : Except Status Nat :=
  if !s.canModify then .error .badUserAccessDenied
  else if it.serverIndex ≠ 0 then .error .badReferenceLocalOnly
  else if it.sourceNull || !exists? s it.source then .error .badSourceNodeIdInvalid
  else if it.targetNull || !exists? s it.target then .error .badTargetNodeIdInvalid
  else match it.refType with
  | none => .error .badReferenceTypeIdInvalid
  | some t => .ok t

/-- the deletion(s) asked for -/
def unlinkRefs (s : NS) (it : DeleteReferencesItem) (t : Nat) : Refs :=
  if it.bidirectional then
    (deleteRef (deleteRef s.sp.refs it.source it.target t).1 it.target it.source t).1
  else if it.isForward then (deleteRef s.sp.refs it.source it.target t).1
  else (deleteRef s.sp.refs it.target it.source t).1

/-- `delete_reference`: Good whenever the tests pass, whether or not a reference was found -/
def deleteReference (s : NS) (it : DeleteReferencesItem) : NS × Status :=
  match delRefCheck s it with
  | .error st => (s, st)
  | .ok t => ({ s with sp := { nodes := s.sp.nodes, refs := unlinkRefs s it t } }, .good)

/-! ### The four services: request-level tests around the per-item functions -/

/-- outcome of one service call -/
inductive ReqOut (α : Type) where
  /-- service fault: no item was looked at -/
  | fault (st : Status)
  /-- one result per item, in order -/
  | results (s : NS) (rs : List α)
  | panic
deriving Repr

/-- the shape shared by `add_nodes`, `add_references`, `delete_nodes`, `delete_references`: a missing or
empty list is BadNothingToDo, more items than `max_nodes_per_node_management` is
BadTooManyOperations, otherwise the items are processed one after the other on the same address
space -/
def serveItems {ι α : Type} (limit : Nat) (step : NS → ι → Option (NS × α)) (s : NS)
    (items : Option (List ι)) : ReqOut α :=
  match items with
  | none => .fault .badNothingToDo
  | some l =>
    if l.isEmpty then .fault .badNothingToDo
    else if l.length ≤ limit then
      let rec go : NS → List ι → List α → ReqOut α
        | s, [], acc => .results s acc.reverse
        | s, it :: rest, acc =>
          match step s it with
          | some (s', r) => go s' rest (r :: acc)
          | none => .panic
      go s l []
    else .fault .badTooManyOperations

def addNodesReq (hier : Nat → Bool) (limit : Nat) :=
  serveItems limit (fun s (it : AddNodesItem) => match addNode hier s it with
    | .ok s' st id => some (s', (st, id))
    | .panic => none)

def addReferencesReq (limit : Nat) :=
  serveItems limit (fun s (it : AddReferencesItem) => match addReference s it with
    | .ok s' st _ => some (s', st)
    | .panic => none)

def deleteNodesReq (agg : Nat → Bool) (limit : Nat) :=
  serveItems limit (fun s (it : Nat × Bool) => deleteNode agg s it.1 it.2)

def deleteReferencesReq (limit : Nat) :=
  serveItems limit (fun s (it : DeleteReferencesItem) => some (deleteReference s it))

end OpcuaVerif.C34
