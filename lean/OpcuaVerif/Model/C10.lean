import OpcuaVerif.Model.C12

/-
C10 — memory held for an incomplete incoming message.

Server: `TcpTransport::process_chunk` (lib/src/server/comms/tcp_transport.rs) on an open,
policy-None connection: abort clears `pending_chunks`, the limits on chunk count and on buffered
bytes (after the `fix:` commit; `bounded = false` is the pinned source with its TODO), push, and for
a final chunk `process_final_chunk` (drain, validate sequence numbers, decode, dispatch).
A chunk is its header triple plus its total size in bytes; `l0` is the length of the request that
opens the body stream the harness sends (the rest of the bodies is padding), so decoding succeeds
iff at least `l0` body bytes were collected.

Framing layer: `TcpCodec::decode` is `Model.C11.decodeStep` (`Opts.early` = after the fix).
-/
namespace OpcuaVerif.C10
open OpcuaVerif.C11 OpcuaVerif.C12

structure Srv where
  maxChunks : Nat              -- decoding_options.max_chunk_count (0 = no limit)
  maxMsg : Nat                 -- decoding_options.max_message_size (0 = no limit)
  l0 : Nat
  chanId : Nat
  last : Nat
  pending : List (CI × Nat)    -- pending_chunks with their data.len()
  closed : Bool
deriving Repr, DecidableEq

def Srv.bytes (s : Srv) : Nat := (s.pending.map (·.2)).sum

inductive Out where
  | stored
  | accepted (req : Nat)
  | rejected (code : String)       -- Err(code): pending cleared where the source clears it, loop ends
  | closed
deriving Repr, DecidableEq

/-- `process_chunk` for a MSG chunk of `size` bytes (≥ 24: 12 header + 4 token + 8 sequence) -/
def Srv.chunk (bounded : Bool) (s : Srv) (c : CI) (f : Fin) (size : Nat) : Srv × Out :=
  if s.closed then (s, .closed) else
  match f with
  | .abort => ({ s with pending := [] }, .stored)
  | _ =>
    if bounded ∧ s.maxChunks > 0 ∧ s.pending.length ≥ s.maxChunks then
      ({ s with pending := [], closed := true }, .rejected "BadEncodingLimitsExceeded")
    else if bounded ∧ s.maxMsg > 0 ∧ s.bytes + size > s.maxMsg then
      ({ s with pending := [], closed := true }, .rejected "BadTcpMessageTooLarge")
    else
      let pend := s.pending ++ [(c, size)]
      if f = .intermediate then ({ s with pending := pend }, .stored)
      else
        -- final: drain, validate, decode
        match recv s.last s.chanId (pend.map fun p => some p.1) with
        | .err e => ({ s with pending := [], closed := true }, .rejected e)
        | .panic => ({ s with pending := [], closed := true }, .rejected "panic")   -- unreachable (recv_total)
        | .ok last' =>
          let body := (pend.map fun p => p.2 - 24).sum
          if body < 4 then ({ s with pending := [], last := last', closed := true }, .rejected "BadDecodingError")
          else if body < s.l0 then
            ({ s with pending := [], last := last', closed := true }, .rejected "BadServiceUnsupported")
          else
            let req := match pend with
              | p :: _ => p.1.req
              | [] => 0
            ({ s with pending := [], last := last' }, .accepted req)

def Srv.run (bounded : Bool) : Srv → List (CI × Fin × Nat) → Srv
  | s, [] => s
  | s, (c, f, n) :: r => Srv.run bounded (s.chunk bounded c f n).1 r

end OpcuaVerif.C10
