import OpcuaVerif.Model.SrvConn

/-
C10 — memory held for an incomplete incoming message.

Server: the model of one server connection is `Model/SrvConn.lean` (shared with C15 and C12):
`process_chunk` for EVERY chunk type (MSG / OPN / CLO) and flag (C / F / A), before and after
Hello and OpenSecureChannel, with the limit checks of the `fix:` commit (`bounded = false` there is
the pinned source).  Client: `Model/C12Client.lean`.  Framing layer: `Model/C11.lean`
(`decodeStep`, `Opts.early`).
-/
