import OpcuaVerif.Model.C28

/-
C29 — model of `AddressSpace::delete` (`lib/src/server/address_space/address_space.rs`) on top of
the `References` model of C28: the node map (only its key set matters here), `find_aggregates_of`,
the recursive deletion of aggregated children and `delete_node_references`.

The subtype closure of `Aggregates` is a parameter `agg : Nat → Bool` (reference types that are
`Aggregates` or one of its subtypes): the reference type hierarchy lives in the reference type nodes,
which the histories considered here never touch.
-/
namespace OpcuaVerif.C29
open OpcuaVerif.C28

structure Space where
  /-- keys of `node_map` -/
  nodes : List Nat
  refs : Refs
deriving Repr, DecidableEq

def emptySpace : Space := { nodes := [], refs := C28.empty }

/-- `find_aggregates_of`: the targets of the node's references whose type is `Aggregates` or a
subtype (`None` and an empty vector are the same to the caller) -/
def aggregatesOf (agg : Nat → Bool) (sp : Space) (n : Nat) : List Nat :=
  match sp.refs.fwd.get n with
  | some l => (l.filter (fun r => agg r.1)).map (fun r => r.2)
  | none => []

/-- result of one `delete` call: the new state, the returned flag, the visited set; `none` = the
recursion did not finish within the fuel -/
abbrev Res := Option (Space × Bool × List Nat)

/-- the `for_each` over the children -/
def foldChildren (f : Space → Nat → List Nat → Res) : Space → List Nat → List Nat → Option (Space × List Nat)
  | sp, [], v => some (sp, v)
  | sp, c :: cs, v =>
    match f sp c v with
    | none => none
    | some (sp', _, v') => foldChildren f sp' cs v'

/-- what `delete` does to the node itself once its children are gone: `node_map.remove` and, when
asked, `delete_node_references` -/
def removeNode (sp : Space) (n : Nat) (deleteTargetReferences : Bool) : Space × Bool :=
  let removedNode := sp.nodes.contains n
  let nodes := sp.nodes.filter (fun x => x != n)
  if deleteTargetReferences then
    let r := deleteNodeRefs sp.refs n
    ({ nodes := nodes, refs := r.1 }, removedNode || r.2)
  else
    ({ nodes := nodes, refs := sp.refs }, removedNode)

/-- `delete_visiting` (the recursive worker since the `fix:` commit): a node that was visited
before is skipped; otherwise the children found by `find_aggregates_of` are deleted first, then the
node.  One unit of fuel per level of recursion. -/
def deleteV (agg : Nat → Bool) (dtr : Bool) : Nat → Space → Nat → List Nat → Res
  | 0, _, _, _ => none
  | fuel + 1, sp, n, v =>
    if v.contains n then some (sp, false, v)
    else
      match foldChildren (fun sp c v => deleteV agg dtr fuel sp c v) sp (aggregatesOf agg sp n) (n :: v) with
      | none => none
      | some (sp1, v1) =>
        let r := removeNode sp1 n dtr
        some (r.1, r.2, v1)

/-- every node that can be a target of a reference, and the node itself: nothing else can ever be
visited -/
def candidates (sp : Space) (n : Nat) : List Nat :=
  n :: sp.refs.fwd.flatMap (fun e => e.2.map (fun r => r.2))

/-- `AddressSpace::delete`: the recursion gets as much fuel as there are nodes it could visit
(theorem `delete_terminates`: that is always enough) -/
def delete (agg : Nat → Bool) (sp : Space) (n : Nat) (dtr : Bool) : Option (Space × Bool) :=
  match deleteV agg dtr ((candidates sp n).length + 1) sp n [] with
  | some (sp', b, _) => some (sp', b)
  | none => none

/-- The pinned source: no visited set, the children are deleted before anything is removed, so a
cycle of aggregating references recurses until the stack overflows. -/
def deleteOld (agg : Nat → Bool) (dtr : Bool) : Nat → Space → Nat → Option (Space × Bool)
  | 0, _, _ => none
  | fuel + 1, sp, n =>
    match foldChildren (fun sp c v =>
        match deleteOld agg dtr fuel sp c with
        | some (sp', b) => some (sp', b, v)
        | none => none) sp (aggregatesOf agg sp n) [] with
    | none => none
    | some (sp1, _) => some (removeNode sp1 n dtr)

/-- `AddressSpace::insert` of a node without references: `false` when the id exists -/
def insertNode (sp : Space) (n : Nat) : Space × Bool :=
  if sp.nodes.contains n then (sp, false) else ({ sp with nodes := sp.nodes ++ [n] }, true)

/-- `AddressSpace::insert(node, Some(references))`: nothing happens when the id exists; otherwise the
node goes in and every (node, type, direction) entry becomes a reference.  `none` = self reference
panic of `insert_reference`. -/
def insertNodeWith (sp : Space) (n : Nat) (l : List (Nat × Nat × Bool)) : Option (Space × Bool) :=
  if sp.nodes.contains n then some (sp, false)
  else match insertMany sp.refs n l with
    | some r => some ({ nodes := sp.nodes ++ [n], refs := r }, true)
    | none => none

/-- `AddressSpace::insert_references` -/
def insertReferences (sp : Space) (l : List (Nat × Nat × Nat)) : Option Space :=
  (insertRefs sp.refs l).map fun r => { sp with refs := r }

end OpcuaVerif.C29
