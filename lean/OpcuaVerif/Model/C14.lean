/-
C14 — security token renewal.  Protocol-level model of the two ends of one secure channel as
implemented: `SecureChannel` has ONE key slot per direction (derive_keys overwrites it), the
symmetric receive path never looks at the token id, the server switches keys while it processes
the Renew request (`SecureChannelService::open_secure_channel`), the client when
`end_issue_or_renew_secure_channel` runs (a different task than the one that receives chunks).

Keys are abstracted to the number of the token ("epoch") they were derived for; a forged message
carries an epoch nobody ever issued.  `secured = false` models policy None / mode None, where nothing
is verified.
-/
namespace OpcuaVerif.C14

inductive Item where
  | msg (epoch : Nat)          -- a MSG chunk secured with the keys of token `epoch`
  | renewReq                   -- OPN Renew request (asymmetric security, independent of the symmetric keys)
  | renewResp (epoch : Nat)    -- OPN response announcing token `epoch`
  | renewReqSame               -- OPN Renew request that reuses the client nonce of the previous Issue/Renew
  | fault                      -- ServiceFault answer to an OPN request (BadNonceInvalid)
deriving Repr, DecidableEq

structure St where
  secured : Bool
  cKey : Nat                   -- epoch of the client's key slot
  sKey : Nat                   -- epoch of the server's key slot
  c2s : List Item              -- client → server link, head = oldest
  s2c : List Item              -- server → client link
  pend : Option Nat            -- OPN response received by the client transport, not yet applied
  pendFault : Bool             -- a ServiceFault answer to the Renew was received, not yet handed to the session task
  outstanding : Bool           -- client has a renew in progress (holds `issue_channel_lock`)
  sSeenNew : Bool              -- server has received a message under its newest token
  cSeenNew : Bool              -- client has received a message under its newest token
deriving Repr, DecidableEq

def init (secured : Bool) : St :=
  { secured, cKey := 0, sKey := 0, c2s := [], s2c := [], pend := none, pendFault := false, outstanding := false,
    sSeenNew := true, cSeenNew := true }

inductive Op where
  | cSend | cRenew | sStep | sSend | cStep | cApply
  | cRenewSame                 -- client sends a Renew that reuses its previous nonce (a buggy or malicious client)
  | cForge (epoch : Nat)       -- a third party injects a MSG under keys nobody issued, towards the server
  | sForge (epoch : Nat)       -- same towards the client
deriving Repr, DecidableEq

inductive Out where
  | queued                     -- something was put on a link
  | idle                       -- nothing to do (empty link, nothing pending, renew already outstanding)
  | accepted (epoch : Nat)     -- a MSG was delivered and passed verification
  | rejected (epoch : Nat)     -- a MSG was delivered and failed verification
  | renewed (epoch : Nat)      -- server processed Renew → new token / client applied it
  | gotResp (epoch : Nat)      -- client transport received the OPN response
  | faulted                    -- server answered the Renew with a ServiceFault (nonce reused); keys unchanged
  | gotFault                   -- client transport received that fault
  | renewFailed                -- the session task saw the fault: the renewal is over, keys unchanged
deriving Repr, DecidableEq

/-- what the implementation does: one key slot, exact match -/
def implAccepts (secured : Bool) (key epoch : Nat) : Bool := !secured || epoch == key

def step (s : St) : Op → St × Out
  | .cSend => ({ s with c2s := s.c2s ++ [.msg s.cKey] }, .queued)
  | .cRenew =>
    if s.outstanding then (s, .idle)
    else ({ s with c2s := s.c2s ++ [.renewReq], outstanding := true }, .queued)
  | .cRenewSame =>
    if s.outstanding then (s, .idle)
    else ({ s with c2s := s.c2s ++ [.renewReqSame], outstanding := true }, .queued)
  | .sSend => ({ s with s2c := s.s2c ++ [.msg s.sKey] }, .queued)
  | .cForge e => ({ s with c2s := s.c2s ++ [.msg e] }, .queued)
  | .sForge e => ({ s with s2c := s.s2c ++ [.msg e] }, .queued)
  | .sStep =>
    match s.c2s with
    | [] => (s, .idle)
    | .msg e :: rest =>
      if implAccepts s.secured s.sKey e then
        ({ s with c2s := rest, sSeenNew := s.sSeenNew || e == s.sKey }, .accepted e)
      else ({ s with c2s := rest }, .rejected e)
    | .renewReq :: rest =>
      ({ s with c2s := rest, sKey := s.sKey + 1, s2c := s.s2c ++ [.renewResp (s.sKey + 1)],
                sSeenNew := false }, .renewed (s.sKey + 1))
    | .renewReqSame :: rest =>
      -- `open_secure_channel`: a Renew whose nonce equals the stored remote nonce is refused on a
      -- secured channel (ServiceFault BadNonceInvalid, nothing changes); policy None does not look
      if s.secured then ({ s with c2s := rest, s2c := s.s2c ++ [.fault] }, .faulted)
      else ({ s with c2s := rest, sKey := s.sKey + 1, s2c := s.s2c ++ [.renewResp (s.sKey + 1)],
                     sSeenNew := false }, .renewed (s.sKey + 1))
    | .renewResp _ :: rest => ({ s with c2s := rest }, .idle)
    | .fault :: rest => ({ s with c2s := rest }, .idle)
  | .cStep =>
    match s.s2c with
    | [] => (s, .idle)
    | .msg e :: rest =>
      if implAccepts s.secured s.cKey e then
        ({ s with s2c := rest, cSeenNew := s.cSeenNew || e == s.cKey }, .accepted e)
      else ({ s with s2c := rest }, .rejected e)
    | .renewResp e :: rest => ({ s with s2c := rest, pend := some e }, .gotResp e)
    | .renewReq :: rest => ({ s with s2c := rest }, .idle)
    | .renewReqSame :: rest => ({ s with s2c := rest }, .idle)
    | .fault :: rest => ({ s with s2c := rest, pendFault := true }, .gotFault)
  | .cApply =>
    match s.pend with
    | none =>
      if s.pendFault then ({ s with pendFault := false, outstanding := false }, .renewFailed) else (s, .idle)
    | some e => ({ s with cKey := e, pend := none, outstanding := false, cSeenNew := false }, .renewed e)

def run : St → List Op → St × List Out
  | s, [] => (s, [])
  | s, op :: ops =>
    let (s1, o) := step s op
    let (s2, os) := run s1 ops
    (s2, o :: os)

end OpcuaVerif.C14
