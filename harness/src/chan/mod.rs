//! Secure-channel support shared by C07/C08/C09: fixed RSA key/certificate fixtures, channel
//! builders, chunk crafting, and the "answer computer" that asks OpenSSL (directly, not through
//! the receive path) the questions the receive path can ask about a chunk.
#![allow(dead_code)]
use crate::common::*;
use opcua::core::comms::prelude::*;
use opcua::crypto::{CertificateStore, PrivateKey, SecurityPolicy, X509, X509Data};
use opcua::sync::RwLock;
use opcua::types::{DecodingOptions, MessageSecurityMode};
use openssl::hash::MessageDigest;
use openssl::pkey::{PKey, Private};
use openssl::rsa::Padding;
use std::path::PathBuf;
use std::sync::{Arc, OnceLock};

pub const KEY_BITS: [u32; 5] = [1024, 1024, 2048, 2048, 4096];

pub struct KeyFix {
    pub id: usize,
    pub cert: X509,
    pub der: Vec<u8>,
    pub pem: Vec<u8>,
    pub size: usize,
    pub ossl: PKey<Private>,
    pub thumb: Vec<u8>,
}

impl KeyFix {
    pub fn private_key(&self) -> PrivateKey {
        PrivateKey::from_pem(&self.pem).expect("fixture key")
    }
}

fn fixture_dir() -> PathBuf {
    PathBuf::from(env!("CARGO_MANIFEST_DIR")).join("fixtures").join("chan")
}

fn load_key(id: usize) -> KeyFix {
    let dir = fixture_dir();
    let pem_path = dir.join(format!("k{}.pem", id));
    let der_path = dir.join(format!("k{}.der", id));
    if !pem_path.exists() || !der_path.exists() {
        // first use on a fresh tree: generate once and keep (the files are committed)
        std::fs::create_dir_all(&dir).unwrap();
        let (cert, pkey) = X509::cert_and_pkey(&X509Data {
            key_size: KEY_BITS[id],
            common_name: format!("verif-k{}", id),
            organization: "verif".into(),
            organizational_unit: "verif".into(),
            country: "IE".into(),
            state: "Dublin".into(),
            alt_host_names: vec![format!("urn:verif:k{}", id), "localhost".into()],
            certificate_duration_days: 36500,
        })
        .expect("cert_and_pkey");
        std::fs::write(&pem_path, pkey.private_key_to_pem().unwrap()).unwrap();
        std::fs::write(&der_path, cert.to_der().unwrap()).unwrap();
    }
    let pem = std::fs::read(&pem_path).unwrap();
    let der = std::fs::read(&der_path).unwrap();
    let cert = X509::from_der(&der).expect("fixture cert");
    let ossl = PKey::private_key_from_pem(&pem).expect("fixture pem");
    let size = ossl.bits() as usize / 8;
    let thumb = openssl::hash::hash(MessageDigest::sha1(), &der).unwrap().to_vec();
    KeyFix { id, cert, der, pem, size, ossl, thumb }
}

pub fn key(id: usize) -> &'static KeyFix {
    static K: [OnceLock<KeyFix>; 5] =
        [OnceLock::new(), OnceLock::new(), OnceLock::new(), OnceLock::new(), OnceLock::new()];
    K[id].get_or_init(|| load_key(id))
}

// ------------------------------------------------------------------------------------------------

pub const POLICIES: [SecurityPolicy; 6] = [
    SecurityPolicy::None,
    SecurityPolicy::Basic128Rsa15,
    SecurityPolicy::Basic256,
    SecurityPolicy::Basic256Sha256,
    SecurityPolicy::Aes128Sha256RsaOaep,
    SecurityPolicy::Aes256Sha256RsaPss,
];

pub fn policy_name(p: SecurityPolicy) -> &'static str {
    match p {
        SecurityPolicy::None => "none",
        SecurityPolicy::Basic128Rsa15 => "b128",
        SecurityPolicy::Basic256 => "b256",
        SecurityPolicy::Basic256Sha256 => "b256s",
        SecurityPolicy::Aes128Sha256RsaOaep => "a128",
        SecurityPolicy::Aes256Sha256RsaPss => "a256",
        SecurityPolicy::Unknown => "unknown",
    }
}

pub fn parse_policy(s: &str) -> Option<SecurityPolicy> {
    POLICIES.iter().copied().find(|p| policy_name(*p) == s)
}

pub const MODES: [MessageSecurityMode; 4] = [
    MessageSecurityMode::None,
    MessageSecurityMode::Sign,
    MessageSecurityMode::SignAndEncrypt,
    MessageSecurityMode::Invalid,
];

pub fn mode_name(m: MessageSecurityMode) -> &'static str {
    match m {
        MessageSecurityMode::None => "none",
        MessageSecurityMode::Sign => "sign",
        MessageSecurityMode::SignAndEncrypt => "se",
        MessageSecurityMode::Invalid => "invalid",
    }
}

pub fn parse_mode(s: &str) -> Option<MessageSecurityMode> {
    MODES.iter().copied().find(|m| mode_name(*m) == s)
}

pub fn nonce_len(p: SecurityPolicy) -> usize {
    if p == SecurityPolicy::Basic128Rsa15 {
        16
    } else {
        32
    }
}

/// Configuration of one case (the `reset` line).
#[derive(Clone, Debug)]
pub struct Cfg {
    pub policy: SecurityPolicy,
    pub mode: MessageSecurityMode,
    pub has_cert: bool,
    pub has_key: bool,
    pub keys: bool,
    pub client: bool,
    pub own: usize,
    pub peer: usize,
    pub seed: u64,
    /// policy the nonces were made for (`None` = `policy` at reset); never changes during a case
    pub init_policy: Option<SecurityPolicy>,
    /// policy in force when `derive_keys` ran (`None` = `policy` at reset, if `keys`)
    pub key_policy: Option<SecurityPolicy>,
}

impl Cfg {
    pub fn reset_line(&self) -> String {
        let sz = key(self.own).size;
        format!(
            "reset {} {} {} {} {} {} {} {} {}",
            policy_name(self.policy),
            mode_name(self.mode),
            if self.has_cert { sz.to_string() } else { "-".into() },
            if self.has_key { sz.to_string() } else { "-".into() },
            b(self.keys),
            if self.client { "client" } else { "server" },
            self.own,
            self.peer,
            self.seed
        )
    }

    pub fn parse(toks: &[&str]) -> Option<Cfg> {
        if toks.len() < 10 {
            return None;
        }
        Some(Cfg {
            policy: parse_policy(toks[1])?,
            mode: parse_mode(toks[2])?,
            has_cert: toks[3] != "-",
            has_key: toks[4] != "-",
            keys: toks[5] == "1",
            client: toks[6] == "client",
            own: toks[7].parse().ok().filter(|i| *i < 5)?,
            peer: toks[8].parse().ok().filter(|i| *i < 5)?,
            seed: toks[9].parse().ok()?,
            init_policy: None,
            key_policy: None,
        })
    }

    pub fn nonces(&self) -> (Vec<u8>, Vec<u8>) {
        let mut r = Rng::new(self.seed ^ 0x5eed);
        let n = nonce_len(self.init_policy.unwrap_or(self.policy));
        (r.bytes(n), r.bytes(n))
    }

    /// the receiver under test
    pub fn me(&self) -> SecureChannel {
        let (mine, theirs) = self.nonces();
        let mut ch = bare_channel(if self.client { Role::Client } else { Role::Server });
        ch.set_cert(if self.has_cert { Some(key(self.own).cert.clone()) } else { None });
        ch.set_private_key(if self.has_key { Some(key(self.own).private_key()) } else { None });
        ch.set_remote_cert(Some(key(self.peer).cert.clone()));
        ch.set_security_policy(self.policy);
        ch.set_security_mode(self.mode);
        ch.set_local_nonce(&mine);
        ch.set_remote_nonce(&theirs);
        if self.keys && self.policy != SecurityPolicy::None {
            ch.derive_keys();
        }
        ch
    }

    /// the peer that secures chunks for `me` (always fully equipped)
    pub fn peer_channel(&self, policy: SecurityPolicy, mode: MessageSecurityMode) -> SecureChannel {
        let (mine, theirs) = self.nonces();
        let mut ch = bare_channel(if self.client { Role::Server } else { Role::Client });
        ch.set_cert(Some(key(self.peer).cert.clone()));
        ch.set_private_key(Some(key(self.peer).private_key()));
        ch.set_remote_cert(Some(key(self.own).cert.clone()));
        ch.set_security_policy(policy);
        ch.set_security_mode(mode);
        ch.set_local_nonce(&theirs);
        ch.set_remote_nonce(&mine);
        if policy != SecurityPolicy::None && nonce_len(policy) == mine.len() {
            ch.derive_keys();
        }
        ch
    }

    /// (signing key, aes key, iv) the receiver uses to verify/decrypt (`remote_keys`)
    pub fn remote_keys(&self) -> Option<(Vec<u8>, Vec<u8>, Vec<u8>)> {
        let kp = self.key_policy.unwrap_or(self.policy);
        if !self.keys || kp == SecurityPolicy::None {
            return None;
        }
        let (mine, theirs) = self.nonces();
        let (s, k, iv) = kp.make_secure_channel_keys(&mine, &theirs);
        Some((s, k.value().to_vec(), iv))
    }
}

pub fn bare_channel(role: Role) -> SecureChannel {
    let store = Arc::new(RwLock::new(CertificateStore::new(&PathBuf::from(
        "/nonexistent/verif/pki",
    ))));
    SecureChannel::new(store, role, DecodingOptions::default())
}

// ------------------------------------------------------------------------------------------------
// building chunks

pub fn set_size(buf: &mut [u8], n: usize) {
    if buf.len() >= 8 {
        buf[4..8].copy_from_slice(&(n as u32).to_le_bytes());
    }
}

/// a chunk made and secured by the real sender code; None if the sender code fails or panics
pub fn secured_chunk(
    sender: &SecureChannel,
    mt: MessageChunkType,
    seq: u32,
    req: u32,
    body: &[u8],
) -> Option<Vec<u8>> {
    secured_chunk_f(sender, mt, MessageIsFinalType::Final, seq, req, body)
}

pub fn secured_chunk_f(
    sender: &SecureChannel,
    mt: MessageChunkType,
    fin: MessageIsFinalType,
    seq: u32,
    req: u32,
    body: &[u8],
) -> Option<Vec<u8>> {
    let r = std::panic::catch_unwind(std::panic::AssertUnwindSafe(|| {
        let chunk = MessageChunk::new(seq, req, mt, fin, sender, body).ok()?;
        let mut dst = vec![0u8; chunk.data.len() + 8192];
        let n = sender.apply_security(&chunk, &mut dst).ok()?;
        dst.truncate(n);
        Some(dst)
    }));
    r.ok().flatten()
}

pub fn enc_field(v: Option<&[u8]>) -> Vec<u8> {
    match v {
        None => (-1i32).to_le_bytes().to_vec(),
        Some(b) => {
            let mut o = (b.len() as i32).to_le_bytes().to_vec();
            o.extend_from_slice(b);
            o
        }
    }
}

pub fn rsa_padding(p: SecurityPolicy) -> (Padding, bool, usize) {
    // (padding, oaep with sha256, overhead)
    match p {
        SecurityPolicy::Basic128Rsa15 => (Padding::PKCS1, false, 11),
        SecurityPolicy::Aes256Sha256RsaPss => (Padding::PKCS1_OAEP, true, 66),
        _ => (Padding::PKCS1_OAEP, false, 42),
    }
}

/// OPN chunk assembled by hand: `plain` (sequence header, body, padding — everything that is
/// signed after the headers) is signed with the peer's key and encrypted with `enc_key`'s public
/// key; the three security-header fields are written as given.
pub fn craft_opn(
    policy: SecurityPolicy,
    signer: &KeyFix,
    enc_key: &KeyFix,
    uri: Option<&[u8]>,
    cert: Option<&[u8]>,
    thumb: Option<&[u8]>,
    plain: &[u8],
    sign_ok: bool,
) -> Vec<u8> {
    let mut out = b"OPNF".to_vec();
    out.extend_from_slice(&[0u8; 8]);
    out.extend(enc_field(uri));
    out.extend(enc_field(cert));
    out.extend(enc_field(thumb));
    let start = out.len();
    let k = enc_key.size;
    let (_, _, overhead) = rsa_padding(policy);
    let ptbs = k - overhead;
    let plain_len = plain.len() + signer.size;
    let blocks = (plain_len + ptbs - 1) / ptbs;
    let total = start + blocks * k;
    set_size(&mut out, total);
    let mut signed = out.clone();
    signed.extend_from_slice(plain);
    let mut sig = vec![0u8; signer.size];
    let _ = policy.asymmetric_sign(&signer.private_key(), &signed, &mut sig);
    if !sign_ok {
        sig[3] ^= 0x40;
    }
    let mut pt = plain.to_vec();
    pt.extend_from_slice(&sig);
    let mut ct = vec![0u8; blocks * k + k];
    let n = policy
        .asymmetric_encrypt(&enc_key.cert.public_key().unwrap(), &pt, &mut ct)
        .unwrap_or(0);
    ct.truncate(n);
    out.extend_from_slice(&ct);
    out
}

/// padding bytes as the sender would write them for `body_len` (see `padding_size`)
pub fn good_padding(sig_size: usize, enc_key_size: usize, ptbs: usize, body_len: usize) -> Vec<u8> {
    let min = if enc_key_size > 256 { 2 } else { 1 };
    let enc = 8 + body_len + sig_size + min;
    let pad = if enc % ptbs != 0 { ptbs - enc % ptbs } else { 0 };
    let n = pad + min;
    if min == 1 {
        vec![((n - 1) & 0xff) as u8; n]
    } else {
        let mut v = vec![((n - 2) & 0xff) as u8; n - 1];
        v.push(((n - 2) >> 8) as u8);
        v
    }
}

/// MSG/CLO chunk assembled by hand with the receiver's verification keys: `tail` is everything after
/// the 16 header bytes that gets signed (sequence header, body, padding — well formed or not); the
/// mac is right unless `mac_ok` is false; encrypted when the mode says so (needs a block-aligned
/// length, otherwise the bytes are left in clear).  None when the channel has no keys.
pub fn craft_sym(cfg: &Cfg, typ: &[u8; 3], flag: u8, tail: &[u8], mac_ok: bool) -> Option<Vec<u8>> {
    let (sk, ak, iv) = cfg.remote_keys()?;
    let sha1 = matches!(cfg.policy, SecurityPolicy::Basic128Rsa15 | SecurityPolicy::Basic256);
    let (md, sig) = if sha1 { (MessageDigest::sha1(), 20) } else { (MessageDigest::sha256(), 32) };
    let mut v = typ.to_vec();
    v.push(flag);
    v.extend_from_slice(&[0u8; 4]);
    v.extend_from_slice(&7u32.to_le_bytes());
    v.extend_from_slice(&9u32.to_le_bytes());
    v.extend_from_slice(tail);
    let n = v.len() + sig;
    set_size(&mut v, n);
    let k = PKey::hmac(&sk).ok()?;
    let mut s = openssl::sign::Signer::new(md, &k).ok()?;
    s.update(&v).ok()?;
    let mut mac = s.sign_to_vec().ok()?;
    if !mac_ok {
        mac[0] ^= 1;
    }
    v.extend_from_slice(&mac);
    if cfg.mode == MessageSecurityMode::SignAndEncrypt && (v.len() - 16) % 16 == 0 {
        let cipher = if ak.len() == 16 { openssl::symm::Cipher::aes_128_cbc() } else { openssl::symm::Cipher::aes_256_cbc() };
        let mut c = openssl::symm::Crypter::new(cipher, openssl::symm::Mode::Encrypt, &ak, Some(&iv)).ok()?;
        c.pad(false);
        let mut out = vec![0u8; v.len() + 16];
        let a = c.update(&v[16..], &mut out).ok()?;
        let b = c.finalize(&mut out[a..]).ok()?;
        out.truncate(a + b);
        v.truncate(16);
        v.extend_from_slice(&out);
    }
    Some(v)
}

// ------------------------------------------------------------------------------------------------
// answers

fn rd_field(src: &[u8], pos: &mut usize) -> Option<Option<Vec<u8>>> {
    if src.len() < *pos + 4 {
        return None;
    }
    let n = i32::from_le_bytes([src[*pos], src[*pos + 1], src[*pos + 2], src[*pos + 3]]);
    *pos += 4;
    if n == -1 {
        return Some(None);
    }
    if n < 0 || src.len() < *pos + n as usize {
        return None;
    }
    let v = src[*pos..*pos + n as usize].to_vec();
    *pos += n as usize;
    Some(Some(v))
}

fn rsa_decrypt_block(key: &PKey<Private>, policy: SecurityPolicy, block: &[u8]) -> Option<Vec<u8>> {
    let (padding, sha256, _) = rsa_padding(policy);
    let mut d = openssl::encrypt::Decrypter::new(key).ok()?;
    d.set_rsa_padding(padding).ok()?;
    if sha256 {
        d.set_rsa_oaep_md(MessageDigest::sha256()).ok()?;
        d.set_rsa_mgf1_md(MessageDigest::sha256()).ok()?;
    }
    let mut out = vec![0u8; d.decrypt_len(block).ok()?];
    let n = d.decrypt(block, &mut out).ok()?;
    out.truncate(n);
    if sha256 && n == 0 {
        return None; // the repo's OAEP-SHA256 wrapper treats an empty block as a failure
    }
    Some(out)
}

fn rsa_verify(cert_der: &[u8], policy: SecurityPolicy, data: &[u8], sig: &[u8]) -> &'static str {
    let cert = match openssl::x509::X509::from_der(cert_der) {
        Ok(c) => c,
        Err(_) => return "-",
    };
    let pk = match cert.public_key() {
        Ok(k) => k,
        Err(_) => return "-",
    };
    let md = match policy {
        SecurityPolicy::Basic128Rsa15 | SecurityPolicy::Basic256 => MessageDigest::sha1(),
        _ => MessageDigest::sha256(),
    };
    let mut v = match openssl::sign::Verifier::new(md, &pk) {
        Ok(v) => v,
        Err(_) => return "e",
    };
    if policy == SecurityPolicy::Aes256Sha256RsaPss {
        let _ = v.set_rsa_padding(Padding::PKCS1_PSS);
    } else {
        let _ = v.set_rsa_padding(Padding::PKCS1);
    }
    let _ = v.set_rsa_pss_saltlen(openssl::sign::RsaPssSaltlen::DIGEST_LENGTH);
    if v.update(data).is_err() {
        return "e";
    }
    match v.verify(sig) {
        Ok(true) => "1",
        Ok(false) => "0",
        Err(_) => "e",
    }
}

fn hmac_ok(md: MessageDigest, key: &[u8], data: &[u8], sig: &[u8]) -> bool {
    let k = PKey::hmac(key).unwrap();
    let mut s = openssl::sign::Signer::new(md, &k).unwrap();
    s.update(data).unwrap();
    let m = s.sign_to_vec().unwrap();
    m.len() == sig.len() && openssl::memcmp::eq(&m, sig)
}

fn aes_cbc_decrypt(key: &[u8], iv: &[u8], ct: &[u8]) -> Option<Vec<u8>> {
    let cipher = if key.len() == 16 {
        openssl::symm::Cipher::aes_128_cbc()
    } else {
        openssl::symm::Cipher::aes_256_cbc()
    };
    let mut c = openssl::symm::Crypter::new(cipher, openssl::symm::Mode::Decrypt, key, Some(iv)).ok()?;
    c.pad(false);
    let mut out = vec![0u8; ct.len() + 16];
    let n = c.update(ct, &mut out).ok()?;
    let m = c.finalize(&mut out[n..]).ok()?;
    out.truncate(n + m);
    Some(out)
}

/// The six answer tokens for `src` on a channel configured by `cfg` (see Drv/C09.lean).
pub fn answers(cfg: &Cfg, src: &[u8]) -> String {
    let mut cert_a = "-".to_string();
    let mut thumb_a = "0";
    let mut rsa_a = "-".to_string();
    let mut ver_a = "-";
    let mut aes_a = "-".to_string();
    let mut hm_a = "--".to_string();
    if src.len() >= 12 && &src[0..3] == b"OPN" {
        let mut pos = 12;
        let fields = (|| {
            let u = rd_field(src, &mut pos)?;
            let c = rd_field(src, &mut pos)?;
            let t = rd_field(src, &mut pos)?;
            Some((u, c, t))
        })();
        if let Some((u, c, t)) = fields {
            let start = pos;
            let policy = u
                .as_ref()
                .and_then(|u| std::str::from_utf8(u).ok())
                .map(SecurityPolicy::from_uri)
                .unwrap_or(SecurityPolicy::Unknown);
            let mut vk = None;
            if let Some(c) = c.as_ref() {
                if let Ok(x) = openssl::x509::X509::from_der(c) {
                    match x.public_key() {
                        Ok(k) => {
                            vk = Some(k.bits() as usize / 8);
                            cert_a = (k.bits() as usize / 8).to_string();
                        }
                        Err(_) => cert_a = "p".into(),
                    }
                }
            }
            if cfg.has_cert && t.as_deref().unwrap_or(&[]) == &key(cfg.own).thumb[..] {
                thumb_a = "1";
            }
            if cfg.has_key && policy != SecurityPolicy::Unknown && policy != SecurityPolicy::None {
                let kf = key(cfg.own);
                let enc = &src[start..];
                let mut items = Vec::new();
                let mut plain = Vec::new();
                let mut all = enc.len() % kf.size == 0;
                for blk in enc.chunks(kf.size) {
                    if blk.len() < kf.size {
                        break;
                    }
                    match rsa_decrypt_block(&kf.ossl, policy, blk) {
                        Some(p) => {
                            items.push(format!("x{}", hex(&p)));
                            plain.extend_from_slice(&p);
                        }
                        None => {
                            items.push("-".into());
                            all = false;
                            break;
                        }
                    }
                }
                rsa_a = format!("[{}]", items.join(","));
                if let (true, Some(vk), Some(c)) = (all, vk, c.as_ref()) {
                    if start + plain.len() >= vk {
                        let mut dst = src[..start].to_vec();
                        dst.extend_from_slice(&plain);
                        let off = start + plain.len() - vk;
                        ver_a = rsa_verify(c, policy, &dst[..off], &dst[off..off + vk]);
                    }
                }
            }
        }
    } else if src.len() >= 16 {
        if let Some((sk, ak, iv)) = cfg.remote_keys() {
            let mut data = None;
            if cfg.mode == MessageSecurityMode::SignAndEncrypt {
                if (src.len() - 16) % 16 == 0 {
                    match aes_cbc_decrypt(&ak, &iv, &src[16..]) {
                        Some(pt) => {
                            aes_a = format!("x{}", hex(&pt));
                            let mut d = src[..16].to_vec();
                            d.extend_from_slice(&pt);
                            data = Some(d);
                        }
                        None => aes_a = "e".into(),
                    }
                }
            } else {
                data = Some(src.to_vec());
            }
            if let Some(d) = data {
                let n = d.len();
                let h = |md: MessageDigest, sz: usize| -> char {
                    if n < sz {
                        '-'
                    } else if hmac_ok(md, &sk, &d[..n - sz], &d[n - sz..]) {
                        '1'
                    } else {
                        '0'
                    }
                };
                hm_a = format!("{}{}", h(MessageDigest::sha1(), 20), h(MessageDigest::sha256(), 32));
            }
        }
    }
    format!("{} {} {} {} {} {}", cert_a, thumb_a, rsa_a, ver_a, aes_a, hm_a)
}

pub fn recv_line(cfg: &Cfg, label: &str, src: &[u8]) -> String {
    format!("recv {} x{} {}", label, hex(src), answers(cfg, src))
}
