//! Shared machinery of the codec properties C01 / C02 / C03: value trees (prefix notation, one
//! token per atom), building the repo's own types from them and printing them back, type-directed
//! boundary-biased generators, the walkers the oracles use, and the op executors.
//!
//! Grammar (tokens separated by one space):
//!   str   := `-` | `s<hex of utf-8>`          bstr := `-` | `x<hex>`
//!   nid   := `n <ns> <u32>` | `s <ns> <str>` | `g <ns> x<32 hex>` | `b <ns> <bstr>`
//!   V     := `empty` | `bool 0|1` | `i8 n` | `u8 n` | `i16 n` | `u16 n` | `i32 n` | `u32 n` | `i64 n`
//!          | `u64 n` | `f32 g<8 hex>` | `f64 f<16 hex>` | `str <str>` | `dt <ticks>` | `guid x<32 hex>`
//!          | `bs <bstr>` | `xml <str>` | `nid <nid>` | `xnid <nid> <str> <server>` | `sc <u32>`
//!          | `qn <ns> <str>` | `lt <str> <str>` | `eo <nid> (none | b <bstr> | x <str>)`
//!          | `var V` | `dv DV` | `di DI` | `arr <type id> <n> V^n (nodims | dims <k> d^k)`
//!   DV    := `<bits>` then the present fields in the order value status srcTs srcPs srvTs srvPs
//!            (bits: 1 value, 2 status, 4 srcTs, 8 srvTs, 16 srcPs, 32 srvPs = field is Some)
//!   DI    := `<bits>` then the present fields in the order symbolic ns locale ltext addInfo
//!            innerStatus inner (bits: 1 symbolic, 2 ns, 4 ltext, 8 locale, 16 addInfo,
//!            32 innerStatus, 64 inner)
use crate::common::*;
use opcua::types::*;
use std::io::Cursor;
use std::sync::Arc;

pub mod dispatch;

// ---------------------------------------------------------------------------------------------
// DateTime values outside the i64 tick range (a caller can build them: `DateTime::ymd(40000,1,1)`,
// `From<chrono::DateTime<Utc>>`, arithmetic): ticks are carried as i128 in the value trees
// ---------------------------------------------------------------------------------------------

fn epoch_chrono() -> chrono::DateTime<chrono::Utc> {
    use chrono::TimeZone;
    chrono::Utc.with_ymd_and_hms(1601, 1, 1, 0, 0, 0).unwrap()
}

/// the tick count of the chrono value a `DateTime` holds, without going through `DateTime::ticks()`
pub fn true_ticks(d: &DateTime) -> i128 {
    let dur = d.as_chrono().signed_duration_since(epoch_chrono());
    let secs = dur.num_seconds();
    let nanos = (dur - chrono::TimeDelta::seconds(secs)).num_nanoseconds().unwrap_or(0);
    secs as i128 * 10_000_000 + (nanos / 100) as i128
}

/// inside the i64 range exactly what `DateTime::from(i64)` gives, outside it the chrono value
pub fn dt_from_ticks(t: i128) -> DateTime {
    if t >= i64::MIN as i128 && t <= i64::MAX as i128 {
        DateTime::from(t as i64)
    } else {
        let secs = (t / 10_000_000) as i64;
        let nanos = ((t % 10_000_000) * 100) as i64;
        DateTime::from(epoch_chrono() + chrono::TimeDelta::seconds(secs) + chrono::TimeDelta::nanoseconds(nanos))
    }
}

// ---------------------------------------------------------------------------------------------
// printing
// ---------------------------------------------------------------------------------------------

pub fn t_str(s: &UAString, out: &mut Vec<String>) {
    match s.value() {
        None => out.push("-".into()),
        Some(v) => out.push(format!("s{}", hex(v.as_bytes()))),
    }
}

pub fn t_bstr(s: &ByteString, out: &mut Vec<String>) {
    match &s.value {
        None => out.push("-".into()),
        Some(v) => out.push(format!("x{}", hex(v))),
    }
}

pub fn t_nid(n: &NodeId, out: &mut Vec<String>) {
    match &n.identifier {
        Identifier::Numeric(v) => {
            out.push("n".into());
            out.push(n.namespace.to_string());
            out.push(v.to_string());
        }
        Identifier::String(v) => {
            out.push("s".into());
            out.push(n.namespace.to_string());
            t_str(v, out);
        }
        Identifier::Guid(v) => {
            out.push("g".into());
            out.push(n.namespace.to_string());
            out.push(format!("x{}", hex(v.as_bytes())));
        }
        Identifier::ByteString(v) => {
            out.push("b".into());
            out.push(n.namespace.to_string());
            t_bstr(v, out);
        }
    }
}

pub fn type_id_num(t: VariantTypeId) -> u8 {
    match t {
        VariantTypeId::Array => 26,
        t => t.encoding_mask(),
    }
}

pub fn type_id_of(n: u8) -> Option<VariantTypeId> {
    if n == 26 {
        Some(VariantTypeId::Array)
    } else {
        VariantTypeId::from_encoding_mask(n).ok()
    }
}

pub fn t_variant(v: &Variant, out: &mut Vec<String>) {
    let mut p = |k: &str, x: String| {
        out.push(k.to_string());
        out.push(x);
    };
    match v {
        Variant::Empty => out.push("empty".into()),
        Variant::Boolean(x) => p("bool", b(*x).to_string()),
        Variant::SByte(x) => p("i8", x.to_string()),
        Variant::Byte(x) => p("u8", x.to_string()),
        Variant::Int16(x) => p("i16", x.to_string()),
        Variant::UInt16(x) => p("u16", x.to_string()),
        Variant::Int32(x) => p("i32", x.to_string()),
        Variant::UInt32(x) => p("u32", x.to_string()),
        Variant::Int64(x) => p("i64", x.to_string()),
        Variant::UInt64(x) => p("u64", x.to_string()),
        Variant::Float(x) => p("f32", format!("g{:08x}", x.to_bits())),
        Variant::Double(x) => p("f64", format!("f{:016x}", x.to_bits())),
        Variant::String(x) => {
            out.push("str".into());
            t_str(x, out)
        }
        Variant::DateTime(x) => p("dt", true_ticks(x).to_string()),
        Variant::Guid(x) => p("guid", format!("x{}", hex(x.as_bytes()))),
        Variant::StatusCode(x) => p("sc", x.bits().to_string()),
        Variant::ByteString(x) => {
            out.push("bs".into());
            t_bstr(x, out)
        }
        Variant::XmlElement(x) => {
            out.push("xml".into());
            t_str(x, out)
        }
        Variant::QualifiedName(x) => {
            out.push("qn".into());
            out.push(x.namespace_index.to_string());
            t_str(&x.name, out)
        }
        Variant::LocalizedText(x) => {
            out.push("lt".into());
            t_str(&x.locale, out);
            t_str(&x.text, out)
        }
        Variant::NodeId(x) => {
            out.push("nid".into());
            t_nid(x, out)
        }
        Variant::ExpandedNodeId(x) => {
            out.push("xnid".into());
            t_nid(&x.node_id, out);
            t_str(&x.namespace_uri, out);
            out.push(x.server_index.to_string())
        }
        Variant::ExtensionObject(x) => {
            out.push("eo".into());
            t_nid(&x.node_id, out);
            match &x.body {
                ExtensionObjectEncoding::None => out.push("none".into()),
                ExtensionObjectEncoding::ByteString(s) => {
                    out.push("b".into());
                    t_bstr(s, out)
                }
                ExtensionObjectEncoding::XmlElement(s) => {
                    out.push("x".into());
                    t_str(s, out)
                }
            }
        }
        Variant::Variant(x) => {
            out.push("var".into());
            t_variant(x, out)
        }
        Variant::DataValue(x) => {
            out.push("dv".into());
            t_dv(x, out)
        }
        Variant::DiagnosticInfo(x) => {
            out.push("di".into());
            t_di(x, out)
        }
        Variant::Array(a) => {
            out.push("arr".into());
            out.push(type_id_num(a.value_type).to_string());
            out.push(a.values.len().to_string());
            for e in &a.values {
                t_variant(e, out);
            }
            match &a.dimensions {
                None => out.push("nodims".into()),
                Some(d) => {
                    out.push("dims".into());
                    out.push(d.len().to_string());
                    for x in d {
                        out.push(x.to_string());
                    }
                }
            }
        }
    }
}

pub fn t_dv(d: &DataValue, out: &mut Vec<String>) {
    let bits = (d.value.is_some() as u8)
        | (d.status.is_some() as u8) << 1
        | (d.source_timestamp.is_some() as u8) << 2
        | (d.server_timestamp.is_some() as u8) << 3
        | (d.source_picoseconds.is_some() as u8) << 4
        | (d.server_picoseconds.is_some() as u8) << 5;
    out.push(bits.to_string());
    if let Some(v) = &d.value {
        t_variant(v, out);
    }
    if let Some(s) = &d.status {
        out.push(s.bits().to_string());
    }
    if let Some(t) = &d.source_timestamp {
        out.push(true_ticks(t).to_string());
    }
    if let Some(p) = &d.source_picoseconds {
        out.push(p.to_string());
    }
    if let Some(t) = &d.server_timestamp {
        out.push(true_ticks(t).to_string());
    }
    if let Some(p) = &d.server_picoseconds {
        out.push(p.to_string());
    }
}

pub fn t_di(d: &DiagnosticInfo, out: &mut Vec<String>) {
    let bits = (d.symbolic_id.is_some() as u8)
        | (d.namespace_uri.is_some() as u8) << 1
        | (d.localized_text.is_some() as u8) << 2
        | (d.locale.is_some() as u8) << 3
        | (d.additional_info.is_some() as u8) << 4
        | (d.inner_status_code.is_some() as u8) << 5
        | (d.inner_diagnostic_info.is_some() as u8) << 6;
    out.push(bits.to_string());
    if let Some(x) = d.symbolic_id {
        out.push(x.to_string());
    }
    if let Some(x) = d.namespace_uri {
        out.push(x.to_string());
    }
    if let Some(x) = d.locale {
        out.push(x.to_string());
    }
    if let Some(x) = d.localized_text {
        out.push(x.to_string());
    }
    if let Some(x) = &d.additional_info {
        t_str(x, out);
    }
    if let Some(x) = &d.inner_status_code {
        out.push(x.bits().to_string());
    }
    if let Some(x) = &d.inner_diagnostic_info {
        t_di(x, out);
    }
}

/// A value of one of the three top-level types the ops talk about.
#[derive(Clone, Debug)]
pub enum Val {
    V(Variant),
    DV(DataValue),
    DI(DiagnosticInfo),
}

impl Val {
    pub fn type_name(&self) -> &'static str {
        match self {
            Val::V(_) => "Variant",
            Val::DV(_) => "DataValue",
            Val::DI(_) => "DiagnosticInfo",
        }
    }
    pub fn tree(&self) -> String {
        let mut out = Vec::new();
        match self {
            Val::V(v) => t_variant(v, &mut out),
            Val::DV(v) => t_dv(v, &mut out),
            Val::DI(v) => t_di(v, &mut out),
        }
        out.join(" ")
    }
    pub fn byte_len(&self) -> usize {
        match self {
            Val::V(v) => v.byte_len(),
            Val::DV(v) => v.byte_len(),
            Val::DI(v) => v.byte_len(),
        }
    }
    /// (bytes written, size reported by `encode`)
    pub fn encode(&self) -> (Vec<u8>, Result<usize, StatusCode>) {
        let mut c = Cursor::new(Vec::new());
        let r = match self {
            Val::V(v) => v.encode(&mut c),
            Val::DV(v) => v.encode(&mut c),
            Val::DI(v) => v.encode(&mut c),
        };
        (c.into_inner(), r)
    }
    /// `encode` for generators: a panicking encoder (an `assert_eq!(size, byte_len)`) must not
    /// kill the generator, the op that exhibits it is still emitted
    pub fn try_encode(&self) -> Option<Vec<u8>> {
        let prev = std::panic::take_hook();
        std::panic::set_hook(Box::new(|_| {}));
        let r = std::panic::catch_unwind(std::panic::AssertUnwindSafe(|| self.encode()));
        std::panic::set_hook(prev);
        match r {
            Ok((bytes, Ok(_))) => Some(bytes),
            _ => None,
        }
    }
    /// (value, bytes consumed)
    pub fn decode(ty: &str, bytes: &[u8], o: &DecodingOptions) -> Option<Result<(Val, usize), StatusCode>> {
        let mut c = Cursor::new(bytes);
        let r = match ty {
            "Variant" => Variant::decode(&mut c, o).map(Val::V),
            "DataValue" => DataValue::decode(&mut c, o).map(Val::DV),
            "DiagnosticInfo" => DiagnosticInfo::decode(&mut c, o).map(Val::DI),
            _ => return None,
        };
        Some(r.map(|v| (v, c.position() as usize)))
    }
}

// ---------------------------------------------------------------------------------------------
// parsing
// ---------------------------------------------------------------------------------------------

pub struct Toks<'a> {
    pub t: &'a [&'a str],
    pub i: usize,
}

impl<'a> Toks<'a> {
    pub fn new(t: &'a [&'a str]) -> Self {
        Toks { t, i: 0 }
    }
    pub fn next(&mut self) -> Option<&'a str> {
        let x = self.t.get(self.i).copied();
        self.i += 1;
        x
    }
    pub fn done(&self) -> bool {
        self.i >= self.t.len()
    }
    fn num<T: std::str::FromStr>(&mut self) -> Option<T> {
        self.next()?.parse().ok()
    }
}

pub fn p_str(t: &mut Toks) -> Option<UAString> {
    let x = t.next()?;
    if x == "-" {
        Some(UAString::null())
    } else {
        let bytes = unhex(&x[1..])?;
        Some(UAString::from(String::from_utf8(bytes).ok()?))
    }
}

pub fn p_bstr(t: &mut Toks) -> Option<ByteString> {
    let x = t.next()?;
    if x == "-" {
        Some(ByteString::null())
    } else {
        Some(ByteString { value: Some(unhex(&x[1..])?) })
    }
}

fn p_guid(t: &mut Toks) -> Option<Guid> {
    let bytes = unhex(t.next()?)?;
    let a: [u8; 16] = bytes.try_into().ok()?;
    Some(Guid::from_bytes(a))
}

pub fn p_nid(t: &mut Toks) -> Option<NodeId> {
    let k = t.next()?;
    let ns: u16 = t.num()?;
    let identifier = match k {
        "n" => Identifier::Numeric(t.num()?),
        "s" => Identifier::String(p_str(t)?),
        "g" => Identifier::Guid(p_guid(t)?),
        "b" => Identifier::ByteString(p_bstr(t)?),
        _ => return None,
    };
    Some(NodeId { namespace: ns, identifier })
}

fn bits_of(x: &str) -> Option<u64> {
    u64::from_str_radix(x.get(1..)?, 16).ok()
}

pub fn p_variant(t: &mut Toks) -> Option<Variant> {
    let k = t.next()?;
    Some(match k {
        "empty" => Variant::Empty,
        "bool" => Variant::Boolean(t.next()? == "1"),
        "i8" => Variant::SByte(t.num()?),
        "u8" => Variant::Byte(t.num()?),
        "i16" => Variant::Int16(t.num()?),
        "u16" => Variant::UInt16(t.num()?),
        "i32" => Variant::Int32(t.num()?),
        "u32" => Variant::UInt32(t.num()?),
        "i64" => Variant::Int64(t.num()?),
        "u64" => Variant::UInt64(t.num()?),
        "f32" => Variant::Float(f32::from_bits(bits_of(t.next()?)? as u32)),
        "f64" => Variant::Double(f64::from_bits(bits_of(t.next()?)?)),
        "str" => Variant::String(p_str(t)?),
        "dt" => Variant::DateTime(Box::new(dt_from_ticks(t.num::<i128>()?))),
        "guid" => Variant::Guid(Box::new(p_guid(t)?)),
        "sc" => Variant::StatusCode(StatusCode::from_bits_truncate(t.num()?)),
        "bs" => Variant::ByteString(p_bstr(t)?),
        "xml" => Variant::XmlElement(p_str(t)?),
        "qn" => {
            let ns = t.num()?;
            Variant::QualifiedName(Box::new(QualifiedName { namespace_index: ns, name: p_str(t)? }))
        }
        "lt" => {
            let locale = p_str(t)?;
            let text = p_str(t)?;
            Variant::LocalizedText(Box::new(LocalizedText { locale, text }))
        }
        "nid" => Variant::NodeId(Box::new(p_nid(t)?)),
        "xnid" => {
            let node_id = p_nid(t)?;
            let namespace_uri = p_str(t)?;
            let server_index = t.num()?;
            Variant::ExpandedNodeId(Box::new(ExpandedNodeId { node_id, namespace_uri, server_index }))
        }
        "eo" => {
            let node_id = p_nid(t)?;
            let body = match t.next()? {
                "none" => ExtensionObjectEncoding::None,
                "b" => ExtensionObjectEncoding::ByteString(p_bstr(t)?),
                "x" => ExtensionObjectEncoding::XmlElement(p_str(t)?),
                _ => return None,
            };
            Variant::ExtensionObject(Box::new(ExtensionObject { node_id, body }))
        }
        "var" => Variant::Variant(Box::new(p_variant(t)?)),
        "dv" => Variant::DataValue(Box::new(p_dv(t)?)),
        "di" => Variant::DiagnosticInfo(Box::new(p_di(t)?)),
        "arr" => {
            let ty: u8 = t.num()?;
            let n: usize = t.num()?;
            let mut values = Vec::new();
            for _ in 0..n {
                values.push(p_variant(t)?);
            }
            let dimensions = match t.next()? {
                "nodims" => None,
                "dims" => {
                    let k: usize = t.num()?;
                    let mut d = Vec::new();
                    for _ in 0..k {
                        d.push(t.num::<u32>()?);
                    }
                    Some(d)
                }
                _ => return None,
            };
            Variant::Array(Box::new(Array { value_type: type_id_of(ty)?, values, dimensions }))
        }
        _ => return None,
    })
}

pub fn p_dv(t: &mut Toks) -> Option<DataValue> {
    let bits: u8 = t.num()?;
    let value = if bits & 1 != 0 { Some(p_variant(t)?) } else { None };
    let status = if bits & 2 != 0 { Some(StatusCode::from_bits_truncate(t.num()?)) } else { None };
    let source_timestamp = if bits & 4 != 0 { Some(dt_from_ticks(t.num::<i128>()?)) } else { None };
    let source_picoseconds = if bits & 16 != 0 { Some(t.num()?) } else { None };
    let server_timestamp = if bits & 8 != 0 { Some(dt_from_ticks(t.num::<i128>()?)) } else { None };
    let server_picoseconds = if bits & 32 != 0 { Some(t.num()?) } else { None };
    Some(DataValue { value, status, source_timestamp, source_picoseconds, server_timestamp, server_picoseconds })
}

pub fn p_di(t: &mut Toks) -> Option<DiagnosticInfo> {
    let bits: u8 = t.num()?;
    let symbolic_id = if bits & 1 != 0 { Some(t.num()?) } else { None };
    let namespace_uri = if bits & 2 != 0 { Some(t.num()?) } else { None };
    let locale = if bits & 8 != 0 { Some(t.num()?) } else { None };
    let localized_text = if bits & 4 != 0 { Some(t.num()?) } else { None };
    let additional_info = if bits & 16 != 0 { Some(p_str(t)?) } else { None };
    let inner_status_code = if bits & 32 != 0 { Some(StatusCode::from_bits_truncate(t.num()?)) } else { None };
    let inner_diagnostic_info = if bits & 64 != 0 { Some(Box::new(p_di(t)?)) } else { None };
    Some(DiagnosticInfo {
        symbolic_id,
        namespace_uri,
        locale,
        localized_text,
        additional_info,
        inner_status_code,
        inner_diagnostic_info,
    })
}

pub fn p_val(ty: &str, toks: &[&str]) -> Option<Val> {
    let mut t = Toks::new(toks);
    let v = match ty {
        "Variant" => Val::V(p_variant(&mut t)?),
        "DataValue" => Val::DV(p_dv(&mut t)?),
        "DiagnosticInfo" => Val::DI(p_di(&mut t)?),
        _ => return None,
    };
    if t.done() {
        Some(v)
    } else {
        None
    }
}

/// `[maxStr,maxBytes,maxArr,maxDepth,maxMsg]`
#[derive(Clone, Copy, Debug, PartialEq)]
pub struct Lim {
    pub max_str: usize,
    pub max_bytes: usize,
    pub max_arr: usize,
    pub max_depth: u64,
    pub max_msg: usize,
    /// 0 = explicit numbers, 1 = `DecodingOptions::default()`, 2 = `DecodingOptions::minimal()`
    pub named: u8,
}

/// limits at and beyond the i32 / u32 boundaries: a `usize` limit that is cast to a narrower type wraps there
pub const HUGE_LIMITS: [usize; 6] = [(1 << 31) - 1, 1 << 31, (1 << 32) - 1, 1 << 32, (1 << 32) + 5, usize::MAX];

impl Lim {
    pub fn parse(s: &str) -> Option<Lim> {
        // `default` / `minimal`: the real constructors are used (see `options`), so their constants are tied too
        if s == "default" {
            return Some(Lim { named: 1, ..Lim::default() });
        }
        if s == "minimal" {
            return Some(Lim { named: 2, ..Lim::minimal() });
        }
        let inner = s.strip_prefix('[')?.strip_suffix(']')?;
        let v: Vec<u64> = inner.split(',').map(|x| x.parse().ok()).collect::<Option<_>>()?;
        if v.len() != 5 {
            return None;
        }
        Some(Lim { max_str: v[0] as usize, max_bytes: v[1] as usize, max_arr: v[2] as usize, max_depth: v[3], max_msg: v[4] as usize, named: 0 })
    }
    pub fn show(&self) -> String {
        if self.named == 1 {
            return "default".to_string();
        }
        if self.named == 2 {
            return "minimal".to_string();
        }
        format!("[{},{},{},{},{}]", self.max_str, self.max_bytes, self.max_arr, self.max_depth, self.max_msg)
    }
    pub fn default() -> Lim {
        Lim { max_str: 65535, max_bytes: 65535, max_arr: 1000, max_depth: 10, max_msg: 327675, named: 0 }
    }
    pub fn minimal() -> Lim {
        Lim { max_str: 8192, max_bytes: 8192, max_arr: 8192, max_depth: 1, max_msg: 327675, named: 0 }
    }
    pub fn options(&self) -> DecodingOptions {
        if self.named == 1 {
            return DecodingOptions::default();
        }
        if self.named == 2 {
            return DecodingOptions::minimal();
        }
        DecodingOptions {
            max_string_length: self.max_str,
            max_byte_string_length: self.max_bytes,
            max_array_length: self.max_arr,
            max_message_size: self.max_msg,
            decoding_depth_gauge: Arc::new(DepthGauge::new(self.max_depth)),
            ..Default::default()
        }
    }
}

// ---------------------------------------------------------------------------------------------
// walkers used by the oracles (written from the property texts)
// ---------------------------------------------------------------------------------------------

/// Largest string / byte string / array lengths that occur anywhere in a value, and the nesting
/// of recursive containers (Variant in Variant, DataValue, DiagnosticInfo, ExtensionObject).
#[derive(Default, Debug, Clone, Copy)]
pub struct Extent {
    pub max_str: usize,
    pub max_bytes: usize,
    pub max_arr: usize,
    pub nest: u64,
}

impl Extent {
    pub fn within(&self, l: &Lim) -> bool {
        self.max_str <= l.max_str && self.max_bytes <= l.max_bytes && self.max_arr <= l.max_arr
    }
    fn s(&mut self, x: &UAString) {
        if let Some(v) = x.value() {
            self.max_str = self.max_str.max(v.len());
        }
    }
    fn bs(&mut self, x: &ByteString) {
        if let Some(v) = &x.value {
            self.max_bytes = self.max_bytes.max(v.len());
        }
    }
    fn nid(&mut self, n: &NodeId) {
        match &n.identifier {
            Identifier::String(s) => self.s(s),
            Identifier::ByteString(s) => self.bs(s),
            _ => {}
        }
    }
    pub fn variant(&mut self, v: &Variant, depth: u64) {
        match v {
            Variant::String(x) | Variant::XmlElement(x) => self.s(x),
            Variant::ByteString(x) => self.bs(x),
            Variant::QualifiedName(x) => self.s(&x.name),
            // an empty locale / text is not on the wire
            Variant::LocalizedText(x) => {
                self.s(&x.locale);
                self.s(&x.text)
            }
            Variant::NodeId(x) => self.nid(x),
            Variant::ExpandedNodeId(x) => {
                self.nid(&x.node_id);
                self.s(&x.namespace_uri)
            }
            Variant::ExtensionObject(x) => {
                self.nest = self.nest.max(depth + 1);
                self.nid(&x.node_id);
                match &x.body {
                    ExtensionObjectEncoding::None => {}
                    ExtensionObjectEncoding::ByteString(s) => self.bs(s),
                    ExtensionObjectEncoding::XmlElement(s) => self.s(s),
                }
            }
            Variant::Variant(x) => {
                self.nest = self.nest.max(depth + 1);
                self.variant(x, depth + 1)
            }
            Variant::DataValue(x) => self.dv(x, depth),
            Variant::DiagnosticInfo(x) => self.di(x, depth),
            Variant::Array(a) => {
                self.max_arr = self.max_arr.max(a.values.len());
                if !a.values.is_empty() {
                    if let Some(d) = &a.dimensions {
                        self.max_arr = self.max_arr.max(d.len());
                    }
                }
                for e in &a.values {
                    self.variant(e, depth);
                }
            }
            _ => {}
        }
    }
    pub fn dv(&mut self, d: &DataValue, depth: u64) {
        self.nest = self.nest.max(depth + 1);
        if let Some(v) = &d.value {
            self.variant(v, depth + 1);
        }
    }
    pub fn di(&mut self, d: &DiagnosticInfo, depth: u64) {
        self.nest = self.nest.max(depth + 1);
        if let Some(s) = &d.additional_info {
            self.s(s);
        }
        if let Some(i) = &d.inner_diagnostic_info {
            self.di(i, depth + 1);
        }
    }
    pub fn of(v: &Val) -> Extent {
        let mut e = Extent::default();
        match v {
            Val::V(v) => e.variant(v, 0),
            Val::DV(v) => e.dv(v, 0),
            Val::DI(v) => e.di(v, 0),
        }
        e
    }
}

/// "valid value" of the property: arrays are homogeneous, of a scalar element type, without
/// nested arrays, and their dimensions (if any) multiply to the number of values.
pub fn valid_variant(v: &Variant) -> bool {
    match v {
        Variant::Variant(x) => valid_variant(x),
        Variant::DataValue(x) => x.value.as_ref().map_or(true, valid_variant),
        Variant::Array(a) => {
            if matches!(a.value_type, VariantTypeId::Empty | VariantTypeId::Array) {
                return false;
            }
            if a.values.len() > i32::MAX as usize {
                return false;
            }
            for e in &a.values {
                if e.type_id() != a.value_type || !valid_variant(e) {
                    return false;
                }
            }
            if let (Some(d), false) = (&a.dimensions, a.values.is_empty()) {
                let mut p: u64 = 1;
                for x in d {
                    if *x == 0 {
                        return false;
                    }
                    p = p.saturating_mul(*x as u64);
                }
                if p != a.values.len() as u64 {
                    return false;
                }
            }
            true
        }
        _ => true,
    }
}

pub fn valid(v: &Val) -> bool {
    match v {
        Val::V(v) => valid_variant(v),
        Val::DV(v) => v.value.as_ref().map_or(true, valid_variant),
        Val::DI(_) => true,
    }
}

/// does the value contain an array without values that carries dimensions?
pub fn has_empty_array_with_dims(v: &Variant) -> bool {
    match v {
        Variant::Variant(x) => has_empty_array_with_dims(x),
        Variant::DataValue(x) => x.value.as_ref().map_or(false, has_empty_array_with_dims),
        Variant::Array(a) => {
            (a.values.is_empty() && a.dimensions.is_some()) || a.values.iter().any(has_empty_array_with_dims)
        }
        _ => false,
    }
}

// ---- the documented normalisations of C01 (written from the property text) ----

fn norm_str(s: &UAString) -> UAString {
    if s.is_empty() {
        UAString::null()
    } else {
        s.clone()
    }
}

fn norm_dt(t: &DateTime) -> DateTime {
    // clamped to 1601-01-01 .. 9999-12-31T23:59:59
    let ticks = true_ticks(t).clamp(0, DateTime::endtimes_ticks() as i128);
    DateTime::from(ticks as i64)
}

pub fn norm_variant(v: &Variant) -> Variant {
    match v {
        Variant::LocalizedText(x) => {
            Variant::LocalizedText(Box::new(LocalizedText { locale: norm_str(&x.locale), text: norm_str(&x.text) }))
        }
        Variant::DateTime(x) => Variant::DateTime(Box::new(norm_dt(x))),
        Variant::Variant(x) => Variant::Variant(Box::new(norm_variant(x))),
        Variant::DataValue(x) => Variant::DataValue(Box::new(norm_dv(x))),
        Variant::Array(a) => Variant::Array(Box::new(Array {
            value_type: a.value_type,
            values: a.values.iter().map(norm_variant).collect(),
            // an array without values comes back with empty dimensions
            dimensions: if a.values.is_empty() { Some(vec![]) } else { a.dimensions.clone() },
        })),
        x => x.clone(),
    }
}

pub fn norm_dv(d: &DataValue) -> DataValue {
    let source_timestamp = d.source_timestamp.as_ref().map(norm_dt);
    let server_timestamp = d.server_timestamp.as_ref().map(norm_dt);
    DataValue {
        value: d.value.as_ref().map(norm_variant),
        status: d.status,
        source_picoseconds: if source_timestamp.is_some() { d.source_picoseconds } else { None },
        source_timestamp,
        server_picoseconds: if server_timestamp.is_some() { d.server_picoseconds } else { None },
        server_timestamp,
    }
}

pub fn norm(v: &Val) -> Val {
    match v {
        Val::V(v) => Val::V(norm_variant(v)),
        Val::DV(v) => Val::DV(norm_dv(v)),
        Val::DI(v) => Val::DI(v.clone()),
    }
}

// ---------------------------------------------------------------------------------------------
// generators
// ---------------------------------------------------------------------------------------------

pub const END_TICKS: i64 = 2_650_467_743_990_000_000;

pub struct Gen<'a> {
    pub rng: &'a mut Rng,
    /// candidate string / byte string lengths
    pub lens: Vec<usize>,
    /// candidate array lengths
    pub arr_lens: Vec<usize>,
    /// emit ill-formed arrays (dimensions that do not match) now and then
    pub ill_formed: bool,
}

impl<'a> Gen<'a> {
    pub fn new(rng: &'a mut Rng) -> Gen<'a> {
        Gen { rng, lens: vec![0, 1, 2, 3, 4, 5, 7, 8, 16], arr_lens: vec![0, 0, 1, 1, 2, 3, 4, 6], ill_formed: true }
    }

    pub fn string_of_len(&mut self, n: usize) -> String {
        // n bytes of UTF-8: multi-byte characters while they fit, then ASCII
        let mut s = String::new();
        while s.len() < n {
            let left = n - s.len();
            let c = match self.rng.below(8) {
                0 if left >= 4 => '\u{1F600}',
                1 if left >= 3 => '\u{20AC}',
                2 if left >= 2 => '\u{e9}',
                3 => '\0',
                4 => '\u{7f}',
                _ => (b'a' + self.rng.below(26) as u8) as char,
            };
            s.push(c);
        }
        s
    }

    pub fn ua_string(&mut self) -> UAString {
        match self.rng.below(6) {
            0 => UAString::null(),
            1 => UAString::from(""),
            _ => {
                let n = *self.rng.pick(&self.lens.clone());
                UAString::from(self.string_of_len(n))
            }
        }
    }

    pub fn byte_string(&mut self) -> ByteString {
        match self.rng.below(6) {
            0 => ByteString::null(),
            1 => ByteString { value: Some(vec![]) },
            _ => {
                let n = *self.rng.pick(&self.lens.clone());
                ByteString { value: Some(self.rng.bytes(n)) }
            }
        }
    }

    fn u_boundary(&mut self, bits: u32) -> u64 {
        let max = if bits == 64 { u64::MAX } else { (1u64 << bits) - 1 };
        match self.rng.below(8) {
            0 => 0,
            1 => 1,
            2 => max,
            3 => max - 1,
            4 => max / 2,
            5 => max / 2 + 1,
            6 => 255.min(max) + self.rng.below(3).min(max - 255.min(max)),
            _ => self.rng.next() & max,
        }
    }

    pub fn ticks(&mut self) -> i128 {
        match self.rng.below(20) {
            0 => 0,
            1 => -1,
            2 => 1,
            3 => END_TICKS as i128,
            4 => END_TICKS as i128 + 1,
            5 => END_TICKS as i128 - 1,
            6 => i64::MAX as i128,
            7 => i64::MAX as i128 - 1,
            8 => i64::MIN as i128,
            9 => i64::MIN as i128 + 1,
            10 => 132_000_000_000_000_000 + (self.rng.next() % 10_000_000_000) as i128,
            // beyond the i64 range: years 30829 … 262000 and −27626 … −262000
            11 => i64::MAX as i128 + 1,
            12 => i64::MIN as i128 - 1,
            13 => 12_000_000_000_000_000_000,
            14 => -12_000_000_000_000_000_000,
            15 => 79_000_000_000_000_000_000,
            16 => -79_000_000_000_000_000_000 + (self.rng.next() % 1000) as i128,
            _ => self.rng.next() as i64 as i128,
        }
    }

    pub fn node_id(&mut self) -> NodeId {
        let ns = match self.rng.below(6) {
            0 | 1 => 0,
            2 => 255,
            3 => 256,
            4 => 65535,
            _ => self.rng.below(300) as u16,
        };
        let identifier = match self.rng.below(8) {
            0..=3 => Identifier::Numeric(match self.rng.below(8) {
                0 => 0,
                1 => 255,
                2 => 256,
                3 => 65535,
                4 => 65536,
                5 => u32::MAX,
                _ => self.rng.below(70000) as u32,
            }),
            4 | 5 => Identifier::String(self.ua_string()),
            6 => {
                let b: [u8; 16] = self.rng.bytes(16).try_into().unwrap();
                Identifier::Guid(Guid::from_bytes(b))
            }
            _ => Identifier::ByteString(self.byte_string()),
        };
        NodeId { namespace: ns, identifier }
    }

    /// a scalar of the given built-in type id (1..=22)
    pub fn scalar(&mut self, ty: u8) -> Variant {
        match ty {
            1 => Variant::Boolean(self.rng.chance(1, 2)),
            2 => Variant::SByte(self.u_boundary(8) as i8),
            3 => Variant::Byte(self.u_boundary(8) as u8),
            4 => Variant::Int16(self.u_boundary(16) as i16),
            5 => Variant::UInt16(self.u_boundary(16) as u16),
            6 => Variant::Int32(self.u_boundary(32) as i32),
            7 => Variant::UInt32(self.u_boundary(32) as u32),
            8 => Variant::Int64(self.u_boundary(64) as i64),
            9 => Variant::UInt64(self.u_boundary(64)),
            10 => Variant::Float(f32::from_bits(match self.rng.below(8) {
                0 => 0x7fc0_0000,
                1 => 0x7f80_0001,
                2 => 0xff80_0000,
                3 => 0x8000_0000,
                4 => 0x3f00_0000,
                5 => 0xffff_ffff,
                _ => self.rng.next() as u32,
            })),
            11 => Variant::Double(f64::from_bits(match self.rng.below(8) {
                0 => 0x7ff8_0000_0000_0000,
                1 => 0x7ff0_0000_0000_0001,
                2 => 0xfff0_0000_0000_0000,
                3 => 0x8000_0000_0000_0000,
                4 => 0x4330_0000_0000_0001,
                5 => 0xffff_ffff_ffff_ffff,
                _ => self.rng.next(),
            })),
            12 => Variant::String(self.ua_string()),
            13 => Variant::DateTime(Box::new(dt_from_ticks(self.ticks()))),
            14 => {
                let b: [u8; 16] = self.rng.bytes(16).try_into().unwrap();
                Variant::Guid(Box::new(Guid::from_bytes(b)))
            }
            15 => Variant::ByteString(self.byte_string()),
            16 => Variant::XmlElement(self.ua_string()),
            17 => Variant::NodeId(Box::new(self.node_id())),
            18 => {
                let node_id = self.node_id();
                let namespace_uri = self.ua_string();
                let server_index = match self.rng.below(4) {
                    0 | 1 => 0,
                    2 => 1,
                    _ => self.rng.next() as u32,
                };
                Variant::ExpandedNodeId(Box::new(ExpandedNodeId { node_id, namespace_uri, server_index }))
            }
            19 => Variant::StatusCode(StatusCode::from_bits_truncate(match self.rng.below(4) {
                0 => 0,
                1 => 0x8000_0000,
                2 => u32::MAX,
                _ => self.rng.next() as u32,
            })),
            20 => {
                let ns = self.u_boundary(16) as u16;
                Variant::QualifiedName(Box::new(QualifiedName { namespace_index: ns, name: self.ua_string() }))
            }
            21 => {
                let locale = self.ua_string();
                let text = self.ua_string();
                Variant::LocalizedText(Box::new(LocalizedText { locale, text }))
            }
            _ => {
                let node_id = self.node_id();
                let body = match self.rng.below(3) {
                    0 => ExtensionObjectEncoding::None,
                    1 => ExtensionObjectEncoding::ByteString(self.byte_string()),
                    _ => ExtensionObjectEncoding::XmlElement(self.ua_string()),
                };
                Variant::ExtensionObject(Box::new(ExtensionObject { node_id, body }))
            }
        }
    }

    /// a value whose `type_id` has the given number (1..=25), not an array
    pub fn of_type(&mut self, ty: u8, depth: u32) -> Variant {
        match ty {
            23 => Variant::DataValue(Box::new(self.data_value(depth))),
            24 => Variant::Variant(Box::new(self.variant(depth))),
            25 => Variant::DiagnosticInfo(Box::new(self.diagnostic_info(depth))),
            t => self.scalar(t),
        }
    }

    fn dims_for(&mut self, n: usize) -> Option<Vec<u32>> {
        match self.rng.below(6) {
            0 | 1 => None,
            2 => Some(vec![n as u32]),
            3 => {
                // a factorisation
                let mut d = Vec::new();
                let mut left = n.max(1);
                for f in [2usize, 3, 2] {
                    if left % f == 0 && left > 1 {
                        d.push(f as u32);
                        left /= f;
                    }
                }
                d.push(left as u32);
                if self.rng.chance(1, 2) {
                    d.push(1);
                }
                Some(d)
            }
            4 => {
                // [] is a valid dimension list of a one-element array only
                if n == 1 || self.ill_formed {
                    Some(vec![])
                } else {
                    None
                }
            }
            _ => {
                if self.ill_formed {
                    // do not match the number of values (or contain 0)
                    Some(match self.rng.below(3) {
                        0 => vec![n as u32 + 1],
                        1 => vec![0],
                        _ => vec![65536, 65536],
                    })
                } else {
                    Some(vec![n as u32, 1])
                }
            }
        }
    }

    pub fn array(&mut self, depth: u32) -> Variant {
        let ty = if depth == 0 { 1 + self.rng.below(22) as u8 } else { 1 + self.rng.below(25) as u8 };
        let n = *self.rng.pick(&self.arr_lens.clone());
        let d = depth.saturating_sub(1);
        let values: Vec<Variant> = (0..n).map(|_| self.of_type(ty, d)).collect();
        let dimensions = if n == 0 {
            match self.rng.below(4) {
                0 => None,
                1 => Some(vec![]),
                2 => Some(vec![0]),
                _ => Some(vec![2, 3]),
            }
        } else {
            self.dims_for(n)
        };
        Variant::Array(Box::new(Array { value_type: type_id_of(ty).unwrap(), values, dimensions }))
    }

    pub fn variant(&mut self, depth: u32) -> Variant {
        let w_rec = if depth == 0 { 0 } else { 5 };
        match self.rng.weighted(&[1, 14, w_rec, 4]) {
            0 => Variant::Empty,
            1 => {
                let t = 1 + self.rng.below(22) as u8;
                self.scalar(t)
            }
            2 => {
                let t = 23 + self.rng.below(3) as u8;
                self.of_type(t, depth - 1)
            }
            _ => self.array(depth),
        }
    }

    pub fn data_value(&mut self, depth: u32) -> DataValue {
        let bits = match self.rng.below(6) {
            0 => 0,
            1 => 63,
            2 => 1,
            _ => self.rng.below(64) as u8,
        };
        let bits = if depth == 0 && self.rng.chance(1, 2) { bits & !1 } else { bits };
        DataValue {
            value: if bits & 1 != 0 { Some(self.variant(depth.saturating_sub(1))) } else { None },
            status: if bits & 2 != 0 { Some(StatusCode::from_bits_truncate(self.rng.next() as u32)) } else { None },
            source_timestamp: if bits & 4 != 0 { Some(dt_from_ticks(self.ticks())) } else { None },
            source_picoseconds: if bits & 16 != 0 { Some(self.u_boundary(16) as u16) } else { None },
            server_timestamp: if bits & 8 != 0 { Some(dt_from_ticks(self.ticks())) } else { None },
            server_picoseconds: if bits & 32 != 0 { Some(self.u_boundary(16) as u16) } else { None },
        }
    }

    pub fn diagnostic_info(&mut self, depth: u32) -> DiagnosticInfo {
        let bits = match self.rng.below(5) {
            0 => 0,
            1 => 127,
            _ => self.rng.below(128) as u8,
        };
        let inner = bits & 64 != 0 && depth > 0;
        DiagnosticInfo {
            symbolic_id: if bits & 1 != 0 { Some(self.u_boundary(32) as i32) } else { None },
            namespace_uri: if bits & 2 != 0 { Some(self.u_boundary(32) as i32) } else { None },
            locale: if bits & 8 != 0 { Some(self.u_boundary(32) as i32) } else { None },
            localized_text: if bits & 4 != 0 { Some(self.u_boundary(32) as i32) } else { None },
            additional_info: if bits & 16 != 0 { Some(self.ua_string()) } else { None },
            inner_status_code: if bits & 32 != 0 { Some(StatusCode::from_bits_truncate(self.rng.next() as u32)) } else { None },
            inner_diagnostic_info: if inner { Some(Box::new(self.diagnostic_info(depth - 1))) } else { None },
        }
    }

    pub fn val(&mut self, depth: u32) -> Val {
        match self.rng.weighted(&[8, 2, 1]) {
            0 => Val::V(self.variant(depth)),
            1 => Val::DV(self.data_value(depth)),
            _ => Val::DI(self.diagnostic_info(depth)),
        }
    }
}

// ---------------------------------------------------------------------------------------------
// op executors (the implementation side of the shared ops)
// ---------------------------------------------------------------------------------------------

/// `enc <Type> <tree…>` → `ok x<hex> <byte_len>`
pub fn run_enc(v: &Val) -> (String, Vec<u8>) {
    let (bytes, r) = v.encode();
    match r {
        Ok(_) => (format!("ok x{} {}", hex(&bytes), v.byte_len()), bytes),
        Err(_) => ("err".to_string(), bytes),
    }
}

pub enum DecOut {
    Ok(Val, usize),
    Chunk(Vec<u8>, usize),
    Err,
    BadOp,
}

/// `dec <Type> <opts> x<hex>`
pub fn run_dec(ty: &str, lim: &Lim, bytes: &[u8]) -> (String, DecOut) {
    let o = lim.options();
    if ty == "Chunk" {
        let mut c = Cursor::new(bytes);
        return match opcua::core::comms::message_chunk::MessageChunk::decode(&mut c, &o) {
            Ok(chunk) => {
                let pos = c.position() as usize;
                (format!("ok {} x{}", pos, hex(&chunk.data)), DecOut::Chunk(chunk.data, pos))
            }
            Err(_) => ("err".to_string(), DecOut::Err),
        };
    }
    match Val::decode(ty, bytes, &o) {
        None => ("bad-op".to_string(), DecOut::BadOp),
        Some(Err(_)) => ("err".to_string(), DecOut::Err),
        Some(Ok((v, pos))) => {
            let (re, _) = v.encode();
            // the value itself (not only its re-encoding: i8 -128 and a hypothetical 128 re-encode alike)
            (format!("ok {} x{} = {}", pos, hex(&re), v.tree()), DecOut::Ok(v, pos))
        }
    }
}

// ---------------------------------------------------------------------------------------------
// generated service structures (translator T1: `enc/dispatch.rs` is regenerated from the source)
// ---------------------------------------------------------------------------------------------

/// schema of a field, as extracted by `tools/translate/service_types.py`
#[derive(Debug)]
pub enum Ty {
    Sc(u8),
    Variant,
    DataValue,
    DiagInfo,
    Enum(u8, &'static [u32]),
    Flags(u8, u32),
    Arr(&'static Ty),
    Ref(&'static str),
}

/// decode with the real code, re-encode: (consumed, re-encoded bytes, byte_len, size reported by encode)
pub fn run_struct<T: BinaryEncoder<T>>(bytes: &[u8], o: &DecodingOptions) -> Result<(usize, Vec<u8>, usize, usize), StatusCode> {
    let mut c = Cursor::new(bytes);
    let v = T::decode(&mut c, o)?;
    let pos = c.position() as usize;
    let mut w = Cursor::new(Vec::new());
    let reported = v.encode(&mut w)?;
    let re = w.into_inner();
    // API surface: the convenience encoder and the ExtensionObject wrapping of a structure
    // (`from_encodable` sizes its buffer with byte_len, `decode_inner` decodes the body again)
    let eo = ExtensionObject::from_encodable(NodeId::null(), &v);
    let inner_ok = match eo.decode_inner::<T>(&DecodingOptions { decoding_depth_gauge: Arc::new(DepthGauge::new(64)), max_string_length: 1 << 20, max_byte_string_length: 1 << 20, max_array_length: 1 << 16, ..Default::default() }) {
        // equal up to the DateTime clamp (a date after 9999 re-encodes as endtimes): same length
        Ok(v2) => v2.encode_to_vec().len() == re.len(),
        Err(_) => false,
    };
    let body_ok = matches!(&eo.body, ExtensionObjectEncoding::ByteString(b) if b.value.as_deref() == Some(&re[..]));
    if v.encode_to_vec() != re || !inner_ok || !body_ok {
        API_MISMATCH.store(true, std::sync::atomic::Ordering::Relaxed);
    }
    Ok((pos, re, v.byte_len(), reported))
}

/// set by `run_struct` when `encode_to_vec` / `ExtensionObject::from_encodable` / `decode_inner`
/// disagree with `encode`; read (and cleared) by the C01 oracle
pub static API_MISMATCH: std::sync::atomic::AtomicBool = std::sync::atomic::AtomicBool::new(false);

pub fn schema_of(name: &str) -> Option<&'static [Ty]> {
    dispatch::SCHEMAS.iter().find(|(n, _)| *n == name).map(|(_, f)| *f)
}

fn put_le(out: &mut Vec<u8>, width: u8, v: u32) {
    out.extend_from_slice(&v.to_le_bytes()[..width as usize]);
}

impl<'a> Gen<'a> {
    /// bytes of a (mostly) valid value of the schema, written with the repo's own leaf encoders;
    /// returns false when something invalid (an unknown enum discriminant) was put in on purpose
    pub fn schema_bytes(&mut self, ty: &Ty, level: u32, spoil: bool, out: &mut Vec<u8>) -> bool {
        match ty {
            Ty::Sc(t) => {
                let v = self.scalar(*t);
                match Val::V(v).try_encode() {
                    Some(b) => {
                        out.extend_from_slice(&b[1..]);
                        true
                    }
                    // the encoder failed or panicked: the `enc` ops exhibit that, here go on without it
                    None => false,
                }
            }
            Ty::Variant => {
                let keep = self.ill_formed;
                self.ill_formed = false;
                let v = self.variant(2);
                self.ill_formed = keep;
                match Val::V(v).try_encode() {
                    Some(b) => {
                        out.extend(b);
                        true
                    }
                    None => false,
                }
            }
            Ty::DataValue => {
                let keep = self.ill_formed;
                self.ill_formed = false;
                let v = self.data_value(2);
                self.ill_formed = keep;
                match Val::DV(v).try_encode() {
                    Some(b) => {
                        out.extend(b);
                        true
                    }
                    None => false,
                }
            }
            Ty::DiagInfo => {
                let v = self.diagnostic_info(2);
                match Val::DI(v).try_encode() {
                    Some(b) => {
                        out.extend(b);
                        true
                    }
                    None => false,
                }
            }
            Ty::Enum(w, vals) => {
                if spoil && self.rng.chance(1, 6) {
                    // a discriminant the enum does not have
                    let bad = vals.iter().max().copied().unwrap_or(0).wrapping_add(1 + self.rng.below(3) as u32);
                    put_le(out, *w, bad);
                    false
                } else {
                    let v = *self.rng.pick(vals);
                    put_le(out, *w, v);
                    true
                }
            }
            Ty::Flags(w, mask) => {
                let bits = (self.rng.next() as u32) & mask;
                put_le(out, *w, bits);
                true
            }
            Ty::Arr(t) => {
                if spoil && self.rng.chance(1, 12) {
                    // a negative length other than -1
                    out.extend_from_slice(&(*self.rng.pick(&[-2i32, i32::MIN])).to_le_bytes());
                    return false;
                }
                let n: i32 = if level >= 3 {
                    *self.rng.pick(&[-1, 0])
                } else {
                    *self.rng.pick(&[-1, 0, 1, 1, 2, 3])
                };
                out.extend_from_slice(&n.to_le_bytes());
                let mut ok = true;
                for _ in 0..n.max(0) {
                    ok &= self.schema_bytes(t, level + 1, spoil, out);
                }
                ok
            }
            Ty::Ref(name) => {
                let fields = schema_of(name).expect("schema");
                let mut ok = true;
                for f in fields {
                    ok &= self.schema_bytes(f, level + 1, spoil, out);
                }
                ok
            }
        }
    }

    pub fn struct_bytes(&mut self, name: &str, spoil: bool) -> (Vec<u8>, bool) {
        let mut out = Vec::new();
        let mut ok = true;
        for f in schema_of(name).expect("schema") {
            ok &= self.schema_bytes(f, 0, spoil, &mut out);
        }
        (out, ok)
    }
}

/// `sdec <Struct> <opts> x<hex>` → `ok <consumed> x<re-encoded> <byte_len>` | `err`
pub fn run_sdec(name: &str, lim: &Lim, bytes: &[u8]) -> (String, Option<Result<(usize, Vec<u8>, usize, usize), StatusCode>>) {
    match dispatch::decode_struct(name, bytes, &lim.options()) {
        None => ("bad-op".to_string(), None),
        Some(Err(e)) => ("err".to_string(), Some(Err(e))),
        Some(Ok((pos, re, len, rep))) => (format!("ok {} x{} {}", pos, hex(&re), len), Some(Ok((pos, re, len, rep)))),
    }
}

// ---------------------------------------------------------------------------------------------
// UA-TCP messages and the object-id dispatch (C02)
// ---------------------------------------------------------------------------------------------

fn mtype_num(t: &opcua::core::comms::tcp_types::MessageType) -> u8 {
    use opcua::core::comms::tcp_types::MessageType::*;
    match t {
        Invalid => 0,
        Hello => 1,
        Acknowledge => 2,
        Chunk => 3,
        Error => 4,
    }
}

fn show_str(s: &UAString) -> String {
    match s.value() {
        None => "-".into(),
        Some(v) => format!("s{}", hex(v.as_bytes())),
    }
}

/// `dec MsgHeader|Hello|Ack|Error|ChunkHeader|ReadBytes <opts> x<hex>`
pub fn run_tcp(ty: &str, lim: &Lim, bytes: &[u8]) -> Option<String> {
    use opcua::core::comms::message_chunk::MessageChunkHeader;
    use opcua::core::comms::tcp_types::*;
    let o = lim.options();
    let mut c = Cursor::new(bytes);
    let nums = |v: &[u32]| format!("[{}]", v.iter().map(|x| x.to_string()).collect::<Vec<_>>().join(","));
    Some(match ty {
        "MsgHeader" => match MessageHeader::decode(&mut c, &o) {
            Ok(h) => format!("ok {} {} {}", c.position(), mtype_num(&h.message_type), h.message_size),
            Err(_) => "err".into(),
        },
        "Hello" => match HelloMessage::decode(&mut c, &o) {
            Ok(m) => format!(
                "ok {} {} {} {} {}",
                c.position(),
                mtype_num(&m.message_header.message_type),
                m.message_header.message_size,
                nums(&[m.protocol_version, m.receive_buffer_size, m.send_buffer_size, m.max_message_size, m.max_chunk_count]),
                show_str(&m.endpoint_url)
            ),
            Err(_) => "err".into(),
        },
        "Ack" => match AcknowledgeMessage::decode(&mut c, &o) {
            Ok(m) => format!(
                "ok {} {} {} {} ~",
                c.position(),
                mtype_num(&m.message_header.message_type),
                m.message_header.message_size,
                nums(&[m.protocol_version, m.receive_buffer_size, m.send_buffer_size, m.max_message_size, m.max_chunk_count])
            ),
            Err(_) => "err".into(),
        },
        "Error" => match ErrorMessage::decode(&mut c, &o) {
            Ok(m) => format!(
                "ok {} {} {} {} {}",
                c.position(),
                mtype_num(&m.message_header.message_type),
                m.message_header.message_size,
                nums(&[m.error]),
                show_str(&m.reason)
            ),
            Err(_) => "err".into(),
        },
        "ChunkHeader" => match MessageChunkHeader::decode(&mut c, &o) {
            Ok(h) => {
                let mut w = Cursor::new(Vec::new());
                let _ = h.encode(&mut w);
                format!("ok {} x{}", c.position(), hex(&w.into_inner()))
            }
            Err(_) => "err".into(),
        },
        "ReadBytes" => match MessageHeader::read_bytes(&mut c, &o) {
            Ok(v) => format!("ok {} x{}", c.position(), hex(&v)),
            Err(_) => "err".into(),
        },
        _ => return None,
    })
}

/// `msg <object id> <opts> x<hex>`: `SupportedMessage::decode_by_object_id`
pub fn run_msg(id: u32, lim: &Lim, bytes: &[u8]) -> String {
    use opcua::core::supported_message::SupportedMessage;
    let object_id = match ObjectId::try_from(id) {
        Ok(x) => x,
        Err(_) => return "noid".into(),
    };
    let mut c = Cursor::new(bytes);
    match SupportedMessage::decode_by_object_id(&mut c, object_id, &lim.options()) {
        Err(_) => "err".into(),
        Ok(SupportedMessage::Invalid(_)) => format!("invalid {}", c.position()),
        Ok(m) => {
            let mut w = Cursor::new(Vec::new());
            let _ = m.encode(&mut w);
            format!("ok {} x{} {}", c.position(), hex(&w.into_inner()), m.byte_len())
        }
    }
}

// ---------------------------------------------------------------------------------------------
// systematic malformed inputs (round 3: every guard of the decoders is driven, not hit by luck)
// ---------------------------------------------------------------------------------------------

impl<'a> Gen<'a> {
    /// One point of the sweep over the Variant encoding mask: `k` enumerates all 256 mask bytes times
    /// 8 shapes of what follows (array length −2 / −1 / 0 / 1 / 2, dimension array null / negative /
    /// matching / zero / overflowing / mismatching / over the limit).
    pub fn variant_mask_sweep(&mut self, k: usize) -> Vec<u8> {
        let mask = (k % 256) as u8;
        let shape = (k / 256) % 8;
        let ty = mask & 0x3f;
        let mut b = vec![mask];
        let elem = |g: &mut Gen, b: &mut Vec<u8>| {
            if (1..=25).contains(&ty) {
                let keep = g.ill_formed;
                g.ill_formed = false;
                let v = g.of_type(ty, 1);
                g.ill_formed = keep;
                if let Some(e) = Val::V(v).try_encode() {
                    b.extend_from_slice(&e[1..]);
                }
            }
        };
        if mask & 0x80 != 0 {
            let len: i32 = match shape {
                0 => -2,
                1 => -1,
                2 => 0,
                3 => 1,
                _ => 2,
            };
            b.extend_from_slice(&len.to_le_bytes());
            for _ in 0..len.max(0) {
                elem(self, &mut b);
            }
            if mask & 0x40 != 0 {
                let n = len.max(0) as u32;
                let dims: Vec<i32> = match shape {
                    3 => vec![1, 1],
                    4 => vec![n as i32],
                    5 => vec![0],
                    6 => vec![65536, 65536],
                    _ => vec![n as i32 + 1],
                };
                match shape {
                    0 | 1 | 2 => {}                                   // nothing follows an empty array
                    7 => b.extend_from_slice(&(-1i32).to_le_bytes()), // null dimensions
                    _ => {
                        b.extend_from_slice(&(dims.len() as i32).to_le_bytes());
                        for d in dims {
                            b.extend_from_slice(&d.to_le_bytes());
                        }
                    }
                }
                if shape == 2 {
                    b.extend_from_slice(&(-2i32).to_le_bytes()); // trailing bytes after an empty array
                }
            }
        } else {
            elem(self, &mut b);
        }
        b
    }
}

/// every proper prefix of an encoding (truncation at each byte): drives every "input too short" arm
pub fn all_prefixes(bytes: &[u8], max_len: usize) -> Vec<Vec<u8>> {
    (0..bytes.len().min(max_len)).map(|i| bytes[..i].to_vec()).collect()
}

/// `deco <Type> <opts> <offset ticks> x<hex>`: decode with `client_offset`
pub fn run_deco(ty: &str, lim: &Lim, off: i64, bytes: &[u8]) -> (String, DecOut) {
    let mut o = lim.options();
    o.client_offset = chrono::TimeDelta::seconds(off / 10_000_000) + chrono::TimeDelta::nanoseconds((off % 10_000_000) * 100);
    match Val::decode(ty, bytes, &o) {
        None => ("bad-op".to_string(), DecOut::BadOp),
        Some(Err(_)) => ("err".to_string(), DecOut::Err),
        Some(Ok((v, pos))) => {
            let re = v.try_encode().unwrap_or_default();
            (format!("ok {} x{} = {}", pos, hex(&re), v.tree()), DecOut::Ok(v, pos))
        }
    }
}

/// First-byte sweeps (round 3): every value of each mask / type byte of the composite decoders, followed by
/// valid field bytes for the fields that byte announces.  `k` enumerates 6 x 256 points; returns the type
/// to decode as and the bytes.
pub fn byte_sweep(k: usize) -> (&'static str, Vec<u8>) {
    let m = (k % 256) as u8;
    let ts = 132_000_000_000_000_000i64.to_le_bytes();
    let s3 = [3u8, 0, 0, 0, b'a', b'b', b'c'];
    match (k / 256) % 6 {
        0 => {
            // DataValue encoding mask (bits 6 and 7 are ignored by from_bits_truncate)
            let mut b = vec![m];
            if m & 1 != 0 {
                b.extend_from_slice(&[0x01, 0x01]);
            }
            if m & 2 != 0 {
                b.extend_from_slice(&0x8000_0000u32.to_le_bytes());
            }
            if m & 4 != 0 {
                b.extend_from_slice(&ts);
            }
            if m & 16 != 0 {
                b.extend_from_slice(&7u16.to_le_bytes());
            }
            if m & 8 != 0 {
                b.extend_from_slice(&ts);
            }
            if m & 32 != 0 {
                b.extend_from_slice(&9u16.to_le_bytes());
            }
            b.push(0xEE);
            ("DataValue", b)
        }
        1 => {
            // DiagnosticInfo encoding mask
            let mut b = vec![m];
            for (bit, v) in [(1u8, 11i32), (2, 12), (8, 13), (4, 14)] {
                if m & bit != 0 {
                    b.extend_from_slice(&v.to_le_bytes());
                }
            }
            if m & 16 != 0 {
                b.extend_from_slice(&s3);
            }
            if m & 32 != 0 {
                b.extend_from_slice(&0x8001_0000u32.to_le_bytes());
            }
            if m & 64 != 0 {
                b.push(0x00);
            }
            b.push(0xEE);
            ("DiagnosticInfo", b)
        }
        2 => {
            // LocalizedText mask inside a Variant
            let mut b = vec![21, m];
            if m & 1 != 0 {
                b.extend_from_slice(&s3);
            }
            if m & 2 != 0 {
                b.extend_from_slice(&s3);
            }
            b.push(0xEE);
            ("Variant", b)
        }
        3 | 4 => {
            // NodeId type byte (3) / ExpandedNodeId encoding byte (4) inside a Variant
            let expanded = (k / 256) % 6 == 4;
            let mut b = vec![if expanded { 18 } else { 17 }, m];
            match if expanded { m & 0x0f } else { m } {
                0 => b.push(7),
                1 => b.extend_from_slice(&[2, 0x34, 0x12]),
                2 => b.extend_from_slice(&[2, 1, 0x78, 0x56, 0x34, 0x12]),
                3 | 5 => {
                    b.extend_from_slice(&[1, 0]);
                    b.extend_from_slice(&s3);
                }
                4 => {
                    b.extend_from_slice(&[1, 0]);
                    b.extend_from_slice(&[0xAB; 16]);
                }
                _ => b.extend_from_slice(&[1, 0, 2, 0]),
            }
            if expanded && m & 0x80 != 0 {
                b.extend_from_slice(&s3);
            }
            if expanded && m & 0x40 != 0 {
                b.extend_from_slice(&5u32.to_le_bytes());
            }
            b.push(0xEE);
            ("Variant", b)
        }
        _ => {
            // ExtensionObject body encoding byte inside a Variant
            let mut b = vec![22, 0, 9, m];
            if m == 1 || m == 2 {
                b.extend_from_slice(&s3);
            }
            b.push(0xEE);
            ("Variant", b)
        }
    }
}

/// Length-field sweep (round 3): every length-bearing leaf × the interesting declared lengths.  `k` enumerates
/// 8 kinds × 12 lengths; `limit` is the limit in force for that kind (the caller passes its options).
/// Bodies are supplied for small non-negative lengths so that limit and limit+1 are both decodable inputs.
pub fn length_sweep(k: usize, lim: &Lim) -> (&'static str, Vec<u8>) {
    let kind = k % 8;
    let limit = match kind {
        0 | 2 | 5 => lim.max_str,
        1 | 6 => lim.max_bytes,
        _ => lim.max_arr,
    } as i64;
    let len: i64 = match (k / 8) % 12 {
        0 => -2,
        1 => -1,
        2 => 0,
        3 => 1,
        4 => i32::MIN as i64,
        5 => i32::MIN as i64 + 1,
        6 => i32::MAX as i64,
        7 => limit - 1,
        8 => limit,
        9 => limit + 1,
        10 => limit + 2,
        _ => 3,
    };
    let len = len.clamp(i32::MIN as i64, i32::MAX as i64) as i32;
    let body = (len.max(0) as usize).min(70_000);
    let mut b: Vec<u8> = Vec::new();
    let ty = match kind {
        0 => { b.push(12); "Variant" }                                  // String
        1 => { b.push(15); "Variant" }                                  // ByteString
        2 => { b.push(16); "Variant" }                                  // XmlElement
        3 => { b.push(0x81); "Variant" }                                // Boolean array
        4 => { b.extend_from_slice(&[0xC1, 1, 0, 0, 0, 1]); "Variant" } // dimensions of a 1-element array
        5 => { b.extend_from_slice(&[17, 3, 0, 0]); "Variant" }         // NodeId string identifier
        6 => { b.extend_from_slice(&[22, 0, 0, 1]); "Variant" }         // ExtensionObject byte string body
        _ => { b.extend_from_slice(&[0x10]); "DiagnosticInfo" }         // additional info string
    };
    b.extend_from_slice(&len.to_le_bytes());
    match kind {
        3 => b.extend(std::iter::repeat(1u8).take(body)),
        4 => {
            for _ in 0..body.min(5000) {
                b.extend_from_slice(&1i32.to_le_bytes());
            }
        }
        1 | 6 => b.extend(std::iter::repeat(0u8).take(body)),
        _ => b.extend(std::iter::repeat(b'a').take(body)),
    }
    b.push(0xEE);
    (ty, b)
}
