//! Shared plumbing: PRNG, hex, the per-property interface.

/// splitmix64 — every random choice of a run derives from one seed.
#[derive(Clone)]
pub struct Rng(pub u64);

impl Rng {
    pub fn new(seed: u64) -> Rng {
        Rng(seed.wrapping_mul(0x9E3779B97F4A7C15) ^ 0xD1B54A32D192ED03)
    }
    pub fn next(&mut self) -> u64 {
        self.0 = self.0.wrapping_add(0x9E3779B97F4A7C15);
        let mut z = self.0;
        z = (z ^ (z >> 30)).wrapping_mul(0xBF58476D1CE4E5B9);
        z = (z ^ (z >> 27)).wrapping_mul(0x94D049BB133111EB);
        z ^ (z >> 31)
    }
    /// uniform in 0..n (n > 0)
    pub fn below(&mut self, n: u64) -> u64 {
        self.next() % n
    }
    pub fn range(&mut self, lo: i64, hi: i64) -> i64 {
        lo + (self.next() % ((hi - lo + 1) as u64)) as i64
    }
    pub fn chance(&mut self, num: u64, den: u64) -> bool {
        self.below(den) < num
    }
    pub fn pick<'a, T>(&mut self, xs: &'a [T]) -> &'a T {
        &xs[self.below(xs.len() as u64) as usize]
    }
    /// weighted choice: returns index
    pub fn weighted(&mut self, ws: &[u32]) -> usize {
        let total: u32 = ws.iter().sum();
        let mut r = self.below(total as u64) as u32;
        for (i, w) in ws.iter().enumerate() {
            if r < *w {
                return i;
            }
            r -= *w;
        }
        ws.len() - 1
    }
    pub fn bytes(&mut self, n: usize) -> Vec<u8> {
        (0..n).map(|_| self.next() as u8).collect()
    }
}

pub fn hex(b: &[u8]) -> String {
    let mut s = String::with_capacity(b.len() * 2);
    for x in b {
        s.push_str(&format!("{:02x}", x));
    }
    s
}

pub fn unhex(s: &str) -> Option<Vec<u8>> {
    let s = s.strip_prefix('x').unwrap_or(s);
    if s.len() % 2 != 0 {
        return None;
    }
    (0..s.len() / 2)
        .map(|i| u8::from_str_radix(&s[2 * i..2 * i + 2], 16).ok())
        .collect()
}

pub fn b(x: bool) -> &'static str {
    if x {
        "1"
    } else {
        "0"
    }
}

#[derive(Clone, Copy, PartialEq, Eq, Debug)]
pub enum Tier {
    Quick,
    Thorough,
}

/// Verdict of the implementation-only oracle for one op.
/// `Ok` or `Fail { sub, class, detail }`: `sub` names the conjunct of the property that failed,
/// `class` is a tag computed from the *input* (used to match known findings).
pub enum Verdict {
    Ok,
    Fail {
        sub: String,
        class: String,
        detail: String,
    },
}

impl Verdict {
    pub fn fail(sub: &str, class: &str, detail: impl Into<String>) -> Verdict {
        Verdict::Fail {
            sub: sub.to_string(),
            class: class.to_string(),
            detail: detail.into(),
        }
    }
    pub fn render(&self) -> String {
        match self {
            Verdict::Ok => "ok".to_string(),
            Verdict::Fail { sub, class, detail } => {
                format!("FAIL {} {} {}", sub, class, detail.replace(['\n', '\t'], " "))
            }
        }
    }
}

/// Executes the ops of ONE case (from a `reset` line to the next) on the real code.
pub trait Runner {
    /// returns (canonical implementation result, oracle verdict)
    fn step(&mut self, toks: &[&str]) -> (String, Verdict);
    /// verdict when `step` unwinds; by default a panic violates the property
    fn on_panic(&self, _toks: &[&str]) -> Verdict {
        Verdict::fail("no_panic", "-", "implementation panicked")
    }
}

pub trait Prop: Sync {
    fn id(&self) -> &'static str;
    /// appends `n` generated cases (each starting with a `reset` line) to `out`
    fn gen(&self, rng: &mut Rng, n: usize, tier: Tier, out: &mut Vec<String>);
    /// a fresh runner; called at every `reset` line
    fn runner(&self) -> Box<dyn Runner>;
}
