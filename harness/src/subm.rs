//! Shared driver of the real subscription pipeline (one session) for C40 and C21: executes the ops
//! of the SubM line protocol on the `opcua` crate through `verif_hooks::subs2::VSession` and returns,
//! besides the canonical result line, what was observed (responses, messages) for the oracles.
use crate::fixtures;
use opcua::core::supported_message::SupportedMessage;
use opcua::server::address_space::AddressSpace;
use opcua::server::prelude::*;
use opcua::sync::RwLock;
use opcua::verif_hooks::subs2::VSession;
use std::sync::Arc;

pub const UNIT_MS: i64 = 100;

#[derive(Clone, Debug, PartialEq)]
pub struct Entry {
    pub handle: u32,
    pub value: i64,
    pub overflow: bool,
}

#[derive(Clone, Debug, PartialEq)]
pub enum Body {
    KeepAlive,
    Status(u32),
    Data(Vec<Entry>),
    Other(String),
}

#[derive(Clone, Debug)]
pub struct Msg {
    pub seq: u32,
    pub time: i64,
    pub body: Body,
    pub raw: NotificationMessage,
}

#[derive(Clone, Debug)]
pub struct Resp {
    pub req_id: u32,
    /// normalised subscription id
    pub sub_id: i64,
    pub avail: Option<Vec<u32>>,
    pub more: bool,
    pub msg: Msg,
    pub results: Option<Vec<StatusCode>>,
}

#[derive(Clone, Debug)]
pub enum Observed {
    None,
    /// result of a publish op: Ok(()) = queued, Err(status) = immediate service fault
    Publish { req_id: u32, acks: Option<Vec<(i64, u32)>>, result: Result<(), StatusCode> },
    Republish { sub_id: i64, seq: u32, result: Result<Msg, StatusCode> },
    SubCreated(i64),
    SubDeleted(i64, bool),
    ItemCreated { sub_id: i64, handle: u32, node: u32, item_id: Option<u32> },
    ItemDeleted { sub_id: i64, item_id: u32, ok: bool },
    Write { node: u32, value: i64 },
    Tick(i64),
    PubMode(i64, bool),
    ModSub { sub_id: i64, ok: bool, interval: i64 },
    SetMode { sub_id: i64, item_id: u32, mode: i64, ok: bool },
    ModItem { sub_id: i64, item_id: u32, handle: u32, interval_sampling: bool, ok: bool },
    Trigger { sub_id: i64, ok: bool },
    Resend(i64, bool),
}

pub struct StepOut {
    pub line: String,
    pub observed: Observed,
    pub responses: Vec<Resp>,
    pub other_responses: Vec<String>,
}

pub struct Pipe {
    pub vs: VSession,
    pub address_space: Arc<RwLock<AddressSpace>>,
    base: chrono::DateTime<chrono::Utc>,
    pub now_units: i64,
    base_sub_id: u32,
    nodes: u32,
}

fn node_id(n: u32) -> NodeId {
    NodeId::new(1, n)
}

fn sc_name(s: StatusCode) -> String {
    s.name().to_string()
}

impl Pipe {
    pub fn new() -> Pipe {
        let fx = fixtures::server();
        let base_sub_id = fx.server_state.read().last_subscription_id;
        Pipe {
            vs: VSession::new(fx.server_state.clone()),
            address_space: Arc::new(RwLock::new(AddressSpace::default())),
            // every synthetic time is later than the wall clock readings the real code takes
            base: chrono::TimeZone::timestamp_opt(&chrono::Utc, chrono::Utc::now().timestamp() + 3600, 0).unwrap(),
            now_units: 0,
            base_sub_id,
            nodes: 0,
        }
    }

    pub fn now(&self) -> chrono::DateTime<chrono::Utc> {
        self.base + chrono::Duration::milliseconds(self.now_units * UNIT_MS)
    }

    pub fn real_sub(&self, norm: i64) -> u32 {
        (self.base_sub_id as i64 + norm).clamp(0, u32::MAX as i64) as u32
    }

    pub fn norm_sub(&self, real: u32) -> i64 {
        real as i64 - self.base_sub_id as i64
    }

    fn units_of(&self, t: &DateTime) -> i64 {
        (t.as_chrono() - self.base).num_milliseconds() / UNIT_MS
    }

    pub fn parse_msg(&self, m: &NotificationMessage) -> Msg {
        let opts = DecodingOptions::default();
        let body = match &m.notification_data {
            None => Body::KeepAlive,
            Some(v) if v.len() == 1 => {
                let eo = &v[0];
                match eo.node_id.as_object_id() {
                    Ok(ObjectId::DataChangeNotification_Encoding_DefaultBinary) => {
                        match eo.decode_inner::<DataChangeNotification>(&opts) {
                            Ok(d) => {
                                let mut es: Vec<Entry> = d
                                    .monitored_items
                                    .unwrap_or_default()
                                    .iter()
                                    .map(|n| Entry {
                                        handle: n.client_handle,
                                        value: match &n.value.value {
                                            Some(Variant::Int64(v)) => *v,
                                            _ => -1,
                                        },
                                        overflow: n.value.status().contains(StatusCode::OVERFLOW),
                                    })
                                    .collect();
                                // the item map is a HashMap: canonical order = by client handle, stable
                                es.sort_by_key(|e| e.handle);
                                Body::Data(es)
                            }
                            Err(e) => Body::Other(format!("undecodable:{}", e.name())),
                        }
                    }
                    Ok(ObjectId::StatusChangeNotification_Encoding_DefaultBinary) => {
                        match eo.decode_inner::<StatusChangeNotification>(&opts) {
                            Ok(s) => Body::Status(if s.status == StatusCode::BadTimeout { 1 } else { s.status.bits() }),
                            Err(e) => Body::Other(format!("undecodable:{}", e.name())),
                        }
                    }
                    _ => Body::Other("unknown-notification".to_string()),
                }
            }
            Some(v) => Body::Other(format!("parts:{}", v.len())),
        };
        Msg { seq: m.sequence_number, time: self.units_of(&m.publish_time), body, raw: m.clone() }
    }

    pub fn show_msg(m: &Msg) -> String {
        let body = match &m.body {
            Body::KeepAlive => "ka".to_string(),
            Body::Status(c) => format!("st{}", c),
            Body::Data(es) => format!(
                "d({})",
                es.iter()
                    .map(|e| format!("{}={}{}", e.handle, e.value, if e.overflow { "!" } else { "" }))
                    .collect::<Vec<_>>()
                    .join(",")
            ),
            Body::Other(s) => format!("other:{}", s),
        };
        format!("q{}@{}:{}", m.seq, m.time, body)
    }

    fn show_results(r: &Option<Vec<StatusCode>>) -> String {
        match r {
            None => "-".to_string(),
            Some(v) => format!(
                "[{}]",
                v.iter()
                    .map(|s| match *s {
                        StatusCode::Good => "G".to_string(),
                        StatusCode::BadSequenceNumberUnknown => "U".to_string(),
                        StatusCode::BadSubscriptionIdInvalid => "I".to_string(),
                        o => format!("?{}", o.name()),
                    })
                    .collect::<String>()
            ),
        }
    }

    fn show_resp(r: &Resp) -> String {
        format!(
            "r{}/s{}/a{}/m{}/{}/x{}",
            r.req_id,
            r.sub_id,
            match &r.avail {
                None => "-".to_string(),
                Some(v) => v.iter().map(|x| x.to_string()).collect::<Vec<_>>().join("."),
            },
            if r.more { 1 } else { 0 },
            Self::show_msg(&r.msg),
            Self::show_results(&r.results)
        )
    }

    /// takes the queued publish responses
    fn take(&self) -> (Vec<Resp>, Vec<String>) {
        let mut out = Vec::new();
        let mut other = Vec::new();
        if let Some(q) = self.vs.take_publish_responses() {
            for e in q {
                match e.response {
                    SupportedMessage::PublishResponse(p) => out.push(Resp {
                        req_id: e.request_id,
                        sub_id: self.norm_sub(p.subscription_id),
                        avail: p.available_sequence_numbers.clone(),
                        more: p.more_notifications,
                        msg: self.parse_msg(&p.notification_message),
                        results: p.results.clone(),
                    }),
                    SupportedMessage::ServiceFault(f) => {
                        other.push(format!("r{}/fault:{}", e.request_id, f.response_header.service_result.name()))
                    }
                    _ => other.push(format!("r{}/unexpected", e.request_id)),
                }
            }
        }
        (out, other)
    }

    pub fn digest(&self) -> String {
        let rt: Vec<String> = self
            .vs
            .retransmission_keys()
            .iter()
            .map(|(s, q)| format!("{}.{}", self.norm_sub(*s), q))
            .collect();
        let subs: Vec<String> = self
            .vs
            .subscription_digests()
            .iter()
            .map(|(id, life, ka, (st, last_seq, n, en, items))| {
                format!(
                    "{}:{}:{}:{}:{}:{}:{}:{}",
                    self.norm_sub(*id),
                    st,
                    life,
                    ka,
                    last_seq,
                    n,
                    if *en { 1 } else { 0 },
                    items
                )
            })
            .collect();
        format!("rq={} rt=[{}] subs=[{}]", self.vs.publish_request_queue_len(), rt.join(","), subs.join(","))
    }

    /// input class of an op, used when the op panics: a timer tick while a subscription that has
    /// monitored items is one interval from expiring (lifetime counter 1) is the recorded class
    /// `expiring-with-items`; anything else is `<op>`
    pub fn panic_class(&self, toks: &[&str]) -> String {
        let expiring = self
            .vs
            .subscription_digests()
            .iter()
            .any(|(_, life, _, (st, _, _, _, items))| *life == 1 && *items > 0 && *st >= 2);
        if expiring && (toks[0] == "tick" || toks[0] == "publish") {
            "expiring-with-items".to_string()
        } else {
            toks[0].to_string()
        }
    }

    fn finish(&self, txt: String, observed: Observed) -> StepOut {
        let (responses, other_responses) = self.take();
        let mut shown: Vec<String> = responses.iter().map(Self::show_resp).collect();
        shown.extend(other_responses.iter().cloned());
        StepOut {
            line: format!("ok {} [{}] {}", txt, shown.join(";"), self.digest()),
            observed,
            responses,
            other_responses,
        }
    }

    fn bad() -> StepOut {
        StepOut { line: "bad-op".to_string(), observed: Observed::None, responses: vec![], other_responses: vec![] }
    }

    pub fn step(&mut self, toks: &[&str]) -> StepOut {
        let fx = fixtures::server();
        let p = |s: &str| s.parse::<i64>().ok();
        match toks {
            ["reset", n, mq] => {
                let (n, mq) = match (p(n), p(mq)) {
                    (Some(n), Some(mq)) => (n as u32, mq as usize),
                    _ => return Self::bad(),
                };
                fx.server_state.write().max_monitored_item_queue_size = mq;
                self.nodes = n;
                let mut asp = self.address_space.write();
                for i in 1..=n {
                    let v = Variable::new(&node_id(i), format!("v{}", i), format!("v{}", i), 0i64);
                    asp.insert(v, None::<&[(&NodeId, &ReferenceTypeId, ReferenceDirection)]>);
                }
                drop(asp);
                self.finish("-".to_string(), Observed::None)
            }
            ["sub", pr, iv, ka, life, en] => {
                let (pr, iv, ka, life) = match (p(pr), p(iv), p(ka), p(life)) {
                    (Some(a), Some(b), Some(c), Some(d)) => (a, b, c, d),
                    _ => return Self::bad(),
                };
                let req = CreateSubscriptionRequest {
                    request_header: RequestHeader::dummy(),
                    requested_publishing_interval: (iv * UNIT_MS) as f64,
                    requested_lifetime_count: life as u32,
                    requested_max_keep_alive_count: ka as u32,
                    max_notifications_per_publish: 0,
                    publishing_enabled: *en == "1",
                    priority: pr as u8,
                };
                match self.vs.create_subscription(&req) {
                    SupportedMessage::CreateSubscriptionResponse(r) => {
                        if r.revised_publishing_interval != (iv * UNIT_MS) as f64
                            || r.revised_lifetime_count != life as u32
                            || r.revised_max_keep_alive_count != ka as u32
                        {
                            // the op language only carries parameters the server does not revise
                            return StepOut {
                                line: format!(
                                    "ok revised:{}:{}:{}",
                                    r.revised_publishing_interval, r.revised_lifetime_count, r.revised_max_keep_alive_count
                                ),
                                observed: Observed::None,
                                responses: vec![],
                                other_responses: vec![],
                            };
                        }
                        let id = self.norm_sub(r.subscription_id);
                        self.finish(id.to_string(), Observed::SubCreated(id))
                    }
                    SupportedMessage::ServiceFault(f) => {
                        self.finish(sc_name(f.response_header.service_result), Observed::None)
                    }
                    _ => self.finish("unexpected".to_string(), Observed::None),
                }
            }
            ["delsub", sid] => {
                let sid = match p(sid) {
                    Some(s) => s,
                    None => return Self::bad(),
                };
                let req = DeleteSubscriptionsRequest {
                    request_header: RequestHeader::dummy(),
                    subscription_ids: Some(vec![self.real_sub(sid)]),
                };
                let ok = match self.vs.delete_subscriptions(&req) {
                    SupportedMessage::DeleteSubscriptionsResponse(r) => {
                        r.results.map(|v| v == vec![StatusCode::Good]).unwrap_or(false)
                    }
                    _ => false,
                };
                self.finish(if ok { "1" } else { "0" }.to_string(), Observed::SubDeleted(sid, ok))
            }
            ["pubmode", sid, en] => {
                let sid = match p(sid) {
                    Some(s) => s,
                    None => return Self::bad(),
                };
                let req = SetPublishingModeRequest {
                    request_header: RequestHeader::dummy(),
                    publishing_enabled: *en == "1",
                    subscription_ids: Some(vec![self.real_sub(sid)]),
                };
                let ok = match self.vs.set_publishing_mode(&req) {
                    SupportedMessage::SetPublishingModeResponse(r) => {
                        r.results.map(|v| v == vec![StatusCode::Good]).unwrap_or(false)
                    }
                    _ => false,
                };
                self.finish(if ok { "1" } else { "0" }.to_string(), Observed::PubMode(sid, *en == "1"))
            }
            ["item", sid, h, node, qs, dis, mode, samp] => {
                let (sid, h, node, qs, mode) = match (p(sid), p(h), p(node), p(qs), p(mode)) {
                    (Some(a), Some(b), Some(c), Some(d), Some(e)) => (a, b as u32, c as u32, d as u32, e),
                    _ => return Self::bad(),
                };
                let sampling = if *samp == "-" {
                    -1.0
                } else {
                    match p(samp) {
                        Some(k) => (k * UNIT_MS) as f64,
                        None => return Self::bad(),
                    }
                };
                let req = CreateMonitoredItemsRequest {
                    request_header: RequestHeader::dummy(),
                    subscription_id: self.real_sub(sid),
                    timestamps_to_return: TimestampsToReturn::Neither,
                    items_to_create: Some(vec![MonitoredItemCreateRequest {
                        item_to_monitor: ReadValueId {
                            node_id: node_id(node),
                            attribute_id: AttributeId::Value as u32,
                            index_range: UAString::null(),
                            data_encoding: QualifiedName::null(),
                        },
                        monitoring_mode: match mode {
                            0 => MonitoringMode::Disabled,
                            1 => MonitoringMode::Sampling,
                            _ => MonitoringMode::Reporting,
                        },
                        requested_parameters: MonitoringParameters {
                            client_handle: h,
                            sampling_interval: sampling,
                            filter: ExtensionObject::null(),
                            queue_size: qs,
                            discard_oldest: *dis == "1",
                        },
                    }]),
                };
                match self.vs.create_monitored_items(self.address_space.clone(), &req) {
                    SupportedMessage::CreateMonitoredItemsResponse(r) => {
                        let res = &r.results.as_ref().unwrap()[0];
                        if res.status_code.is_good() {
                            self.finish(
                                res.monitored_item_id.to_string(),
                                Observed::ItemCreated { sub_id: sid, handle: h, node, item_id: Some(res.monitored_item_id) },
                            )
                        } else {
                            self.finish(
                                sc_name(res.status_code),
                                Observed::ItemCreated { sub_id: sid, handle: h, node, item_id: None },
                            )
                        }
                    }
                    SupportedMessage::ServiceFault(f) => self.finish(
                        sc_name(f.response_header.service_result),
                        Observed::ItemCreated { sub_id: sid, handle: h, node, item_id: None },
                    ),
                    _ => self.finish("unexpected".to_string(), Observed::None),
                }
            }
            ["delitem", sid, iid] => {
                let (sid, iid) = match (p(sid), p(iid)) {
                    (Some(a), Some(b)) => (a, b as u32),
                    _ => return Self::bad(),
                };
                let req = DeleteMonitoredItemsRequest {
                    request_header: RequestHeader::dummy(),
                    subscription_id: self.real_sub(sid),
                    monitored_item_ids: Some(vec![iid]),
                };
                let (txt, ok) = match self.vs.delete_monitored_items(&req) {
                    SupportedMessage::DeleteMonitoredItemsResponse(r) => {
                        let s = r.results.as_ref().unwrap()[0];
                        (sc_name(s), s.is_good())
                    }
                    SupportedMessage::ServiceFault(f) => (sc_name(f.response_header.service_result), false),
                    _ => ("unexpected".to_string(), false),
                };
                self.finish(txt, Observed::ItemDeleted { sub_id: sid, item_id: iid, ok })
            }
            ["modsub", sid, pr, iv, ka, life] => {
                let (sid, pr, iv, ka, life) = match (p(sid), p(pr), p(iv), p(ka), p(life)) {
                    (Some(a), Some(b), Some(c), Some(d), Some(e)) => (a, b, c, d, e),
                    _ => return Self::bad(),
                };
                let req = ModifySubscriptionRequest {
                    request_header: RequestHeader::dummy(),
                    subscription_id: self.real_sub(sid),
                    requested_publishing_interval: (iv * UNIT_MS) as f64,
                    requested_lifetime_count: life as u32,
                    requested_max_keep_alive_count: ka as u32,
                    max_notifications_per_publish: 0,
                    priority: pr as u8,
                };
                match self.vs.modify_subscription(&req) {
                    SupportedMessage::ModifySubscriptionResponse(r) => {
                        if r.revised_publishing_interval != (iv * UNIT_MS) as f64
                            || r.revised_lifetime_count != life as u32
                            || r.revised_max_keep_alive_count != ka as u32
                        {
                            return StepOut {
                                line: format!(
                                    "ok revised:{}:{}:{}",
                                    r.revised_publishing_interval, r.revised_lifetime_count, r.revised_max_keep_alive_count
                                ),
                                observed: Observed::None,
                                responses: vec![],
                                other_responses: vec![],
                            };
                        }
                        self.finish("1".to_string(), Observed::ModSub { sub_id: sid, ok: true, interval: iv })
                    }
                    _ => self.finish("0".to_string(), Observed::ModSub { sub_id: sid, ok: false, interval: iv }),
                }
            }
            ["setpos", sid, st, life, ka, first] => {
                let (sid, st, life, ka) = match (p(sid), p(st), p(life), p(ka)) {
                    (Some(a), Some(b), Some(c), Some(d)) => (a, b, c, d),
                    _ => return Self::bad(),
                };
                let ok = self.vs.set_position(self.real_sub(sid), st.clamp(0, 4) as u8, life as u32, ka as u32, *first == "1");
                self.finish(if ok { "1" } else { "0" }.to_string(), Observed::None)
            }
            ["resend", sid] => {
                let sid = match p(sid) {
                    Some(s) => s,
                    None => return Self::bad(),
                };
                let ok = self.vs.resend_data(self.real_sub(sid));
                self.finish(if ok { "1" } else { "0" }.to_string(), Observed::Resend(sid, ok))
            }
            ["transfer", sid] => {
                let sid = match p(sid) {
                    Some(s) => s,
                    None => return Self::bad(),
                };
                let req = TransferSubscriptionsRequest {
                    request_header: RequestHeader::dummy(),
                    subscription_ids: Some(vec![self.real_sub(sid)]),
                    send_initial_values: false,
                };
                let txt = match self.vs.transfer_subscriptions(&req) {
                    SupportedMessage::TransferSubscriptionsResponse(r) => {
                        r.results.map(|v| v.iter().map(|t| sc_name(t.status_code)).collect::<Vec<_>>().join("+")).unwrap_or_default()
                    }
                    SupportedMessage::ServiceFault(f) => sc_name(f.response_header.service_result),
                    _ => "unexpected".to_string(),
                };
                self.finish(txt, Observed::None)
            }
            ["setmode", sid, iid, mode] => {
                let (sid, iid, mode) = match (p(sid), p(iid), p(mode)) {
                    (Some(a), Some(b), Some(c)) => (a, b as u32, c),
                    _ => return Self::bad(),
                };
                let req = SetMonitoringModeRequest {
                    request_header: RequestHeader::dummy(),
                    subscription_id: self.real_sub(sid),
                    monitoring_mode: match mode {
                        0 => MonitoringMode::Disabled,
                        1 => MonitoringMode::Sampling,
                        _ => MonitoringMode::Reporting,
                    },
                    monitored_item_ids: Some(vec![iid]),
                };
                let (txt, ok) = match self.vs.set_monitoring_mode(&req) {
                    SupportedMessage::SetMonitoringModeResponse(r) => {
                        let s = r.results.as_ref().unwrap()[0];
                        (sc_name(s), s.is_good())
                    }
                    SupportedMessage::ServiceFault(f) => (sc_name(f.response_header.service_result), false),
                    _ => ("unexpected".to_string(), false),
                };
                self.finish(txt, Observed::SetMode { sub_id: sid, item_id: iid, mode, ok })
            }
            ["moditem", sid, iid, h, qs, dis, samp] => {
                let (sid, iid, h, qs) = match (p(sid), p(iid), p(h), p(qs)) {
                    (Some(a), Some(b), Some(c), Some(d)) => (a, b as u32, c as u32, d as u32),
                    _ => return Self::bad(),
                };
                let sampling = if *samp == "-" {
                    -1.0
                } else {
                    match p(samp) {
                        Some(k) => (k * UNIT_MS) as f64,
                        None => return Self::bad(),
                    }
                };
                let req = ModifyMonitoredItemsRequest {
                    request_header: RequestHeader::dummy(),
                    subscription_id: self.real_sub(sid),
                    timestamps_to_return: TimestampsToReturn::Neither,
                    items_to_modify: Some(vec![MonitoredItemModifyRequest {
                        monitored_item_id: iid,
                        requested_parameters: MonitoringParameters {
                            client_handle: h,
                            sampling_interval: sampling,
                            filter: ExtensionObject::null(),
                            queue_size: qs,
                            discard_oldest: *dis == "1",
                        },
                    }]),
                };
                let (txt, ok) = match self.vs.modify_monitored_items(self.address_space.clone(), &req) {
                    SupportedMessage::ModifyMonitoredItemsResponse(r) => {
                        let s = &r.results.as_ref().unwrap()[0];
                        (sc_name(s.status_code), s.status_code.is_good())
                    }
                    SupportedMessage::ServiceFault(f) => (sc_name(f.response_header.service_result), false),
                    _ => ("unexpected".to_string(), false),
                };
                self.finish(txt, Observed::ModItem { sub_id: sid, item_id: iid, handle: h, interval_sampling: *samp == "-", ok })
            }
            ["trigger", sid, iid, add, rem] => {
                let (sid, iid) = match (p(sid), p(iid)) {
                    (Some(a), Some(b)) => (a, b as u32),
                    _ => return Self::bad(),
                };
                let list = |t: &str| -> Option<Option<Vec<u32>>> {
                    if t == "-" {
                        return Some(None);
                    }
                    let inner = &t[1..t.len() - 1];
                    if inner.is_empty() {
                        return Some(Some(vec![]));
                    }
                    inner.split(',').map(|x| x.parse::<u32>().ok()).collect::<Option<Vec<u32>>>().map(Some)
                };
                let (add, rem) = match (list(add), list(rem)) {
                    (Some(a), Some(b)) => (a, b),
                    _ => return Self::bad(),
                };
                let req = SetTriggeringRequest {
                    request_header: RequestHeader::dummy(),
                    subscription_id: self.real_sub(sid),
                    triggering_item_id: iid,
                    links_to_add: add,
                    links_to_remove: rem,
                };
                let show = |v: &Option<Vec<StatusCode>>| match v {
                    None => "-".to_string(),
                    Some(v) => v.iter().map(|s| if s.is_good() { 'G' } else { 'B' }).collect::<String>(),
                };
                let (txt, ok) = match self.vs.set_triggering(&req) {
                    SupportedMessage::SetTriggeringResponse(r) => {
                        (format!("{}/{}", show(&r.add_results), show(&r.remove_results)), true)
                    }
                    SupportedMessage::ServiceFault(f) => (sc_name(f.response_header.service_result), false),
                    _ => ("unexpected".to_string(), false),
                };
                self.finish(txt, Observed::Trigger { sub_id: sid, ok })
            }
            ["write", node, v] => {
                let (node, v) = match (p(node), p(v)) {
                    (Some(a), Some(b)) => (a as u32, b),
                    _ => return Self::bad(),
                };
                let t = DateTime::from(self.now());
                let _ = self.address_space.write().set_variable_value(node_id(node), Variant::Int64(v), &t, &t);
                self.finish("-".to_string(), Observed::Write { node, value: v })
            }
            ["tick", dt] => {
                let dt = match p(dt) {
                    Some(d) => d,
                    None => return Self::bad(),
                };
                self.now_units += dt;
                let now = self.now();
                let asp = self.address_space.read();
                let _ = self.vs.tick_timer(&now, &asp);
                drop(asp);
                self.finish("-".to_string(), Observed::Tick(dt))
            }
            ["publish", rid, acks] => {
                let rid = match p(rid) {
                    Some(r) => r as u32,
                    None => return Self::bad(),
                };
                let acks: Option<Vec<(i64, u32)>> = if *acks == "-" {
                    None
                } else {
                    let inner = &acks[1..acks.len() - 1];
                    let mut v = Vec::new();
                    if !inner.is_empty() {
                        for t in inner.split(',') {
                            match t.split_once('.') {
                                Some((a, b)) => match (p(a), p(b)) {
                                    (Some(a), Some(b)) => v.push((a, b as u32)),
                                    _ => return Self::bad(),
                                },
                                None => return Self::bad(),
                            }
                        }
                    }
                    Some(v)
                };
                let req = PublishRequest {
                    request_header: RequestHeader::dummy(),
                    subscription_acknowledgements: acks.as_ref().map(|v| {
                        v.iter()
                            .map(|(s, q)| SubscriptionAcknowledgement {
                                subscription_id: self.real_sub(*s),
                                sequence_number: *q,
                            })
                            .collect()
                    }),
                };
                let now = self.now();
                let r = self.vs.async_publish(&now, self.address_space.clone(), rid, &req);
                let (txt, result) = match r {
                    None => ("queued".to_string(), Ok(())),
                    Some(SupportedMessage::ServiceFault(f)) => {
                        (sc_name(f.response_header.service_result), Err(f.response_header.service_result))
                    }
                    Some(_) => ("unexpected".to_string(), Err(StatusCode::BadUnexpectedError)),
                };
                self.finish(txt, Observed::Publish { req_id: rid, acks, result })
            }
            ["republish", sid, seq] => {
                let (sid, seq) = match (p(sid), p(seq)) {
                    (Some(a), Some(b)) => (a, b as u32),
                    _ => return Self::bad(),
                };
                let req = RepublishRequest {
                    request_header: RequestHeader::dummy(),
                    subscription_id: self.real_sub(sid),
                    retransmit_sequence_number: seq,
                };
                let (txt, result) = match self.vs.republish(&req) {
                    SupportedMessage::RepublishResponse(r) => {
                        let m = self.parse_msg(&r.notification_message);
                        (Self::show_msg(&m), Ok(m))
                    }
                    SupportedMessage::ServiceFault(f) => {
                        (sc_name(f.response_header.service_result), Err(f.response_header.service_result))
                    }
                    _ => ("unexpected".to_string(), Err(StatusCode::BadUnexpectedError)),
                };
                self.finish(txt, Observed::Republish { sub_id: sid, seq, result })
            }
            _ => Self::bad(),
        }
    }
}

// ---------------------------------------------------------------------------------------------
// generator shared by C40 / C21 (weights differ)
// ---------------------------------------------------------------------------------------------

pub struct GenWeights {
    pub write: u32,
    pub tick: u32,
    pub publish: u32,
    pub republish: u32,
    pub sub: u32,
    pub delsub: u32,
    pub item: u32,
    pub delitem: u32,
    pub pubmode: u32,
    pub modsub: u32,
    pub setmode: u32,
    pub moditem: u32,
    pub trigger: u32,
    pub resend: u32,
    pub transfer: u32,
    pub max_len: i64,
}

pub fn gen_case(rng: &mut crate::common::Rng, w: &GenWeights, thorough: bool, out: &mut Vec<String>) {
    let nodes = rng.range(1, 3);
    let maxq = *rng.pick(&[1i64, 2, 3, 5, 10]);
    out.push(format!("reset {} {}", nodes, maxq));
    let mut subs: Vec<i64> = Vec::new(); // alive (as far as the generator knows)
    let mut next_sub = 1i64;
    let mut items: Vec<(i64, i64)> = Vec::new(); // (sub, item id guess)
    let mut item_count: std::collections::HashMap<i64, i64> = Default::default();
    let mut next_handle = 1;
    let mut next_req = 1;
    let mut next_val = 1;
    // sequence numbers the generator believes were sent, per subscription (upper bound)
    let mut seq_guess: std::collections::HashMap<i64, i64> = Default::default();
    let regime = rng.below(4); // 0: requests plentiful, 1: scarce, 2: none for long stretches, 3: mixed
    let len = rng.range(4, if thorough { 2 * w.max_len } else { w.max_len });
    let mut new_sub = |rng: &mut crate::common::Rng, out: &mut Vec<String>, subs: &mut Vec<i64>, next_sub: &mut i64| {
        let ka = *rng.pick(&[1i64, 2, 3, 5]);
        let life = 3 * ka + *rng.pick(&[0i64, 0, 1, 4, 20]);
        let iv = *rng.pick(&[1i64, 1, 1, 2, 3]);
        let prio = *rng.pick(&[0i64, 0, 1, 5, 200, 255]);
        let en = if rng.chance(1, 8) { 0 } else { 1 };
        out.push(format!("sub {} {} {} {} {}", prio, iv, ka, life, en));
        subs.push(*next_sub);
        *next_sub += 1;
    };
    new_sub(rng, out, &mut subs, &mut next_sub);
    for _ in 0..len {
        // a session without subscriptions is uninteresting for long: usually start a new one, and
        // give a fresh subscription some items at once
        if subs.is_empty() && rng.chance(2, 3) {
            new_sub(rng, out, &mut subs, &mut next_sub);
        }
        if let Some(s) = subs.last().cloned() {
            if !item_count.contains_key(&s) && rng.chance(3, 4) {
                for _ in 0..rng.range(1, 2) {
                    let qs = *rng.pick(&[1i64, 1, 2, 3, 10]);
                    let samp = if rng.chance(3, 4) { "-".to_string() } else { "1".to_string() };
                    out.push(format!("item {} {} {} {} {} 2 {}", s, next_handle, rng.range(1, nodes), qs, if rng.chance(3, 4) { 1 } else { 0 }, samp));
                    next_handle += 1;
                    let c = item_count.entry(s).or_insert(0);
                    *c += 1;
                    items.push((s, *c));
                }
                item_count.entry(s).or_insert(0);
            }
        }
        let pick_sub = |rng: &mut crate::common::Rng, subs: &Vec<i64>, next_sub: i64| -> i64 {
            if subs.is_empty() || rng.chance(1, 12) {
                rng.range(0, next_sub + 1)
            } else {
                *rng.pick(subs)
            }
        };
        let pub_w = match regime {
            0 => w.publish * 3,
            1 => w.publish,
            2 => w.publish / 3 + 1,
            _ => w.publish * (1 + rng.below(3) as u32),
        };
        match rng.weighted(&[w.write, w.tick, pub_w, w.republish, w.sub, w.delsub, w.item, w.delitem, w.pubmode, w.modsub, w.setmode, w.moditem, w.trigger, w.resend, w.transfer]) {
            0 => {
                out.push(format!("write {} {}", rng.range(1, nodes), next_val));
                if !rng.chance(1, 6) {
                    next_val += 1;
                }
            }
            1 => {
                let dt = match rng.weighted(&[6, 2, 1, 1]) {
                    0 => 1,
                    1 => 0,
                    2 => 2,
                    _ => rng.range(3, 7),
                };
                out.push(format!("tick {}", dt));
                for s in subs.iter() {
                    *seq_guess.entry(*s).or_insert(0) += 1;
                }
            }
            2 => {
                // acknowledgements: valid, duplicate, unknown, foreign subscription
                let acks = match rng.weighted(&[3, 5, 1]) {
                    0 => "-".to_string(),
                    1 => {
                        let k = rng.range(0, 3);
                        let mut v = Vec::new();
                        for _ in 0..k {
                            let s = pick_sub(rng, &subs, next_sub);
                            let hi = *seq_guess.get(&s).unwrap_or(&0) + 1;
                            let q = if rng.chance(1, 8) { rng.range(hi, hi + 5) } else { rng.range(0, hi.max(1)) };
                            v.push(format!("{}.{}", s, q));
                            if rng.chance(1, 6) {
                                v.push(format!("{}.{}", s, q));
                            }
                        }
                        format!("[{}]", v.join(","))
                    }
                    _ => "[]".to_string(),
                };
                out.push(format!("publish {} {}", next_req, acks));
                next_req += 1;
            }
            3 => {
                let s = pick_sub(rng, &subs, next_sub);
                let hi = *seq_guess.get(&s).unwrap_or(&0) + 1;
                out.push(format!("republish {} {}", s, rng.range(0, hi + 1)));
            }
            4 => {
                if subs.len() < 3 {
                    new_sub(rng, out, &mut subs, &mut next_sub);
                } else {
                    out.push("tick 1".to_string());
                }
            }
            5 => {
                if rng.chance(1, 3) {
                    let s = pick_sub(rng, &subs, next_sub);
                    out.push(format!("delsub {}", s));
                    subs.retain(|x| *x != s);
                } else {
                    out.push("tick 1".to_string());
                }
            }
            6 => {
                let s = pick_sub(rng, &subs, next_sub);
                let node = if rng.chance(1, 15) { nodes + 1 } else { rng.range(1, nodes) };
                let qs = *rng.pick(&[0i64, 1, 1, 2, 3, 5, 10, 100]);
                let mode = match rng.weighted(&[1, 1, 12]) {
                    0 => 0,
                    1 => 1,
                    _ => 2,
                };
                let samp = match rng.weighted(&[6, 3, 1]) {
                    0 => "-".to_string(),
                    1 => "1".to_string(),
                    _ => rng.range(2, 4).to_string(),
                };
                out.push(format!("item {} {} {} {} {} {} {}", s, next_handle, node, qs, if rng.chance(3, 4) { 1 } else { 0 }, mode, samp));
                next_handle += 1;
                let c = item_count.entry(s).or_insert(0);
                *c += 1;
                items.push((s, *c));
            }
            7 => {
                if !items.is_empty() && !rng.chance(1, 6) {
                    let (s, i) = *rng.pick(&items);
                    out.push(format!("delitem {} {}", s, i));
                } else {
                    out.push(format!("delitem {} {}", pick_sub(rng, &subs, next_sub), rng.range(0, 4)));
                }
            }
            8 => {
                let s = pick_sub(rng, &subs, next_sub);
                out.push(format!("pubmode {} {}", s, rng.below(2)));
            }
            9 => {
                let s = pick_sub(rng, &subs, next_sub);
                let ka = *rng.pick(&[1i64, 2, 3, 5]);
                let life = 3 * ka + *rng.pick(&[0i64, 0, 1, 4, 20]);
                let iv = *rng.pick(&[1i64, 1, 2, 3]);
                let prio = *rng.pick(&[0i64, 1, 5, 200, 255]);
                out.push(format!("modsub {} {} {} {} {}", s, prio, iv, ka, life));
            }
            10 => {
                let (s, i) = if !items.is_empty() && !rng.chance(1, 8) { *rng.pick(&items) } else { (pick_sub(rng, &subs, next_sub), rng.range(0, 4)) };
                out.push(format!("setmode {} {} {}", s, i, rng.below(3)));
            }
            11 => {
                let (s, i) = if !items.is_empty() && !rng.chance(1, 8) { *rng.pick(&items) } else { (pick_sub(rng, &subs, next_sub), rng.range(0, 4)) };
                let qs = *rng.pick(&[0i64, 1, 1, 2, 3, 5, 10, 100]);
                let samp = match rng.weighted(&[4, 3, 1]) {
                    0 => "-".to_string(),
                    1 => "1".to_string(),
                    _ => rng.range(2, 4).to_string(),
                };
                let h = if rng.chance(1, 3) { next_handle += 1; next_handle - 1 } else { 0 };
                // handle 0 = keep: the generator does not track handles, so a fresh unique one is used otherwise
                let h = if h == 0 { next_handle += 1; next_handle - 1 } else { h };
                out.push(format!("moditem {} {} {} {} {} {}", s, i, h, qs, rng.below(2), samp));
            }
            12 => {
                let (s, i) = if !items.is_empty() && !rng.chance(1, 8) { *rng.pick(&items) } else { (pick_sub(rng, &subs, next_sub), rng.range(0, 4)) };
                let lst = |rng: &mut crate::common::Rng| -> String {
                    match rng.weighted(&[2, 1, 6]) {
                        0 => "-".to_string(),
                        1 => "[]".to_string(),
                        _ => {
                            let k = rng.range(1, 3);
                            let v: Vec<String> = (0..k).map(|_| rng.range(0, 4).to_string()).collect();
                            format!("[{}]", v.join(","))
                        }
                    }
                };
                let a = lst(rng);
                let r = lst(rng);
                out.push(format!("trigger {} {} {} {}", s, i, a, r));
            }
            13 => {
                out.push(format!("resend {}", pick_sub(rng, &subs, next_sub)));
            }
            _ => {
                out.push(format!("transfer {}", pick_sub(rng, &subs, next_sub)));
            }
        }
    }
}

/// Small-scope enumeration of ONE step of the subscription state machine in the real pipeline:
/// every (state, lifetime counter, keep-alive counter, first_message_sent, publishing enabled, data
/// available, request queued) position is set up with `setpos` and followed by one timer tick with the
/// interval elapsed, one without, or one publish request.  `k` selects the position.
pub fn single_step_count() -> usize {
    3 * 3 * 2 * 2 * 2 * 4 * 2 * 3
}

pub fn gen_single_step(k: usize, out: &mut Vec<String>) {
    let mut k = k % single_step_count();
    let mut take = |n: usize| {
        let r = k % n;
        k /= n;
        r
    };
    let state = [2, 3, 4][take(3)];
    let life = [1, 2, 7][take(3)];
    let ka = [1, 2][take(2)];
    let first = take(2);
    let enabled = take(2);
    let data = take(4);
    let req = take(2);
    let last = take(3);
    out.push("reset 1 3".to_string());
    out.push("sub 0 1 3 20 1".to_string());
    out.push("item 1 1 1 2 1 2 -".to_string());
    out.push("tick 1".to_string());
    out.push("publish 1 -".to_string());
    out.push("tick 1".to_string());
    if enabled == 0 {
        out.push("pubmode 1 0".to_string());
    }
    match data {
        1 => out.push("write 1 5".to_string()), // a change waiting to be sampled
        2 => {
            // exactly one notification queued in the subscription
            out.push("write 1 5".to_string());
            out.push("tick 1".to_string());
        }
        3 => {
            // a backlog of three queued notifications (more_notifications inside the state machine)
            for v in 5..8 {
                out.push(format!("write 1 {}", v));
                out.push("tick 1".to_string());
            }
        }
        _ => {}
    }
    if req == 1 {
        out.push("publish 2 -".to_string());
    }
    out.push(format!("setpos 1 {} {} {} {}", state, life, ka, first));
    out.push(match last {
        0 => "tick 1".to_string(),
        1 => "tick 0".to_string(),
        _ => "publish 3 -".to_string(),
    });
    // what happens next is part of the case too: the request side, then two more intervals
    out.push("publish 4 -".to_string());
    out.push("tick 1".to_string());
    out.push("tick 1".to_string());
}

/// Directed scenarios with randomised parameters for the branches a random walk rarely reaches:
/// triggering links onto Sampling / Reporting / Disabled / deleted items, an item queue that holds more
/// than a ModifyMonitoredItems leaves room for, ResendData, ModifySubscription in every state,
/// monitoring mode changes with queued values, Republish of acknowledged and of evicted numbers.
pub fn gen_scenario(rng: &mut crate::common::Rng, out: &mut Vec<String>) {
    let maxq = *rng.pick(&[2i64, 3, 5, 10]);
    out.push(format!("reset 2 {}", maxq));
    match rng.below(7) {
        0 => {
            // triggering: item 1 reports and triggers 2 (Sampling), 3 (Reporting), 4 (Disabled), 5 (deleted)
            let iv = rng.range(1, 2);
            out.push(format!("sub 0 {} 3 20 1", iv));
            out.push("item 1 1 1 2 1 2 -".to_string());
            out.push(format!("item 1 2 2 {} 1 1 -", rng.range(1, 3)));
            out.push("item 1 3 2 2 1 2 -".to_string());
            out.push("item 1 4 2 2 1 0 -".to_string());
            out.push("item 1 5 2 2 1 1 -".to_string());
            out.push("trigger 1 1 [2,3,4,5,1,9] -".to_string());
            out.push("delitem 1 5".to_string());
            if rng.chance(1, 2) {
                out.push("trigger 1 2 [1] [3]".to_string());
            }
            let mut v = 1;
            for _ in 0..rng.range(4, 9) {
                match rng.below(5) {
                    0 => out.push(format!("write 1 {}", v)),
                    1 => out.push(format!("write 2 {}", v)),
                    2 => out.push(format!("publish {} -", v)),
                    3 => out.push(format!("tick {}", rng.range(0, 2))),
                    _ => out.push(format!("setmode 1 {} {}", rng.range(1, 4), rng.below(3))),
                }
                v += 1;
            }
            out.push("trigger 1 1 - [2,7]".to_string());
            out.push("write 1 99".to_string());
            out.push("tick 2".to_string());
            out.push("publish 90 -".to_string());
            out.push("tick 2".to_string());
        }
        1 => {
            // an item sampling faster than the publishing interval fills its queue; then it is shrunk
            let qs = rng.range(2, maxq);
            out.push(format!("sub 0 {} 3 30 1", rng.range(3, 5)));
            out.push(format!("item 1 1 1 {} {} 2 1", qs, rng.below(2)));
            out.push("tick 1".to_string());
            for v in 1..=(qs + rng.range(0, 2)) {
                out.push(format!("write 1 {}", v));
                out.push("tick 1".to_string());
                if rng.chance(1, 6) {
                    out.push(format!("publish {} -", v));
                }
            }
            out.push(format!("moditem 1 1 {} {} {} {}", 7, rng.range(0, qs - 1), rng.below(2), if rng.chance(1, 2) { "-" } else { "1" }));
            out.push("publish 50 -".to_string());
            out.push("tick 5".to_string());
            out.push("tick 5".to_string());
        }
        2 => {
            // ResendData in every state, consumed by a timer tick or by a publish request
            out.push(format!("sub 0 1 {} 20 {}", rng.range(1, 3), if rng.chance(1, 5) { 0 } else { 1 }));
            out.push(format!("item 1 1 1 {} 1 {} {}", rng.range(1, 3), rng.range(1, 2), if rng.chance(1, 2) { "-" } else { "2" }));
            for k in 0..rng.range(2, 8) {
                match rng.below(4) {
                    0 => out.push("tick 1".to_string()),
                    1 => out.push(format!("publish {} -", k + 1)),
                    2 => out.push(format!("write 1 {}", k + 1)),
                    _ => out.push("tick 0".to_string()),
                }
            }
            out.push("resend 1".to_string());
            if rng.chance(1, 2) {
                // an item created while the flag is pending is covered by it as well
                out.push(format!("item 1 9 1 {} 1 2 {}", rng.range(1, 3), if rng.chance(1, 2) { "-" } else { "2" }));
            }
            out.push(if rng.chance(1, 2) { "tick 1".to_string() } else { "publish 40 -".to_string() });
            out.push("resend 7".to_string());
            out.push("tick 1".to_string());
            out.push("publish 41 -".to_string());
            out.push("tick 1".to_string());
        }
        3 => {
            // ModifySubscription in every state (Creating, Normal, Late, KeepAlive), each parameter
            out.push("sub 5 2 2 8 1".to_string());
            if rng.chance(1, 2) {
                out.push("sub 5 1 3 9 1".to_string());
            }
            out.push("item 1 1 1 2 1 2 -".to_string());
            let pre = rng.below(4);
            if pre >= 1 {
                out.push("tick 1".to_string());
            }
            if pre == 2 {
                out.push("tick 2".to_string()); // Late (no request)
            }
            if pre == 3 {
                out.push("publish 1 -".to_string());
                out.push("tick 2".to_string());
                out.push("tick 2".to_string()); // KeepAlive
            }
            let (p, i, k, l) = match rng.below(5) {
                0 => (200, 2, 2, 8),
                1 => (5, 1, 2, 8),
                2 => (5, 2, 1, 8),
                3 => (5, 2, 2, 6),
                _ => (rng.range(0, 255), rng.range(1, 3), rng.range(1, 3), rng.range(9, 12)),
            };
            out.push(format!("modsub 1 {} {} {} {}", p, i, k, l));
            out.push("modsub 9 1 1 1 3".to_string());
            for k in 0..rng.range(3, 10) {
                match rng.below(3) {
                    0 => out.push("tick 1".to_string()),
                    1 => out.push(format!("publish {} -", 10 + k)),
                    _ => out.push(format!("write 1 {}", k + 1)),
                }
            }
        }
        4 => {
            // monitoring mode changes while values are queued in the item
            out.push(format!("sub 0 {} 3 30 1", rng.range(2, 4)));
            out.push(format!("item 1 1 1 3 1 {} 1", rng.range(1, 2)));
            out.push("tick 1".to_string());
            for v in 1..=rng.range(1, 4) {
                out.push(format!("write 1 {}", v));
                out.push("tick 1".to_string());
            }
            for _ in 0..rng.range(1, 4) {
                out.push(format!("setmode 1 1 {}", rng.below(3)));
                out.push(format!("write 1 {}", 20 + rng.below(5)));
                out.push(format!("tick {}", rng.range(1, 4)));
            }
            out.push("publish 1 -".to_string());
            out.push("setmode 1 9 2".to_string());
            out.push("setmode 8 1 2".to_string());
            out.push("delitem 1 1".to_string());
            out.push("tick 4".to_string());
        }
        5 => {
            // who is served first: several subscriptions (equal and different priorities) all with data,
            // fewer requests than notifications
            let prios: Vec<i64> = match rng.below(4) {
                0 => vec![5, 5],
                1 => vec![5, 5, 5],
                2 => vec![5, 200, 5],
                _ => vec![rng.range(0, 3), rng.range(0, 3), rng.range(0, 3)],
            };
            for (i, p) in prios.iter().enumerate() {
                out.push(format!("sub {} 1 3 30 1", p));
                out.push(format!("item {} {} 1 2 1 2 -", i + 1, i + 1));
            }
            out.push("tick 1".to_string());
            out.push("tick 1".to_string());
            let mut rq = 1;
            for v in 1..=rng.range(2, 5) {
                out.push(format!("write 1 {}", v));
                out.push("tick 1".to_string());
                if rng.chance(1, 2) {
                    out.push(format!("publish {} -", rq));
                    rq += 1;
                }
                if rng.chance(1, 4) {
                    out.push(format!("modsub {} {} 1 3 30", rng.range(1, prios.len() as i64), rng.pick(&[5i64, 200, 0])));
                }
            }
            for _ in 0..rng.range(1, 4) {
                out.push(format!("publish {} -", rq));
                rq += 1;
            }
        }
        _ => {
            // Republish of acknowledged and of evicted sequence numbers; subscription deleted with data queued
            out.push("sub 0 1 1 30 1".to_string());
            out.push("item 1 1 1 1 1 2 -".to_string());
            let n = rng.range(5, 7);
            for v in 1..=n {
                out.push(format!("publish {} {}", v, if v == 3 { "[1.1]" } else { "-" }));
                out.push("tick 1".to_string());
                out.push(format!("write 1 {}", v));
            }
            out.push("republish 1 1".to_string());
            out.push("republish 1 2".to_string());
            out.push(format!("republish 1 {}", n));
            out.push(format!("republish 1 {}", n + 3));
            out.push("tick 1".to_string());
            out.push("tick 1".to_string());
            out.push("delsub 1".to_string());
            out.push("republish 1 2".to_string());
            out.push("republish 5 1".to_string());
        }
    }
}

