//! One real server connection (`TcpTransport`) driven without a socket, frame by frame, with chunks
//! of every type (MSG / OPN / CLO), flag (C / F / A), size and malformation.  Shared by the C10,
//! C12 and C15 runners (each adds its own oracle on `StepInfo`).
use crate::common::*;
use crate::props::c11;
use crate::props::c12::{self, CI};
use opcua::core::comms::message_chunk::{MessageChunk, MessageChunkType, MessageIsFinalType};
use opcua::core::supported_message::SupportedMessage;
use opcua::server::comms::tcp_transport::TcpTransport;
use opcua::types::*;

#[derive(Clone, Copy)]
pub struct Lens {
    pub ov_opn: usize,
    pub ge: usize,
    pub cs: usize,
    pub opn: usize,
    pub clo: usize,
}

fn create_session_request() -> SupportedMessage {
    CreateSessionRequest {
        request_header: RequestHeader::new(&NodeId::null(), &DateTime::null(), 3),
        client_description: ApplicationDescription {
            application_uri: UAString::from("urn:verif"),
            product_uri: UAString::from("urn:verif"),
            application_name: LocalizedText::from("verif"),
            application_type: ApplicationType::Client,
            gateway_server_uri: UAString::null(),
            discovery_profile_uri: UAString::null(),
            discovery_urls: None,
        },
        server_uri: UAString::null(),
        endpoint_url: UAString::from(c12::endpoint_url()),
        session_name: UAString::from("verif"),
        client_nonce: ByteString::from(vec![7u8; 32]),
        client_certificate: ByteString::null(),
        requested_session_timeout: 60000.0,
        max_response_message_size: 0,
    }
    .into()
}

fn open_request_full(renew: bool, mode: MessageSecurityMode, pv_same: bool, nonce: Option<usize>) -> OpenSecureChannelRequest {
    OpenSecureChannelRequest {
        request_header: RequestHeader::new(&NodeId::null(), &DateTime::null(), 1),
        client_protocol_version: if pv_same { 0 } else { 1 },
        request_type: if renew { SecurityTokenRequestType::Renew } else { SecurityTokenRequestType::Issue },
        security_mode: mode,
        client_nonce: match nonce {
            None => ByteString::null(),
            Some(n) => ByteString::from(vec![9u8; n]),
        },
        requested_lifetime: 60000,
    }
}

fn open_request(renew: bool) -> SupportedMessage {
    open_request_full(renew, MessageSecurityMode::None, true, None).into()
}

/// `o:<i|r>:<mode 0-3>:<s|d>:<nonce length or ->`
fn parse_open(rk: &str) -> Option<(bool, MessageSecurityMode, bool, Option<usize>)> {
    let p: Vec<&str> = rk.split(':').collect();
    if p.len() != 5 || p[0] != "o" {
        return None;
    }
    let renew = match p[1] {
        "i" => false,
        "r" => true,
        _ => return None,
    };
    let mode = match p[2] {
        "0" => MessageSecurityMode::Invalid,
        "1" => MessageSecurityMode::None,
        "2" => MessageSecurityMode::Sign,
        "3" => MessageSecurityMode::SignAndEncrypt,
        _ => return None,
    };
    let pv = match p[3] {
        "s" => true,
        "d" => false,
        _ => return None,
    };
    let nonce = if p[4] == "-" { None } else { Some(p[4].parse().ok()?) };
    Some((renew, mode, pv, nonce))
}

fn close_request() -> SupportedMessage {
    CloseSecureChannelRequest { request_header: RequestHeader::new(&NodeId::null(), &DateTime::null(), 4) }.into()
}

/// the encoded request (node id + body) that opens the body stream of a pending message
pub fn request_bytes(rk: &str) -> Option<Vec<u8>> {
    Some(match rk {
        "ge" => c12::get_endpoints_bytes(),
        "cs" => c11::message_bytes(&create_session_request()).1,
        "oi" => c11::message_bytes(&open_request(false)).1,
        "or" => c11::message_bytes(&open_request(true)).1,
        "cl" => c11::message_bytes(&close_request()).1,
        "junk" => vec![],
        "obad" => {
            // request type field (after node id, request header and protocol version) holds no enum value
            let r = open_request_full(false, MessageSecurityMode::None, true, None);
            let off = 4 + r.request_header.byte_len() + 4;
            let mut b = c11::message_bytes(&r.into()).1;
            b[off..off + 4].copy_from_slice(&7u32.to_le_bytes());
            b
        }
        _ => {
            let (renew, mode, pv, nonce) = parse_open(rk)?;
            c11::message_bytes(&open_request_full(renew, mode, pv, nonce).into()).1
        }
    })
}

pub fn chunk_type(ty: &str) -> Option<MessageChunkType> {
    match ty {
        "msg" => Some(MessageChunkType::Message),
        "opn" => Some(MessageChunkType::OpenSecureChannel),
        "clo" => Some(MessageChunkType::CloseSecureChannel),
        _ => None,
    }
}

pub fn lens() -> Lens {
    let ov_opn = c12::msg_chunk(0, 1, 1, MessageIsFinalType::Final, MessageChunkType::OpenSecureChannel, &[]).data.len();
    Lens {
        ov_opn,
        ge: request_bytes("ge").unwrap().len(),
        cs: request_bytes("cs").unwrap().len(),
        opn: request_bytes("oi").unwrap().len(),
        clo: request_bytes("cl").unwrap().len(),
    }
}

pub fn overhead(l: &Lens, ty: &str) -> usize {
    if ty == "opn" {
        l.ov_opn
    } else {
        24
    }
}

pub fn reset_line(mc: u64, mm: u64) -> String {
    let l = lens();
    format!("reset conn {} {} {} {} {} {} {}", mc, mm, l.ov_opn, l.ge, l.cs, l.opn, l.clo)
}

/// builds the chunk described by an op (`None` = bad-op)
pub fn build_chunk(l: &Lens, ty: &str, c: CI, fin: MessageIsFinalType, size: usize, body: &[u8], mal: &str) -> Option<MessageChunk> {
    let ct = chunk_type(ty)?;
    if size < overhead(l, ty) || body.len() != size - overhead(l, ty) {
        return None;
    }
    let mut chunk = c12::msg_chunk(c.chan, c.seq, c.req, fin, ct, body);
    if chunk.data.len() != size {
        return None;
    }
    match mal {
        "ok" => {}
        "badsize" => {
            let n = (size as u32).wrapping_add(1);
            chunk.data[4..8].copy_from_slice(&n.to_le_bytes());
        }
        "badpolicy" => {
            if ty == "opn" {
                // same length, unknown policy uri
                let pos = chunk.data[..l.ov_opn].windows(5).position(|w| w == b"#None")?;
                chunk.data[pos..pos + 5].copy_from_slice(b"#Nope");
            }
        }
        _ => return None,
    }
    Some(chunk)
}

pub struct StepInfo {
    /// rendered names of what was queued for the writer
    pub responses: Vec<String>,
    pub err: Option<StatusCode>,
    pub pend_len: usize,
    pub pend_bytes: usize,
    pub last: u32,
    pub chan: u32,
    /// the chunk that was fed, if the frame was a chunk: (type, header, is_final flag, mal)
    pub chunk: Option<(String, CI, MessageIsFinalType, String)>,
    pub was_closed: bool,
}

pub fn response_name(m: &SupportedMessage) -> String {
    match m {
        SupportedMessage::AcknowledgeMessage(_) => "ack".to_string(),
        SupportedMessage::OpenSecureChannelResponse(r) => {
            format!("opn chan={} token={}", r.security_token.channel_id, r.security_token.token_id)
        }
        SupportedMessage::GetEndpointsResponse(_) => "service GetEndpointsResponse".to_string(),
        SupportedMessage::CreateSessionResponse(_) => "service CreateSessionResponse".to_string(),
        SupportedMessage::ServiceFault(f) => format!("service ServiceFault:{}", f.response_header.service_result.name()),
        _ => "service other".to_string(),
    }
}

/// an OpenSecureChannel request refused with a ServiceFault is not a response of the service layer
pub fn response_name_for(m: &SupportedMessage, to_opn_chunk: bool) -> String {
    match m {
        SupportedMessage::ServiceFault(f) if to_opn_chunk => format!("fault-opn {}", f.response_header.service_result.name()),
        m => response_name(m),
    }
}

pub struct Conn {
    pub t: TcpTransport,
    pub lens: Lens,
    pub max_chunks: usize,
    pub max_msg: usize,
    /// the reading loop of `spawn_reading_loop_task`, restated: 0 = waiting for HEL, 1 = reading
    /// chunks, 2 = loop ended
    pub phase: u8,
    stream: Vec<u8>,
    stream_off: usize,
}

impl Conn {
    pub fn new(mc: usize, mm: usize) -> Conn {
        let t = c12::new_transport();
        {
            let sc = t.verif_secure_channel();
            let mut sc = sc.write();
            let mut o = sc.decoding_options();
            o.max_chunk_count = mc;
            o.max_message_size = mm;
            sc.set_decoding_options(o);
        }
        Conn { t, lens: lens(), max_chunks: mc, max_msg: mm, phase: 0, stream: vec![], stream_off: 0 }
    }

    fn info(&self, responses: Vec<String>, err: Option<StatusCode>, chunk: Option<(String, CI, MessageIsFinalType, String)>, was_closed: bool) -> StepInfo {
        let pend = self.t.verif_pending_chunks();
        StepInfo {
            responses,
            err,
            pend_len: pend.len(),
            pend_bytes: pend.iter().map(|c| c.data.len()).sum(),
            last: self.t.verif_last_received_sequence_number(),
            chan: self.t.verif_secure_channel().read().secure_channel_id(),
            chunk,
            was_closed,
        }
    }

    /// `None` = bad-op
    pub fn step(&mut self, toks: &[&str]) -> Option<(String, StepInfo)> {
        enum F {
            Hello(opcua::core::comms::tcp_types::HelloMessage),
            Other,
            Chunk(MessageChunk),
        }
        let mut meta = None;
        let f = match toks {
            ["setlast", n] => {
                self.t.verif_set_last_received_sequence_number(n.parse().ok()?);
                return Some(("ok".to_string(), self.info(vec![], None, None, false)));
            }
            ["hel", k] => F::Hello(crate::props::c15::hello_of(k)?),
            ["ack"] => F::Other,
            ["ch", ty, ci, f, n, rk, mal] => {
                let c = c12::parse_ci(ci)??;
                let fin = c12::fin_of(f)?;
                let size: usize = n.parse().ok()?;
                let req = request_bytes(rk)?;
                if !["ok", "badsize", "badpolicy"].contains(mal) || chunk_type(ty).is_none() || size < overhead(&self.lens, ty) {
                    return None;
                }
                if self.phase == 2 {
                    return Some(("err closed".to_string(), self.info(vec![], None, None, true)));
                }
                // a chunk that finds nothing pending starts a new message: its `rk` opens the stream
                if self.t.verif_pending_chunks().is_empty() {
                    self.stream = req;
                    self.stream_off = 0;
                }
                let blen = size - overhead(&self.lens, ty);
                let body: Vec<u8> = (self.stream_off..self.stream_off + blen).map(|i| *self.stream.get(i).unwrap_or(&0)).collect();
                self.stream_off += blen;
                meta = Some((ty.to_string(), c, fin, mal.to_string()));
                F::Chunk(build_chunk(&self.lens, ty, c, fin, size, &body, mal)?)
            }
            _ => return None,
        };
        if self.phase == 2 {
            return Some(("err closed".to_string(), self.info(vec![], None, None, true)));
        }
        let (responses, result): (Vec<(u32, SupportedMessage)>, Result<(), StatusCode>) = match (self.phase, f) {
            (0, F::Hello(h)) => self.t.verif_process_hello(h, 65536, 65536),
            (0, _) => (vec![], Err(StatusCode::BadCommunicationError)), // wait_for_hello: "Expected a hello message"
            (_, F::Chunk(c)) => self.t.verif_process_chunk(c),
            (_, _) => (vec![], Err(StatusCode::BadCommunicationError)), // "Received unexpected message"
        };
        let is_opn = matches!(&meta, Some((ty, _, _, _)) if ty == "opn");
        let names: Vec<String> = responses.iter().map(|(id, m)| {
            let n = response_name_for(m, is_opn);
            if n == "ack" { n } else { format!("{} req={}", n, id) }
        }).collect();
        let base = match &result {
            Err(e) => {
                self.phase = 2;
                format!("err {}", e.name())
            }
            Ok(()) => {
                if self.phase == 0 {
                    self.phase = 1;
                }
                match names.first() {
                    None => "ok stored".to_string(),
                    Some(n) => format!("ok {}", n),
                }
            }
        };
        let info = self.info(names, result.err(), meta, false);
        Some((format!("{} last={} pend={} bytes={}", base, info.last, info.pend_len, info.pend_bytes), info))
    }
}

// ------------------------------------------------------------------------------------------------
// generator
// ------------------------------------------------------------------------------------------------

/// what a property wants to see most of
#[derive(Clone, Copy, PartialEq)]
pub enum Profile {
    /// C10: long runs of intermediate chunks of every type around the limits
    Buffering,
    /// C15: frame order, handshake states
    Ordering,
    /// C12: numbering
    Numbering,
}

pub struct GenState {
    pub chan: u64,
    pub seq: u64,
    pub opened: bool,
}

/// an OpenSecureChannelRequest with any request type x security mode x protocol version x nonce shape
fn pick_open(rng: &mut Rng) -> String {
    format!(
        "o:{}:{}:{}:{}",
        *rng.pick(&["i", "i", "r"]),
        *rng.pick(&["0", "1", "1", "2", "3"]),
        *rng.pick(&["s", "s", "s", "d"]),
        *rng.pick(&["-", "-", "0", "1", "32", "33"])
    )
}

fn pick_rk(rng: &mut Rng, ty: &str) -> String {
    if rng.chance(1, 6) {
        return match rng.below(8) {
            0 => pick_open(rng),
            k => ["ge", "cs", "oi", "or", "cl", "junk", "obad"][(k - 1) as usize].to_string(),
        };
    }
    match ty {
        "msg" => rng.pick(&["ge", "ge", "ge", "cs"]).to_string(),
        "opn" => match rng.below(5) {
            0 | 1 => "oi".to_string(),
            2 => "or".to_string(),
            _ => pick_open(rng),
        },
        _ => "cl".to_string(),
    }
}

fn rk_len(l: &Lens, rk: &str) -> usize {
    match rk {
        "ge" => l.ge,
        "cs" => l.cs,
        "oi" | "or" | "obad" => l.opn,
        "cl" => l.clo,
        "junk" => 0,
        rk => match parse_open(rk) {
            Some((_, _, _, nonce)) => l.opn + nonce.unwrap_or(0),
            None => 0,
        },
    }
}

/// one message of `n` chunks; returns the op lines
pub fn gen_message(rng: &mut Rng, l: &Lens, st: &mut GenState, profile: Profile, mc: u64, mm: u64, main_ty: &str, n: u64) -> Vec<String> {
    let rk_s = pick_rk(rng, main_ty);
    let rk = rk_s.as_str();
    let req = 10 + rng.below(90);
    let mut out = Vec::new();
    let need = rk_len(l, rk) as u64;
    for i in 0..n {
        // mostly one type per message, sometimes mixed
        let ty = if rng.chance(1, 7) { *rng.pick(&["msg", "opn", "clo"]) } else { main_ty };
        let ov = overhead(l, ty) as u64;
        let size = match profile {
            Profile::Buffering => match rng.weighted(&[4, 3, 2, 1, 1]) {
                0 => ov + need + rng.below(20),
                1 if mm > 0 => (mm / n.max(1)).max(ov) + rng.below(3),
                1 => ov + need,
                2 => ov + rng.below(4),
                3 => ov + need.saturating_sub(1 + rng.below(3)),
                _ => ov + 8000 + rng.below(300),
            },
            _ => match rng.weighted(&[6, 2, 1]) {
                0 => ov + need + rng.below(8),
                1 => ov + rng.below(6),
                _ => ov + need.saturating_sub(1),
            },
        };
        let mut c = st.chan;
        let mut s = st.seq;
        let pert = match profile {
            Profile::Numbering => 12,
            Profile::Buffering => 40,
            Profile::Ordering => 20,
        };
        match rng.below(pert) {
            0 => c = *rng.pick(&[0u64, 1, 2]),
            1 => s = (s as i64 + rng.range(-2, 2)).max(0) as u64,
            _ => {}
        }
        let s = s.min(u32::MAX as u64);
        let f = if i + 1 == n {
            if rng.chance(1, 10) { "C" } else { "F" }
        } else if rng.chance(1, 25) {
            "A"
        } else if rng.chance(1, 40) {
            "F"
        } else {
            "C"
        };
        let mal = match rng.below(if profile == Profile::Buffering { 60 } else { 30 }) {
            0 => "badsize",
            1 => "badpolicy",
            _ => "ok",
        };
        out.push(format!("ch {} {}:{}:{} {} {} {} {}", ty, c, s, req, f, size, rk, mal));
        st.seq = (st.seq + 1).min(u32::MAX as u64);
        let issue_ok = rk == "oi" || (rk.starts_with("o:i:") && !rk.starts_with("o:i:0") && rk.contains(":s:"));
        if ty == "opn" && f == "F" && issue_ok && mal == "ok" {
            st.chan = if st.opened { st.chan + 1 } else { 1 };
            st.opened = true;
        }
    }
    let _ = mc;
    out
}

/// a whole case (without the `reset` line)
pub fn gen_case(rng: &mut Rng, l: &Lens, profile: Profile, mc: u64, mm: u64, thorough: bool, out: &mut Vec<String>) {
    let mut st = GenState { chan: 0, seq: 1, opened: false };
    // preamble: nothing / Hello / Hello + Issue
    let pre = match profile {
        Profile::Ordering => rng.weighted(&[2, 3, 5]),
        Profile::Numbering => rng.weighted(&[1, 2, 10]),
        Profile::Buffering => rng.weighted(&[1, 4, 6]),
    };
    if pre >= 1 {
        if rng.chance(1, 15) {
            out.push(format!("hel {}", *rng.pick(&["badurl", "smallbuf", "proto1"])));
        } else {
            out.push("hel valid".to_string());
        }
    }
    if pre >= 2 {
        let size = l.ov_opn + l.opn;
        out.push(format!("ch opn 0:{}:{} F {} oi ok", st.seq, 1, size));
        st.seq += 1;
        st.chan = 1;
        st.opened = true;
    }
    if profile == Profile::Numbering && st.opened && rng.chance(1, 3) {
        let last = match rng.below(3) {
            0 => u32::MAX as u64 - rng.below(6),
            1 => (1u64 << 31) + rng.below(3),
            _ => rng.below(50),
        };
        out.push(format!("setlast {}", last));
        st.seq = (last + 1).min(u32::MAX as u64);
    }
    let nmsgs = if profile == Profile::Buffering { rng.range(1, 3) } else { rng.range(1, 5) };
    let mut history: Vec<Vec<String>> = Vec::new();
    for _ in 0..nmsgs {
        if rng.chance(1, 12) {
            out.push(if rng.chance(1, 2) { "ack".to_string() } else { "hel valid".to_string() });
            continue;
        }
        if profile == Profile::Numbering && !history.is_empty() && rng.chance(1, 4) {
            out.extend(rng.pick(&history).clone()); // replay
            continue;
        }
        let main_ty = match profile {
            Profile::Buffering => *rng.pick(&["msg", "msg", "opn", "opn", "clo", "clo"]),
            Profile::Ordering => *rng.pick(&["msg", "msg", "msg", "opn", "opn", "clo"]),
            Profile::Numbering => *rng.pick(&["msg", "msg", "msg", "opn", "clo"]),
        };
        let n = match profile {
            Profile::Buffering => match rng.weighted(&[3, 4, 2, 1]) {
                0 => 1 + rng.below(3),
                1 => (mc as i64 + rng.range(-1, 2)).max(1) as u64,
                2 => 1 + rng.below(12),
                _ => if thorough { 300 } else { 40 },
            },
            _ => 1 + rng.weighted(&[8, 3, 2, 1]) as u64,
        };
        let m = gen_message(rng, l, &mut st, profile, mc, mm, main_ty, n);
        history.push(m.clone());
        out.extend(m);
    }
}

// ------------------------------------------------------------------------------------------------
// systematic part of the generator: small-scope enumeration of one step in every state, and of
// every guard at its boundary (so that coverage of the model's arms does not depend on luck)
// ------------------------------------------------------------------------------------------------

fn preamble(l: &Lens, state: &str, out: &mut Vec<String>) -> (u64, u64) {
    // returns (channel id in force, next sequence number)
    match state {
        "nohel" => (0, 1),
        "hel" => {
            out.push("hel valid".to_string());
            (0, 1)
        }
        _ => {
            out.push("hel valid".to_string());
            out.push(format!("ch opn 0:1:1 F {} oi ok", l.ov_opn + l.opn));
            (1, 2)
        }
    }
}

pub fn gen_systematic(l: &Lens, out: &mut Vec<String>) {
    let tys = ["msg", "opn", "clo"];
    let rks = ["ge", "cs", "oi", "or", "cl", "junk", "obad", "o:i:0:s:-", "o:r:2:d:1"];
    let len_of = |rk: &str| rk_len(l, rk) as u64;
    let ov = |ty: &str| overhead(l, ty) as u64;
    // (1) one chunk of every type x flag x malformation in every handshake state, empty and non-empty buffer
    for state in ["nohel", "hel", "open"] {
        for ty in tys {
            for f in ["F", "C", "A"] {
                for mal in ["ok", "badsize", "badpolicy"] {
                    for prefill in [false, true] {
                        out.push(reset_line(0, 0));
                        let (chan, mut seq) = preamble(l, state, out);
                        if prefill {
                            out.push(format!("ch clo {}:{}:9 C {} ge ok", chan, seq, 24 + 10));
                            seq += 1;
                        }
                        let rk = if ty == "opn" { "or" } else if ty == "clo" { "cl" } else { "ge" };
                        out.push(format!("ch {} {}:{}:9 {} {} {} {}", ty, chan, seq, f, ov(ty) + len_of(rk), rk, mal));
                    }
                }
            }
        }
    }
    // (2) chunk-count limit at its boundary, for every type, before and after the channel is open
    for mc in [1u64, 2, 4] {
        for ty in tys {
            for state in ["hel", "open"] {
                out.push(reset_line(mc, 0));
                let (chan, seq) = preamble(l, state, out);
                for i in 0..mc + 2 {
                    out.push(format!("ch {} {}:{}:9 C {} ge ok", ty, chan, seq + i, ov(ty) + 5));
                }
                // exactly the limit, then final
                out.push(reset_line(mc, 0));
                let (chan, seq) = preamble(l, state, out);
                for i in 0..mc - 1 {
                    out.push(format!("ch {} {}:{}:9 C {} ge ok", ty, chan, seq + i, ov(ty) + 40));
                }
                out.push(format!("ch {} {}:{}:9 F {} ge ok", ty, chan, seq + mc - 1, ov(ty) + 70));
            }
        }
    }
    // (3) byte limit at its boundary: sums of limit-1, limit, limit+1, far above
    for ty in tys {
        for delta in [-2i64, -1, 0, 1, 5000] {
            for state in ["hel", "open"] {
                out.push(reset_line(0, 1000));
                let (chan, seq) = preamble(l, state, out);
                out.push(format!("ch {} {}:{}:9 C 400 ge ok", ty, chan, seq));
                out.push(format!("ch {} {}:{}:9 C 400 ge ok", ty, chan, seq + 1));
                out.push(format!("ch {} {}:{}:9 C {} ge ok", ty, chan, seq + 2, 200 + delta));
            }
        }
    }
    // (4) final chunk type x request kind, with the body at every decode boundary
    for ty in tys {
        for rk in rks {
            let n = len_of(rk);
            let mut bodies = vec![0u64, 1, 2, 3, 4, 5];
            if n > 0 {
                bodies.extend([n - 2, n - 1, n, n + 1, n + 50]);
            }
            for body in bodies {
                out.push(reset_line(0, 0));
                let (chan, seq) = preamble(l, "open", out);
                out.push(format!("ch {} {}:{}:9 F {} {} ok", ty, chan, seq, ov(ty) + body, rk));
            }
            // the same request in two chunks of mixed type: the first chunk is not of the final chunk's type
            for first in tys {
                out.push(reset_line(0, 0));
                let (chan, seq) = preamble(l, "open", out);
                out.push(format!("ch {} {}:{}:9 C {} {} ok", first, chan, seq, ov(first) + 3, rk));
                out.push(format!("ch {} {}:{}:9 F {} {} ok", ty, chan, seq + 1, ov(ty) + n, rk));
            }
        }
    }
    // (5) OPN before any channel: issue, renew, issue twice, renew after issue; six CreateSessions
    for rk in ["oi", "or", "ge"] {
        out.push(reset_line(0, 0));
        out.push("hel valid".to_string());
        out.push(format!("ch opn 0:1:1 F {} {} ok", l.ov_opn as u64 + len_of(rk), rk));
        out.push(format!("ch opn 1:2:2 F {} oi ok", l.ov_opn as u64 + len_of("oi")));
        out.push(format!("ch opn 2:3:3 F {} or ok", l.ov_opn as u64 + len_of("or")));
    }
    out.push(reset_line(0, 0));
    let (chan, seq) = preamble(l, "open", out);
    for i in 0..7 {
        out.push(format!("ch msg {}:{}:{} F {} cs ok", chan, seq + i, 20 + i, 24 + len_of("cs")));
    }
    // (5b) EVERY exit of `open_secure_channel`: request type x security mode (incl. Invalid) x protocol version same /
    //      different x nonce shape, on a connection without and with an issued channel and after a refused Issue, each
    //      followed by MSG traffic on the channel id the client would assume, then by a proper Issue and a MSG
    for state in ["hel", "refused", "open"] {
        for t in ["i", "r"] {
            for m in ["0", "1", "2", "3"] {
                for pv in ["s", "d"] {
                    for nonce in ["-", "0", "1", "32"] {
                        if nonce != "-" && !(m == "1" || m == "0") {
                            continue;
                        }
                        let rk = format!("o:{}:{}:{}:{}", t, m, pv, nonce);
                        out.push(reset_line(0, 0));
                        out.push("hel valid".to_string());
                        let mut seq = 1u64;
                        let mut chan = 0u64;
                        if state == "refused" {
                            out.push(format!("ch opn 0:{}:1 F {} o:i:0:s:- ok", seq, l.ov_opn as u64 + len_of("oi")));
                            seq += 1;
                        }
                        if state == "open" {
                            out.push(format!("ch opn 0:{}:1 F {} oi ok", seq, l.ov_opn as u64 + len_of("oi")));
                            seq += 1;
                            chan = 1;
                        }
                        out.push(format!("ch opn {}:{}:2 F {} {} ok", chan, seq, l.ov_opn as u64 + rk_len(l, &rk) as u64, rk));
                        seq += 1;
                        // what a client that believes the OPN went through would send next
                        for c in [chan, chan + 1, 1, 2] {
                            out.push(format!("ch msg {}:{}:3 F {} ge ok", c, seq, 24 + len_of("ge")));
                            seq += 1;
                        }
                        out.push(format!("ch opn {}:{}:4 F {} oi ok", chan, seq, l.ov_opn as u64 + len_of("oi")));
                        out.push(format!("ch msg {}:{}:5 F {} ge ok", chan + 1, seq + 1, 24 + len_of("ge")));
                    }
                }
            }
        }
    }
    for state in ["hel", "open"] {
        out.push(reset_line(0, 0));
        let (chan, seq) = preamble(l, state, out);
        out.push(format!("ch opn {}:{}:2 F {} obad ok", chan, seq, l.ov_opn as u64 + len_of("oi")));
        out.push(format!("ch msg {}:{}:3 F {} ge ok", chan, seq + 1, 24 + len_of("ge")));
    }
    // (6) sequence / channel / request id checks on a final chunk; frames that are not chunks
    for (c, s, what) in [(1u64, 2u64, "next"), (1, 5, "gap"), (1, 1, "stale"), (1, 0, "zero"), (2, 2, "chan"), (0, 2, "chan0")] {
        for ty in tys {
            out.push(reset_line(0, 0));
            preamble(l, "open", out);
            let _ = what;
            out.push(format!("ch {} {}:{}:9 F {} ge ok", ty, c, s, ov(ty) + len_of("ge")));
        }
    }
    for ty in tys {
        // second chunk with another request id / a non-consecutive number
        for (s2, r2) in [(3u64, 8u64), (4, 9), (2, 9)] {
            out.push(reset_line(0, 0));
            preamble(l, "open", out);
            out.push(format!("ch {} 1:2:9 C {} ge ok", ty, ov(ty) + 10));
            out.push(format!("ch {} 1:{}:{} F {} ge ok", ty, s2, r2, ov(ty) + len_of("ge")));
        }
    }
    for (state, prefill) in [("nohel", false), ("hel", false), ("hel", true), ("open", false), ("open", true)] {
        for fr in ["hel valid", "hel badurl", "hel smallbuf", "hel proto1", "ack"] {
            out.push(reset_line(0, 0));
            let (chan, seq) = preamble(l, state, out);
            if prefill {
                out.push(format!("ch opn {}:{}:9 C {} oi ok", chan, seq, l.ov_opn + 10));
            }
            out.push(fr.to_string());
            out.push(format!("ch opn {}:{}:9 F {} oi ok", chan, seq + 1, l.ov_opn as u64 + len_of("oi")));
        }
    }
    // (7) sequence numbers at the u32 boundary through every chunk type
    for ty in tys {
        for (last, s) in [(4294967294u64, 4294967295u64), (4294967295, 0), (4294967295, 4294967295), (4294967293, 4294967294)] {
            out.push(reset_line(0, 0));
            preamble(l, "open", out);
            out.push(format!("setlast {}", last));
            out.push(format!("ch {} 1:{}:9 C {} ge ok", ty, s, ov(ty) + 10));
            out.push(format!("ch {} 1:{}:9 F {} ge ok", ty, (s + 1).min(u32::MAX as u64), ov(ty) + len_of("ge")));
        }
    }
}
