//! C17 — signature data verifies exactly when made by the right key over the right data.
//!
//! Real code: `crypto::create_signature_data` / `crypto::verify_signature_data` with real RSA keys
//! (1024, 2048, 2048, 4096 bits; one pool per process) and their self-signed certificates.
//! Oracle: the property's sentence on the implementation's results: Good exactly for the matching
//! signer, certificate bytes, nonce and unmodified signature (under the signing policy); any change
//! of certificate, nonce, signature byte or signer ⇒ not Good.
use crate::common::*;
use opcua::crypto::x509::{X509Data, X509};
use opcua::crypto::{self, PrivateKey, SecurityPolicy};
use opcua::types::service_types::SignatureData;
use opcua::types::{ByteString, UAString};
use std::sync::OnceLock;

pub struct C17;
pub static P: C17 = C17;

struct KeyPair {
    cert: X509,
    pkey: PrivateKey,
}
unsafe impl Sync for KeyPair {}
unsafe impl Send for KeyPair {}

const POOL_BITS: [u32; 4] = [1024, 2048, 2048, 4096];

fn pool() -> &'static Vec<KeyPair> {
    static POOL: OnceLock<Vec<KeyPair>> = OnceLock::new();
    POOL.get_or_init(|| {
        POOL_BITS
            .iter()
            .enumerate()
            .map(|(i, bits)| {
                let data = X509Data {
                    key_size: *bits,
                    common_name: format!("verif{}", i),
                    organization: "verif".to_string(),
                    organizational_unit: "verif".to_string(),
                    country: "IE".to_string(),
                    state: "Dublin".to_string(),
                    alt_host_names: vec![format!("urn:verif:{}", i), "localhost".to_string()],
                    certificate_duration_days: 60,
                };
                let (cert, pkey) = X509::cert_and_pkey(&data).expect("key generation");
                KeyPair { cert, pkey }
            })
            .collect()
    })
}

const SIGNING: [&str; 5] = ["basic128rsa15", "basic256", "basic256sha256", "aes128sha256rsaoaep", "aes256sha256rsapss"];

fn policy(s: &str) -> Option<SecurityPolicy> {
    Some(match s {
        "none" => SecurityPolicy::None,
        "basic128rsa15" => SecurityPolicy::Basic128Rsa15,
        "basic256" => SecurityPolicy::Basic256,
        "basic256sha256" => SecurityPolicy::Basic256Sha256,
        "aes128sha256rsaoaep" => SecurityPolicy::Aes128Sha256RsaOaep,
        "aes256sha256rsapss" => SecurityPolicy::Aes256Sha256RsaPss,
        "unknown" => SecurityPolicy::Unknown,
        _ => return None,
    })
}

/// DER of pool certificate `c`, byte-mutated when `m > 0`: mutation `m` XORs a non-zero value into
/// one of the last 64 bytes (inside the certificate's own signature value, so it still parses)
fn cert_bytes(c: usize, m: usize) -> Vec<u8> {
    let mut der = pool()[c].cert.as_byte_string().value.unwrap();
    if m > 0 {
        let l = der.len();
        let pos = l - 1 - (m - 1) % 64;
        der[pos] ^= (1 + ((m - 1) / 64) % 255) as u8;
    }
    der
}

fn nonce(rng: &mut Rng) -> Vec<u8> {
    let len = match rng.weighted(&[6, 2, 2]) {
        0 => 32,
        1 => *rng.pick(&[0usize, 1, 16, 31, 33, 64]),
        _ => rng.below(65) as usize,
    };
    rng.bytes(len)
}

/// Deterministic enumeration: every signing policy × every pool key, then every way ONE input of the
/// verification can differ from what was signed; null inputs; non-signing policies; the x509 token
/// wrapper; `asymmetric_sign` with a buffer that is not exactly one key size.
fn systematic(out: &mut Vec<String>) {
    let n0: Vec<u8> = (0..32u8).collect();
    let nx = hex(&n0);
    for pol in SIGNING {
        for signer in 0..4usize {
            let c0 = (signer + 1) % 4;
            let ks = (POOL_BITS[signer] / 8) as usize;
            out.push(format!("reset {} {}", pol, signer));
            out.push(format!("create {} x{}", c0, nx));
            let v = |p: &str, k: usize, c: usize, m: usize, n: &[u8], kind: &str, prm: usize| {
                format!("verify {} {} {} {} x{} {} {}", p, k, c, m, hex(n), kind, prm)
            };
            out.push(v(pol, signer, c0, 0, &n0, "none", 0));
            for k in 0..4 {
                if k != signer {
                    out.push(v(pol, k, c0, 0, &n0, "none", 0));
                }
            }
            out.push(v(pol, signer, (c0 + 1) % 4, 0, &n0, "none", 0));
            for m in [1usize, 64, 65, 64 * 255] {
                out.push(v(pol, signer, c0, m, &n0, "none", 0));
            }
            let mut n1 = n0.clone();
            n1[0] ^= 1;
            out.push(v(pol, signer, c0, 0, &n1, "none", 0));
            let mut n2 = n0.clone();
            n2[31] ^= 0x80;
            out.push(v(pol, signer, c0, 0, &n2, "none", 0));
            out.push(v(pol, signer, c0, 0, &n0[..31], "none", 0));
            out.push(v(pol, signer, c0, 0, &[&n0[..], &[0u8][..]].concat(), "none", 0));
            out.push(v(pol, signer, c0, 0, &[], "none", 0));
            for bit in [0usize, 7, 8 * ks - 1, 4 * ks + 3] {
                out.push(v(pol, signer, c0, 0, &n0, "flip", bit));
            }
            out.push(v(pol, signer, c0, 0, &n0, "trunc", 1));
            out.push(v(pol, signer, c0, 0, &n0, "extend", 1));
            out.push(v(pol, signer, c0, 0, &n0, "null", 0));
            out.push(v(pol, signer, c0, 0, &n0, "zero", 0));
            for p2 in SIGNING {
                if p2 != pol {
                    out.push(v(p2, signer, c0, 0, &n0, "none", 0));
                }
            }
            // the x509 identity token wrapper
            out.push(format!("vx509 {} {} {} x{}", pol, signer, c0, nx));
            out.push(format!("vx509 {} {} {} x{}", pol, (signer + 1) % 4, c0, nx));
            out.push(format!("vx509 {} g {} x{}", pol, c0, nx));
            out.push(format!("vx509 {} - {} x{}", pol, c0, nx));
            // asymmetric_sign into a buffer of the wrong size
            out.push(format!("signbuf {} {} {}", pol, signer, ks));
            out.push(format!("reset {} {}", pol, signer));
            out.push(format!("signbuf {} {} {}", pol, signer, ks - 1));
            out.push(format!("reset {} {}", pol, signer));
            out.push(format!("signbuf {} {} {}", pol, signer, ks + 1));
            // by-design panic last
            out.push(format!("reset {} {}", pol, signer));
            out.push(format!("create {} x{}", c0, nx));
            out.push(v(if signer % 2 == 0 { "none" } else { "unknown" }, signer, c0, 0, &n0, "none", 0));
        }
    }
    for pol in ["none", "unknown", "basic256"] {
        for (c, n) in [("1", format!("x{}", nx)), ("-", format!("x{}", nx)), ("1", "-".to_string()), ("1", "x".to_string())] {
            out.push(format!("reset {} 1", pol));
            out.push(format!("create {} {}", c, n));
            out.push(format!("verify basic256 1 1 0 x{} none 0", if n == "x" { "".to_string() } else { nx.clone() }));
            out.push(format!("verify basic256 1 1 0 x{} zero 0", nx));
        }
    }
    out.push("reset none 0".to_string());
    out.push("signbuf none 0 128".to_string());
}

impl Prop for C17 {
    fn id(&self) -> &'static str {
        "C17"
    }

    fn gen(&self, rng: &mut Rng, n: usize, tier: Tier, out: &mut Vec<String>) {
        systematic(out);
        for _ in 0..n {
            let pol = if rng.chance(1, 25) { *rng.pick(&["none", "unknown"]) } else { *rng.pick(&SIGNING) };
            // the 4096-bit key is slow: rarer in the quick tier
            let signer = match rng.weighted(&if tier == Tier::Thorough { [3, 3, 3, 3] } else { [5, 4, 4, 1] }) {
                i => i,
            };
            out.push(format!("reset {} {}", pol, signer));
            let c0 = rng.below(4) as usize;
            let n0 = nonce(rng);
            match rng.weighted(&[30, 1, 1]) {
                0 => out.push(format!("create {} x{}", c0, hex(&n0))),
                1 => out.push(format!("create - x{}", hex(&n0))),
                _ => out.push(format!("create {} -", c0)),
            }
            let k = if SIGNING.contains(&pol) { rng.range(2, 7) } else { 1 };
            for _ in 0..k {
                let mut vpol = pol;
                let mut vsigner = signer;
                let mut vc = c0;
                let mut vm = 0usize;
                let mut vn = n0.clone();
                let mut kind = "none";
                let mut prm = 0u64;
                let ks = (POOL_BITS[signer] / 8) as u64;
                match rng.weighted(&[6, 4, 4, 3, 3, 2, 1]) {
                    0 => {}
                    1 => {
                        // nonce changed: one bit, truncated, extended, unrelated
                        match rng.below(4) {
                            0 if !vn.is_empty() => {
                                let i = rng.below(vn.len() as u64) as usize;
                                vn[i] ^= 1 << rng.below(8);
                            }
                            1 if !vn.is_empty() => {
                                vn.pop();
                            }
                            2 => vn.push(rng.next() as u8),
                            _ => vn = nonce(rng),
                        }
                        if vn == n0 {
                            vn.push(0);
                        }
                    }
                    2 => {
                        // any signature byte changed / length changed / nulled / zeroed
                        match rng.below(6) {
                            0 | 1 | 2 => {
                                kind = "flip";
                                prm = rng.below(8 * ks);
                            }
                            3 => {
                                kind = "trunc";
                                prm = rng.range(1, 8) as u64;
                            }
                            4 => {
                                kind = "extend";
                                prm = rng.range(1, 8) as u64;
                            }
                            _ => kind = *rng.pick(&["null", "zero"]),
                        }
                    }
                    3 => {
                        // certificate changed: another certificate, or one byte of it
                        if rng.chance(1, 2) {
                            vc = (c0 + 1 + rng.below(3) as usize) % 4;
                        } else {
                            vm = 1 + rng.below(64 * 255) as usize;
                        }
                    }
                    4 => vsigner = (signer + 1 + rng.below(3) as usize) % 4, // another signer
                    5 => vpol = *rng.pick(&SIGNING),                          // another policy name
                    _ => vpol = *rng.pick(&["none", "unknown"]),
                }
                out.push(format!("verify {} {} {} {} x{} {} {}", vpol, vsigner, vc, vm, hex(&vn), kind, prm));
                if !SIGNING.contains(&vpol) {
                    break; // the real code panics here by design: nothing after it would run
                }
            }
        }
    }

    fn runner(&self) -> Box<dyn Runner> {
        Box::new(R { pol: "none".to_string(), signer: 0, sd: None, made: None })
    }
}

struct R {
    pol: String,
    signer: usize,
    sd: Option<SignatureData>,
    /// (certificate index, nonce) the signature was made over, when one was made
    made: Option<(usize, Vec<u8>)>,
}

fn mut_sig(kind: &str, p: usize, s: &ByteString) -> Option<ByteString> {
    let Some(v) = s.value.as_ref() else { return Some(ByteString::null()) };
    let mut v = v.clone();
    match kind {
        "none" => {}
        "null" => return Some(ByteString::null()),
        "flip" => {
            let i = p % (8 * v.len());
            v[i / 8] ^= 1 << (p % 8);
        }
        "trunc" => v.truncate(v.len().saturating_sub(p)),
        "extend" => v.extend(vec![0u8; p]),
        "zero" => v.iter_mut().for_each(|b| *b = 0),
        _ => return None,
    }
    Some(ByteString { value: Some(v) })
}

impl Runner for R {
    fn step(&mut self, toks: &[&str]) -> (String, Verdict) {
        let bad = || ("bad-op".to_string(), Verdict::Ok);
        match toks {
            ["reset", p, k] => {
                let (Some(_), Ok(k)) = (policy(p), k.parse::<usize>()) else { return bad() };
                if k >= 4 {
                    return bad();
                }
                self.pol = p.to_string();
                self.signer = k;
                self.sd = None;
                self.made = None;
                ("ok".to_string(), Verdict::Ok)
            }
            ["create", c, n] => {
                let cert = if *c == "-" {
                    None
                } else {
                    match c.parse::<usize>() {
                        Ok(c) if c < 4 => Some(c),
                        _ => return bad(),
                    }
                };
                let nonce = if *n == "-" { None } else { unhex(n) };
                let cert_bs = cert.map(|c| ByteString { value: Some(cert_bytes(c, 0)) }).unwrap_or_else(ByteString::null);
                let nonce_bs = nonce.clone().map(|v| ByteString { value: Some(v) }).unwrap_or_else(ByteString::null);
                let pol = policy(&self.pol).unwrap();
                let key = &pool()[self.signer].pkey;
                match crypto::create_signature_data(key, pol, &cert_bs, &nonce_bs) {
                    Err(e) => (format!("err {}", e.name()), Verdict::fail("create", "create", "create_signature_data failed")),
                    Ok(sd) => {
                        let a = if sd.algorithm.is_null() { "-".to_string() } else { format!("s{}", hex(sd.algorithm.as_ref().as_bytes())) };
                        let l = sd.signature.value.as_ref().map(|v| v.len().to_string()).unwrap_or_else(|| "-".to_string());
                        let signing = SIGNING.contains(&self.pol.as_str());
                        let v = match (&cert, &nonce, signing) {
                            (Some(c), Some(n), true) => {
                                self.made = Some((*c, n.clone()));
                                if sd.signature.is_null() || sd.algorithm.is_null() {
                                    Verdict::fail("create", "create", "no signature for a signing policy")
                                } else {
                                    Verdict::Ok
                                }
                            }
                            _ => {
                                if sd.signature.is_null() {
                                    Verdict::Ok
                                } else {
                                    Verdict::fail("create", "create-null", "signature made from null input / non-signing policy")
                                }
                            }
                        };
                        self.sd = Some(sd);
                        (format!("ok alg={} siglen={}", a, l), v)
                    }
                }
            }
            ["verify", p, k, c, m, n, kind, prm] => {
                let (Some(pol), Ok(k), Ok(c), Ok(m), Some(n), Ok(prm)) =
                    (policy(p), k.parse::<usize>(), c.parse::<usize>(), m.parse::<usize>(), unhex(n), prm.parse::<usize>())
                else {
                    return bad();
                };
                if k >= 4 || c >= 4 {
                    return bad();
                }
                let sd0 = self.sd.clone().unwrap_or(SignatureData { algorithm: UAString::null(), signature: ByteString::null() });
                let Some(sig) = mut_sig(kind, prm, &sd0.signature) else { return bad() };
                let sig_changed = sig != sd0.signature;
                let sd = SignatureData { algorithm: sd0.algorithm.clone(), signature: sig };
                let contained = match X509::from_byte_string(&ByteString { value: Some(cert_bytes(c, m)) }) {
                    Ok(x) => x,
                    Err(_) => return ("err cert-does-not-parse".to_string(), Verdict::Ok),
                };
                let signing_cert = &pool()[k].cert;
                let st = crypto::verify_signature_data(&sd, pol, signing_cert, &contained, &n);
                let res = format!("ok {}", st.name());
                // the property, on the implementation's answer alone
                let v = match &self.made {
                    None => {
                        if st.is_good() {
                            Verdict::fail("soundness", "nothing-signed", "Good although nothing was signed")
                        } else {
                            Verdict::Ok
                        }
                    }
                    Some((c0, n0)) => {
                        let same_inputs = k == self.signer && c == *c0 && m == 0 && n == *n0 && !sig_changed;
                        let same_policy = *p == self.pol;
                        if same_inputs && same_policy {
                            if st.is_good() { Verdict::Ok } else { Verdict::fail("completeness", "same", format!("{}", st.name())) }
                        } else if !same_inputs {
                            if st.is_good() {
                                let class = if k != self.signer {
                                    "other-signer"
                                } else if c != *c0 || m != 0 {
                                    "cert-changed"
                                } else if n != *n0 {
                                    "nonce-changed"
                                } else {
                                    "signature-changed"
                                };
                                Verdict::fail("soundness", class, "Good although an input was changed")
                            } else {
                                Verdict::Ok
                            }
                        } else {
                            // same inputs under another policy NAME: Good only if it names the same algorithm
                            let same_alg = policy(&self.pol).unwrap().asymmetric_signature_algorithm() == pol.asymmetric_signature_algorithm();
                            if st.is_good() != same_alg {
                                Verdict::fail("policy_algorithm", "other-policy", format!("{} with same_alg={}", st.name(), same_alg))
                            } else {
                                Verdict::Ok
                            }
                        }
                    }
                };
                (res, v)
            }
            ["vx509", p, tk, c, n] => {
                let (Some(pol), Ok(c), Some(n)) = (policy(p), c.parse::<usize>(), unhex(n)) else { return bad() };
                if c >= 4 {
                    return bad();
                }
                let certificate_data = match *tk {
                    "g" => ByteString::from(vec![0x30u8, 0x03, 0x01, 0x02, 0x03]),
                    "-" => ByteString::null(),
                    k => match k.parse::<usize>() {
                        Ok(k) if k < 4 => pool()[k].cert.as_byte_string(),
                        _ => return bad(),
                    },
                };
                let token = opcua::types::service_types::X509IdentityToken { policy_id: UAString::from("x509"), certificate_data };
                let sd = self.sd.clone().unwrap_or(SignatureData { algorithm: UAString::null(), signature: ByteString::null() });
                let r = opcua::crypto::user_identity::verify_x509_identity_token(&token, &sd, pol, &pool()[c].cert, &n);
                let st = match r {
                    Ok(()) => opcua::types::StatusCode::Good,
                    Err(e) => e,
                };
                let expect_good = match (&self.made, tk.parse::<usize>()) {
                    (Some((c0, n0)), Ok(k)) => k == self.signer && c == *c0 && n == *n0 && *p == self.pol,
                    _ => false,
                };
                let v = if st.is_good() != expect_good && (expect_good || *p == self.pol) {
                    Verdict::fail(if expect_good { "completeness" } else { "soundness" }, "x509-token", format!("{}", st.name()))
                } else {
                    Verdict::Ok
                };
                (format!("ok {}", st.name()), v)
            }
            ["signbuf", p, k, len] => {
                let (Some(pol), Ok(k), Ok(len)) = (policy(p), k.parse::<usize>(), len.parse::<usize>()) else { return bad() };
                if k >= 4 {
                    return bad();
                }
                let mut buf = vec![0u8; len];
                match pol.asymmetric_sign(&pool()[k].pkey, b"", &mut buf) {
                    Ok(l) => (format!("ok {}", l), Verdict::Ok),
                    Err(e) => (format!("err {}", e.name()), Verdict::Ok),
                }
            }
            _ => bad(),
        }
    }

    /// `None`/`Unknown` are not signing policies: `verify_signature_data` reaches
    /// `panic!("Invalid policy")` for them (its callers exclude them); outside the property.
    fn on_panic(&self, toks: &[&str]) -> Verdict {
        match toks {
            ["verify" | "vx509" | "signbuf", "none" | "unknown", ..] => Verdict::Ok,
            // the caller of `asymmetric_sign` must supply exactly one key size (`copy_from_slice`)
            ["signbuf", ..] => Verdict::Ok,
            _ => Verdict::fail("no_panic", "-", "implementation panicked"),
        }
    }
}
