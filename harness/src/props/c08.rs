//! C08 — modified or foreign secured chunks are never accepted.
//!
//! Same ops as C09 (`reset …`, `recv <label> <bytes> <answers…>`).  Every case is a channel in Sign or
//! SignAndEncrypt mode with keys; the label says what the chunk is:
//!   `valid-…`  secured by the legitimate peer, untouched          → must be accepted
//!   `mut-…`    a valid chunk with a byte changed/removed/appended,
//!              or a chunk secured with other keys / certificates  → must be rejected
use super::c09::chan::*;
use super::c09::show_result;
use crate::common::*;
use opcua::core::comms::prelude::*;
use opcua::crypto::SecurityPolicy;
use opcua::types::MessageSecurityMode;

pub struct C08;
pub static P: C08 = C08;

fn cfg(rng: &mut Rng, tier: Tier) -> Cfg {
    let big = if tier == Tier::Thorough { 2 } else { 0 };
    Cfg {
        policy: *rng.pick(&POLICIES[1..]),
        mode: if rng.chance(1, 2) { MessageSecurityMode::Sign } else { MessageSecurityMode::SignAndEncrypt },
        has_cert: true,
        has_key: true,
        keys: true,
        client: rng.chance(1, 2),
        own: rng.weighted(&[4, 2, 2, 1, big]),
        peer: rng.weighted(&[4, 2, 2, 1, big]),
        seed: rng.below(1 << 32),
        init_policy: None,
        key_policy: None,
    }
}

fn fix(v: &mut Vec<u8>) {
    let n = v.len();
    set_size(v, n);
}

/// all mutants of one valid chunk; `stride` thins out the positions of long chunks
fn mutants(rng: &mut Rng, kind: &str, base: &[u8], stride: usize, dense: usize, out: &mut Vec<(String, Vec<u8>)>) {
    // single-bit flips: every position of the first `dense` bytes and of the last 64, every
    // `stride`-th position in between
    let n = base.len();
    for i in 0..n {
        if i < dense || i + 64 >= n || i % stride == 0 {
            let mut v = base.to_vec();
            v[i] ^= 1 << rng.below(8);
            out.push((format!("mut-{}-flip", kind), v));
        }
    }
    // truncations (size field fixed up, so that only the security checks can reject them)
    let mut k = 1;
    while k < n {
        let mut v = base[..n - k].to_vec();
        if v.len() >= 8 {
            fix(&mut v);
        }
        out.push((format!("mut-{}-trunc", kind), v));
        if rng.chance(1, 4) {
            out.push((format!("mut-{}-trunc-nofix", kind), base[..n - k].to_vec()));
        }
        k += if k < 40 || n - k < 40 { 1 } else { stride.max(1) };
    }
    // extensions
    for k in [1usize, 2, 15, 16, 17, 31, 32, 128, 256] {
        let mut v = base.to_vec();
        v.extend(rng.bytes(k));
        out.push((format!("mut-{}-ext-nofix", kind), v.clone()));
        fix(&mut v);
        out.push((format!("mut-{}-ext", kind), v));
    }
    // a whole 16-byte block / RSA block duplicated at the end
    if n >= 32 {
        let mut v = base.to_vec();
        v.extend_from_slice(&base[n - 16..]);
        fix(&mut v);
        out.push((format!("mut-{}-dup-block", kind), v));
    }
}

impl Prop for C08 {
    fn id(&self) -> &'static str {
        "C08"
    }

    fn gen(&self, rng: &mut Rng, n: usize, tier: Tier, out: &mut Vec<String>) {
        std::panic::set_hook(Box::new(|_| {}));
        for case in 0..n {
            let mut c = cfg(rng, tier);
            // round 3: one OPN case of every run uses the 4096-bit receiver key (two-byte padding length,
            // the other branch of verify_padding), with thinned-out mutants to stay fast
            let big_key_case = case == 2;
            if big_key_case {
                c.own = 4;
            }
            out.push(c.reset_line());
            let peer = c.peer_channel(c.policy, c.mode);
            let mut ops: Vec<(String, Vec<u8>)> = Vec::new();
            let stride = if tier == Tier::Thorough { 1 } else { 7 };
            // symmetric chunk (two of three cases) or OPN chunk
            if case % 3 != 2 {
                let mt = if rng.chance(1, 5) { MessageChunkType::CloseSecureChannel } else { MessageChunkType::Message };
                let len = rng.range(0, if tier == Tier::Thorough { 400 } else { 90 }) as usize;
                let body = rng.bytes(len);
                let seq = rng.below(100000) as u32 + 1;
                let fin = [MessageIsFinalType::Final, MessageIsFinalType::Intermediate, MessageIsFinalType::FinalError][case % 3];
                let Some(base) = secured_chunk_f(&peer, mt, fin, seq, seq ^ 5, &body) else { continue };
                ops.push(("valid-sym".into(), base.clone()));
                mutants(rng, "sym", &base, if tier == Tier::Thorough { 1 } else { 1 }, usize::MAX, &mut ops);
                // foreign keys: the same plain chunk secured under keys from other nonces
                for _ in 0..3 {
                    let mut other = c.clone();
                    other.seed = rng.below(1 << 32);
                    let p2 = other.peer_channel(c.policy, c.mode);
                    if let Some(v) = secured_chunk(&p2, mt, seq, seq ^ 5, &body) {
                        ops.push(("mut-sym-foreign-nonce".into(), v));
                    }
                }
                // secured under another policy's algorithms (same nonces where the length allows)
                let pol2 = *rng.pick(&POLICIES[1..]);
                if pol2 != c.policy {
                    let p2 = c.peer_channel(pol2, c.mode);
                    if let Some(v) = secured_chunk_f(&p2, mt, fin, seq, seq ^ 5, &body) {
                        // Basic256Sha256 and Aes256Sha256RsaPss share one symmetric suite (P_SHA256,
                        // HMAC-SHA256/32, AES-256): from the same nonces they derive the SAME keys, so a
                        // chunk secured under the one is a legitimate chunk of the other, not a mutant
                        // (in Sign mode Aes128Sha256RsaOaep joins them: same 32-byte HMAC-SHA256 key, and the
                        // AES key that differs is not used)
                        let sign_only = c.mode == MessageSecurityMode::Sign;
                        let same_suite = |a: SecurityPolicy, b: SecurityPolicy| {
                            let s = |p| {
                                matches!(p, SecurityPolicy::Basic256Sha256 | SecurityPolicy::Aes256Sha256RsaPss)
                                    || (sign_only && p == SecurityPolicy::Aes128Sha256RsaOaep)
                            };
                            s(a) && s(b)
                        };
                        let label = if same_suite(pol2, c.policy) { "valid-sym-same-suite" } else { "mut-sym-foreign-policy" };
                        ops.push((label.into(), v));
                    }
                }
                // not secured at all
                let p3 = c.peer_channel(c.policy, MessageSecurityMode::None);
                if let Some(v) = secured_chunk(&p3, mt, seq, seq ^ 5, &body) {
                    ops.push(("mut-sym-unsecured".into(), v));
                }
                // the other mode (signed only on an encrypting channel and vice versa)
                let m2 = if c.mode == MessageSecurityMode::Sign { MessageSecurityMode::SignAndEncrypt } else { MessageSecurityMode::Sign };
                let p4 = c.peer_channel(c.policy, m2);
                if let Some(v) = secured_chunk(&p4, mt, seq, seq ^ 5, &body) {
                    ops.push(("mut-sym-other-mode".into(), v));
                }
            } else {
                let blen = rng.range(0, 120) as usize;
                let body = rng.bytes(blen);
                let Some(base) = secured_chunk(&peer, MessageChunkType::OpenSecureChannel, 1, 1, &body) else { continue };
                ops.push(("valid-opn".into(), base.clone()));
                if big_key_case {
                    mutants(rng, "opn", &base, 97, 24, &mut ops);
                } else {
                    mutants(rng, "opn", &base, stride * 5, 90, &mut ops);
                }
                let signer = key(c.peer);
                let own = key(c.own);
                // whole RSA blocks removed from the end (the rest still decrypts): 1 block left, 1 block off
                let hdr_len = 12 + 4 + c.policy.to_uri().len() + 4 + signer.der.len() + 24;
                let blocks = (base.len() - hdr_len) / own.size;
                for keep in [1usize, blocks.saturating_sub(1)] {
                    if keep >= 1 && keep < blocks {
                        let mut v = base[..hdr_len + keep * own.size].to_vec();
                        fix(&mut v);
                        ops.push(("mut-opn-trunc-blocks".into(), v));
                    }
                }
                let (_, _, overhead) = rsa_padding(c.policy);
                let mut plain = rng.bytes(8);
                plain.extend_from_slice(&body);
                plain.extend(good_padding(signer.size, own.size, own.size - overhead, body.len()));
                let uri = c.policy.to_uri().as_bytes().to_vec();
                // assembled by hand exactly like the sender: must be accepted too
                ops.push((
                    "valid-opn-crafted".into(),
                    craft_opn(c.policy, signer, own, Some(&uri), Some(&signer.der), Some(&own.thumb), &plain, true),
                ));
                // signed with another key than the certificate says
                let other = key((c.peer + 1) % 4);
                ops.push((
                    "mut-opn-foreign-signer".into(),
                    craft_opn(c.policy, other, own, Some(&uri), Some(&signer.der), Some(&own.thumb), &plain, true),
                ));
                // signature damaged before encryption
                ops.push((
                    "mut-opn-badsig".into(),
                    craft_opn(c.policy, signer, own, Some(&uri), Some(&signer.der), Some(&own.thumb), &plain, false),
                ));
                // encrypted for another certificate (thumbprint right or that of the other certificate)
                let other_enc = key((c.own + 2) % 4);
                ops.push((
                    "mut-opn-foreign-enc".into(),
                    craft_opn(c.policy, signer, other_enc, Some(&uri), Some(&signer.der), Some(&own.thumb), &plain, true),
                ));
                ops.push((
                    "mut-opn-foreign-enc-thumb".into(),
                    craft_opn(c.policy, signer, other_enc, Some(&uri), Some(&signer.der), Some(&other_enc.thumb), &plain, true),
                ));
                // secured under another policy than the channel's
                let pol2 = *rng.pick(&POLICIES[1..]);
                if pol2 != c.policy {
                    let p2 = c.peer_channel(pol2, MessageSecurityMode::SignAndEncrypt);
                    if let Some(v) = secured_chunk(&p2, MessageChunkType::OpenSecureChannel, 1, 1, &body) {
                        ops.push(("mut-opn-other-policy".into(), v));
                    }
                }
                // not secured at all: an OPN chunk that names policy None
                let p3 = c.peer_channel(SecurityPolicy::None, MessageSecurityMode::None);
                if let Some(v) = secured_chunk(&p3, MessageChunkType::OpenSecureChannel, 1, 1, &body) {
                    ops.push(("mut-opn-policy-none".into(), v));
                }
            }
            for (label, bytes) in &ops {
                out.push(recv_line(&c, label, bytes));
            }
            // renewal: after new nonces + derive_keys the chunks secured under the OLD keys are foreign,
            // chunks under the new keys are accepted
            if case % 3 != 2 {
                let old_valid = ops[0].1.clone();
                let mut c2 = c.clone();
                c2.init_policy = Some(c.policy);
                c2.seed = rng.below(1 << 32);
                out.push(format!("rekey {}", c2.seed));
                out.push(recv_line(&c2, "mut-sym-old-keys", &old_valid));
                let p2 = c2.peer_channel(c2.policy, c2.mode);
                if let Some(v) = secured_chunk(&p2, MessageChunkType::Message, 77, 78, b"after renewal") {
                    out.push(recv_line(&c2, "valid-sym-new-keys", &v));
                }
            }
        }
    }

    fn runner(&self) -> Box<dyn Runner> {
        Box::new(R { me: None, cfg: None })
    }
}

struct R {
    me: Option<SecureChannel>,
    cfg: Option<Cfg>,
}

impl Runner for R {
    fn step(&mut self, toks: &[&str]) -> (String, Verdict) {
        match toks {
            ["reset", ..] => match Cfg::parse(toks) {
                Some(cfg) => {
                    let me = cfg.me();
                    let s = format!("ok p={}", policy_name(me.security_policy()));
                    self.me = Some(me);
                    self.cfg = Some(cfg);
                    (s, Verdict::Ok)
                }
                None => ("bad-op".to_string(), Verdict::Ok),
            },
            ["rekey", seed] => match (self.me.as_mut(), self.cfg.as_mut(), seed.parse::<u64>()) {
                (Some(me), Some(cfg), Ok(seed)) if me.security_policy() != SecurityPolicy::None => {
                    // renewal: new nonces on both sides, keys derived again
                    cfg.init_policy = Some(cfg.init_policy.unwrap_or(cfg.policy));
                    cfg.seed = seed;
                    let (mine, theirs) = cfg.nonces();
                    me.set_local_nonce(&mine);
                    me.set_remote_nonce(&theirs);
                    me.derive_keys();
                    (format!("ok p={}", policy_name(me.security_policy())), Verdict::Ok)
                }
                _ => ("bad-op".to_string(), Verdict::Ok),
            },
            ["recv", label, src, ..] if toks.len() == 9 => {
                let (Some(me), Some(src)) = (self.me.as_mut(), unhex(src)) else {
                    return ("bad-op".to_string(), Verdict::Ok);
                };
                let secured = me.security_policy() != SecurityPolicy::None
                    && matches!(me.security_mode(), MessageSecurityMode::Sign | MessageSecurityMode::SignAndEncrypt);
                let r = me.verify_and_remove_security(&src);
                // the property, on the implementation's result alone
                let v = if !secured {
                    Verdict::Ok
                } else if label.starts_with("mut-") && r.is_ok() {
                    Verdict::fail("mutant_rejected", label, "a modified / foreign chunk was returned as a chunk")
                } else if label.starts_with("valid-") && r.is_err() {
                    Verdict::fail("valid_accepted", label, format!("an untouched chunk was rejected: {:?}", r.as_ref().err()))
                } else {
                    Verdict::Ok
                };
                (show_result(me, &r), v)
            }
            _ => ("bad-op".to_string(), Verdict::Ok),
        }
    }

    fn on_panic(&self, toks: &[&str]) -> Verdict {
        Verdict::fail("no_panic", toks.get(1).copied().unwrap_or("-"), "the receive path panicked")
    }
}
