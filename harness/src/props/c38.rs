//! C38 — server locks are always taken in one global order.
//!
//! A real server (listener, connection reader/writer tasks, subscription timers) runs in this
//! process on a loopback socket and real client sessions drive it.  With `--cfg locka99_opcua_verif`
//! the three `trace_*lock!` macros record every (held class -> acquired class) nesting
//! (`opcua::verif_locktrace`).  `gen` executes the canonical workload once and emits the observed
//! nestings as `edge` ops; the Lean side answers them from the regenerated, kernel-checked rank
//! table (`Generated/LockEdges.lean`), this side from the graph it observes itself.
use crate::common::*;
use crate::fixtures;
use opcua::client::{ClientBuilder, DataChangeCallback, IdentityToken, Session};
use opcua::server::prelude::*;
use opcua::sync::RwLock;
use opcua::verif_locktrace as lt;
use std::collections::{BTreeMap, BTreeSet};
use std::sync::{Arc, Mutex, OnceLock};
use std::time::Duration;

pub struct C38;
pub static P: C38 = C38;

/// scenario kinds of the workload
const KINDS: &[&str] = &[
    "attr", "view", "subs", "nodes", "method", "two", "drop", "history", "items", "discovery", "transfer", "races", "close-race",
    "reconnect", "restart",
];

struct Running {
    server: Arc<RwLock<Server>>,
    port: u16,
    task: tokio::task::JoinHandle<()>,
}

struct World {
    server_rt: tokio::runtime::Runtime,
    client_rt: tokio::runtime::Runtime,
    running: Mutex<Option<Running>>,
}

fn world() -> &'static World {
    static W: OnceLock<World> = OnceLock::new();
    W.get_or_init(|| World {
        server_rt: tokio::runtime::Builder::new_multi_thread().worker_threads(3).enable_all().build().unwrap(),
        client_rt: tokio::runtime::Builder::new_multi_thread().worker_threads(2).enable_all().build().unwrap(),
        running: Mutex::new(None),
    })
}

/// scratch directory that survives the process (key pairs are expensive to generate)
fn stable_dir(name: &str) -> std::path::PathBuf {
    let p = fixtures::scratch_dir().parent().map(|p| p.to_path_buf()).unwrap_or_else(fixtures::scratch_dir).join(name);
    let _ = std::fs::create_dir_all(&p);
    p
}

fn free_port() -> u16 {
    let l = std::net::TcpListener::bind("127.0.0.1:0").expect("bind");
    l.local_addr().unwrap().port()
}

fn start_server(w: &World) -> Running {
    start_server_on(w, free_port())
}

fn start_server_on(w: &World, port: u16) -> Running {
    // a stable directory: the server's sample key pair is generated once, not at every start
    let pki = stable_dir("c38-server-pki");
    let server = ServerBuilder::new_sample()
        .application_name("verif")
        .host_and_port("127.0.0.1", port)
        .discovery_urls(vec![format!("opc.tcp://127.0.0.1:{}/", port)])
        .pki_dir(pki)
        .create_sample_keypair(true)
        .trust_client_certs()
        .clients_can_modify_address_space()
        .server()
        .expect("server");
    {
        // a few variables the clients read, write and monitor
        let address_space = server.address_space();
        let mut address_space = address_space.write();
        let ns = address_space.register_namespace("urn:verif-c38").unwrap();
        let folder = address_space.add_folder("Verif", "Verif", &NodeId::objects_folder_id()).unwrap();
        let vars: Vec<Variable> = (0..4)
            .map(|i| {
                let mut v = Variable::new(&NodeId::new(ns, format!("v{}", i)), format!("v{}", i), format!("v{}", i), 0i32);
                v.set_writable(true);
                v
            })
            .collect();
        let _ = address_space.add_variables(vars, &folder);
    }
    let mut server = server;
    // a polling action, as applications register them (server/util PollingAction)
    server.add_polling_action(40, || {});
    let server = Arc::new(RwLock::new(server));
    let task = w.server_rt.spawn(Server::new_server_task(server.clone()));
    // wait until it listens
    for _ in 0..200 {
        if std::net::TcpStream::connect(("127.0.0.1", port)).is_ok() {
            break;
        }
        std::thread::sleep(Duration::from_millis(25));
    }
    Running { server, port, task }
}

fn ensure_server() -> u16 {
    let w = world();
    let mut r = w.running.lock().unwrap();
    if r.is_none() {
        *r = Some(start_server(w));
    }
    r.as_ref().unwrap().port
}

fn restart_server() -> bool {
    let w = world();
    let mut r = w.running.lock().unwrap();
    if let Some(run) = r.take() {
        run.server.write().abort();
        // the server task ends once it has noticed the abort flag
        let ended = w.client_rt.block_on(async { tokio::time::timeout(Duration::from_secs(20), run.task).await.is_ok() });
        if !ended {
            return false;
        }
    }
    *r = Some(start_server(w));
    true
}

async fn connect(port: u16, name: &str) -> Result<(Arc<Session>, tokio::task::JoinHandle<StatusCode>), String> {
    let pki = fixtures::scratch_dir().join(format!("c38-client-pki-{}", name));
    let mut client = ClientBuilder::new()
        .application_name(name)
        .application_uri(format!("urn:{}", name))
        .pki_dir(pki)
        .create_sample_keypair(false)
        .trust_server_certs(true)
        .session_retry_limit(0)
        .client()
        .ok_or("client")?;
    let url = format!("opc.tcp://127.0.0.1:{}/", port);
    let endpoint: EndpointDescription = (url.as_str(), "None", MessageSecurityMode::None, UserTokenPolicy::anonymous()).into();
    let (session, event_loop) = client
        .new_session_from_info((endpoint, IdentityToken::Anonymous))
        .map_err(|e| format!("session: {}", e))?;
    let handle = event_loop.spawn();
    match tokio::time::timeout(Duration::from_secs(15), session.wait_for_connection()).await {
        Ok(true) => Ok((session, handle)),
        _ => {
            handle.abort();
            Err("no connection".to_string())
        }
    }
}

/// waits briefly for a session event loop to end after `disconnect`, then stops it
async fn finish(mut h: tokio::task::JoinHandle<StatusCode>) {
    if tokio::time::timeout(Duration::from_millis(400), &mut h).await.is_err() {
        h.abort();
    }
}

fn var(i: u32) -> NodeId {
    NodeId::new(2, format!("v{}", i))
}

async fn attr_ops(s: &Session) -> Result<(), StatusCode> {
    let read: Vec<ReadValueId> = vec![
        NodeId::from(&VariableId::Server_ServerStatus_State).into(),
        var(0).into(),
        NodeId::new(7, "nope").into(),
    ];
    s.read(&read, TimestampsToReturn::Both, 0.0).await?;
    let w = WriteValue {
        node_id: var(1),
        attribute_id: AttributeId::Value as u32,
        index_range: UAString::null(),
        value: DataValue::value_only(Variant::Int32(7)),
    };
    s.write(&[w]).await?;
    Ok(())
}

async fn view_ops(s: &Session) -> Result<(), StatusCode> {
    let b = BrowseDescription {
        node_id: ObjectId::ObjectsFolder.into(),
        browse_direction: BrowseDirection::Forward,
        reference_type_id: ReferenceTypeId::HierarchicalReferences.into(),
        include_subtypes: true,
        node_class_mask: 0,
        result_mask: 0x3f,
    };
    let r = s.browse(&[b]).await?;
    if let Some(r) = r {
        for x in r {
            if !x.continuation_point.is_null() {
                let _ = s.browse_next(true, &[x.continuation_point]).await;
            }
        }
    }
    let path = BrowsePath {
        starting_node: ObjectId::ObjectsFolder.into(),
        relative_path: RelativePath {
            elements: Some(vec![RelativePathElement {
                reference_type_id: ReferenceTypeId::HierarchicalReferences.into(),
                is_inverse: false,
                include_subtypes: true,
                target_name: QualifiedName::new(0, "Server"),
            }]),
        },
    };
    s.translate_browse_paths_to_node_ids(&[path]).await?;
    // the client asks for 1000 references per node, so a real continuation point never occurs: BrowseNext
    // with a stale one still goes through the service's locking
    let _ = s.browse_next(true, &[ByteString::from(vec![1u8, 2, 3, 4])]).await;
    let nodes = s.register_nodes(&[var(0), var(1)]).await?;
    let _ = s.unregister_nodes(&nodes).await;
    Ok(())
}

async fn subs_ops(s: &Session) -> Result<(), StatusCode> {
    let sub = s
        .create_subscription(Duration::from_millis(50), 30, 5, 0, 0, true, DataChangeCallback::new(|_, _| {}))
        .await?;
    let items: Vec<MonitoredItemCreateRequest> = vec![
        var(0).into(),
        var(1).into(),
        NodeId::from(&VariableId::Server_ServerStatus_CurrentTime).into(),
    ];
    let created = s.create_monitored_items(sub, TimestampsToReturn::Both, items).await?;
    // let the subscription timer tick, publish requests flow and values change
    for i in 0..4 {
        let w = WriteValue {
            node_id: var(0),
            attribute_id: AttributeId::Value as u32,
            index_range: UAString::null(),
            value: DataValue::value_only(Variant::Int32(100 + i)),
        };
        let _ = s.write(&[w]).await;
        tokio::time::sleep(Duration::from_millis(120)).await;
    }
    let _ = s.modify_subscription(sub, 80.0, 30, 5, 0, 0).await;
    let _ = s.set_publishing_mode(&[sub], false).await;
    let _ = s.set_publishing_mode(&[sub], true).await;
    let ids: Vec<u32> = created.iter().map(|c| c.monitored_item_id).collect();
    if let Some(first) = ids.first() {
        let _ = s.delete_monitored_items(sub, &[*first]).await;
    }
    tokio::time::sleep(Duration::from_millis(120)).await;
    s.delete_subscription(sub).await?;
    Ok(())
}

async fn nodes_ops(s: &Session, tag: u32) -> Result<(), StatusCode> {
    let id = NodeId::new(2, format!("added-{}", tag));
    let item = AddNodesItem {
        parent_node_id: ObjectId::ObjectsFolder.into(),
        reference_type_id: ReferenceTypeId::Organizes.into(),
        requested_new_node_id: id.clone().into(),
        browse_name: QualifiedName::new(0, format!("added{}", tag)),
        node_class: NodeClass::Object,
        node_attributes: ExtensionObject::from_encodable(
            ObjectId::ObjectAttributes_Encoding_DefaultBinary,
            &ObjectAttributes {
                specified_attributes: (AttributesMask::DISPLAY_NAME | AttributesMask::DESCRIPTION | AttributesMask::WRITE_MASK
                    | AttributesMask::USER_WRITE_MASK | AttributesMask::EVENT_NOTIFIER)
                    .bits(),
                display_name: LocalizedText::from("added"),
                description: LocalizedText::from("added"),
                write_mask: 0,
                user_write_mask: 0,
                event_notifier: 0,
            },
        ),
        type_definition: ObjectTypeId::BaseObjectType.into(),
    };
    let _ = s.add_nodes(&[item]).await?;
    let r = AddReferencesItem {
        source_node_id: id.clone(),
        reference_type_id: ReferenceTypeId::Organizes.into(),
        is_forward: true,
        target_server_uri: UAString::null(),
        target_node_id: var(2).into(),
        target_node_class: NodeClass::Variable,
    };
    let _ = s.add_references(&[r]).await;
    let _ = s
        .delete_nodes(&[DeleteNodesItem {
            node_id: id,
            delete_target_references: true,
        }])
        .await;
    Ok(())
}

async fn method_ops(s: &Session) -> Result<(), StatusCode> {
    let sub = s
        .create_subscription(Duration::from_millis(100), 30, 5, 0, 0, true, DataChangeCallback::new(|_, _| {}))
        .await?;
    let _ = s.call_get_monitored_items(sub).await;
    let _ = s.delete_subscription(sub).await;
    Ok(())
}

async fn history_ops(s: &Session) -> Result<(), StatusCode> {
    use opcua::verif_hooks::client::{HistoryReadAction, HistoryUpdateAction};
    let details = ReadRawModifiedDetails {
        is_read_modified: false,
        start_time: DateTime::now(),
        end_time: DateTime::now(),
        num_values_per_node: 10,
        return_bounds: false,
    };
    let nodes = vec![HistoryReadValueId {
        node_id: var(0),
        index_range: UAString::null(),
        data_encoding: QualifiedName::null(),
        continuation_point: ByteString::null(),
    }];
    let _ = s
        .history_read(HistoryReadAction::ReadRawModifiedDetails(details), TimestampsToReturn::Both, false, &nodes)
        .await;
    let upd = UpdateDataDetails {
        node_id: var(0),
        perform_insert_replace: PerformUpdateType::Insert,
        update_values: Some(vec![DataValue::value_only(Variant::Int32(1))]),
    };
    let _ = s.history_update(&[HistoryUpdateAction::UpdateDataDetails(upd)]).await;
    let _ = s.cancel(1).await;
    Ok(())
}

/// ModifyMonitoredItems, SetMonitoringMode, SetTriggering, Republish-free parts of the MonitoredItem service set,
/// the ResendData method, DeleteReferences
async fn items_ops(s: &Session) -> Result<(), StatusCode> {
    let sub = s
        .create_subscription(Duration::from_millis(50), 30, 5, 0, 0, true, DataChangeCallback::new(|_, _| {}))
        .await?;
    let created = s
        .create_monitored_items(sub, TimestampsToReturn::Both, vec![var(0).into(), var(1).into(), var(2).into()])
        .await?;
    let ids: Vec<u32> = created.iter().map(|c| c.monitored_item_id).collect();
    if ids.len() == 3 {
        let m = MonitoredItemModifyRequest {
            monitored_item_id: ids[0],
            requested_parameters: MonitoringParameters {
                client_handle: 1,
                sampling_interval: 20.0,
                filter: ExtensionObject::null(),
                queue_size: 3,
                discard_oldest: false,
            },
        };
        let _ = s.modify_monitored_items(sub, TimestampsToReturn::Both, &[m]).await;
        let _ = s.set_monitoring_mode(sub, MonitoringMode::Sampling, &ids[1..]).await;
        let _ = s.set_triggering(sub, ids[0], &ids[1..], &[]).await;
        let _ = s.set_triggering(sub, ids[0], &[], &ids[1..2]).await;
        let _ = s.set_monitoring_mode(sub, MonitoringMode::Disabled, &ids[2..]).await;
        let _ = s.set_monitoring_mode(sub, MonitoringMode::Reporting, &ids).await;
    }
    let w = WriteValue {
        node_id: var(0),
        attribute_id: AttributeId::Value as u32,
        index_range: UAString::null(),
        value: DataValue::value_only(Variant::Int32(55)),
    };
    let _ = s.write(&[w]).await;
    tokio::time::sleep(Duration::from_millis(120)).await;
    // Server.ResendData(subscriptionId) and GetMonitoredItems for a subscription that does not exist
    let resend = CallMethodRequest {
        object_id: ObjectId::Server.into(),
        method_id: MethodId::Server_ResendData.into(),
        input_arguments: Some(vec![Variant::UInt32(sub)]),
    };
    let _ = s.call(resend).await;
    let _ = s.call_get_monitored_items(sub + 1000).await;
    let _ = s
        .delete_references(&[DeleteReferencesItem {
            source_node_id: ObjectId::ObjectsFolder.into(),
            reference_type_id: ReferenceTypeId::Organizes.into(),
            is_forward: true,
            target_node_id: var(3).into(),
            delete_bidirectional: true,
        }])
        .await;
    let _ = s.delete_subscription(sub).await;
    Ok(())
}

/// the discovery service set through the client's own short-lived connections
async fn discovery_ops(port: u16) -> bool {
    let pki = stable_dir("c38-client-pki-disc");
    let Some(mut client) = ClientBuilder::new()
        .application_name("disc")
        .application_uri("urn:disc")
        .pki_dir(pki)
        // register_server picks the most secure endpoint: without an own certificate the client panics
        // (secure_channel.rs make_security_header unwrap) — not this property's subject
        .create_sample_keypair(true)
        .trust_server_certs(true)
        .session_retry_limit(0)
        .client()
    else {
        return false;
    };
    let url = format!("opc.tcp://127.0.0.1:{}/", port);
    // a session over a signed and encrypted channel: CreateSession validates the client certificate
    let endpoint: EndpointDescription =
        (url.as_str(), "Basic256Sha256", MessageSecurityMode::SignAndEncrypt, UserTokenPolicy::anonymous()).into();
    if let Ok((session, event_loop)) = client.new_session_from_info((endpoint, IdentityToken::Anonymous)) {
        let handle = event_loop.spawn();
        if matches!(tokio::time::timeout(Duration::from_secs(10), session.wait_for_connection()).await, Ok(true)) {
            let _ = attr_ops(&session).await;
            let _ = session.disconnect().await;
        }
        finish(handle).await;
    }
    let a = client.get_server_endpoints_from_url(url.clone()).await.is_ok();
    let b = client.find_servers(url.clone()).await.is_ok();
    let _ = client
        .register_server(
            url,
            RegisteredServer {
                server_uri: UAString::from("urn:other"),
                product_uri: UAString::from("urn:other"),
                server_names: Some(vec![LocalizedText::from("other")]),
                server_type: ApplicationType::Server,
                gateway_server_uri: UAString::null(),
                discovery_urls: Some(vec![UAString::from("opc.tcp://127.0.0.1:1/")]),
                semaphore_file_path: UAString::null(),
                is_online: true,
            },
        )
        .await;
    a && b
}

/// TransferSubscriptions: a second session asks for the first one's subscription while it is publishing
async fn transfer_ops(port: u16, s: &Session) -> Result<(), StatusCode> {
    let sub = s
        .create_subscription(Duration::from_millis(50), 30, 5, 0, 0, true, DataChangeCallback::new(|_, _| {}))
        .await?;
    let _ = s.create_monitored_items(sub, TimestampsToReturn::Both, vec![var(0).into()]).await;
    if let Ok((s2, h2)) = connect(port, "second").await {
        let _ = s2.transfer_subscriptions(&[sub, sub + 77], true).await;
        let _ = s2.transfer_subscriptions(&[sub], false).await;
        let _ = s2.disconnect().await;
        finish(h2).await;
    }
    tokio::time::sleep(Duration::from_millis(100)).await;
    let _ = s.delete_subscriptions(&[sub]).await;
    Ok(())
}

/// ModifySubscription / SetPublishingMode / monitored item changes racing with publishing and with another connection
async fn races_ops(port: u16, s: &Session) -> Result<(), StatusCode> {
    let sub = s
        .create_subscription(Duration::from_millis(40), 30, 5, 0, 0, true, DataChangeCallback::new(|_, _| {}))
        .await?;
    let created = s
        .create_monitored_items(sub, TimestampsToReturn::Both, vec![var(0).into(), var(1).into()])
        .await?;
    let ids: Vec<u32> = created.iter().map(|c| c.monitored_item_id).collect();
    let other = connect(port, "second").await;
    let writer = async {
        if let Ok((s2, _)) = &other {
            for i in 0..10 {
                let w = WriteValue {
                    node_id: var((i % 2) as u32),
                    attribute_id: AttributeId::Value as u32,
                    index_range: UAString::null(),
                    value: DataValue::value_only(Variant::Int32(1000 + i)),
                };
                let _ = s2.write(&[w]).await;
                let _ = attr_ops(s2).await;
                let _ = s2.call_get_monitored_items(sub).await;
                tokio::time::sleep(Duration::from_millis(15)).await;
            }
        }
    };
    let modifier = async {
        for i in 0..6u32 {
            let _ = s.modify_subscription(sub, 30.0 + i as f64 * 10.0, 30, 5, 0, (i % 3) as u8).await;
            let _ = s.set_publishing_mode(&[sub], i % 2 == 0).await;
            if let Some(id) = ids.first() {
                let _ = s.set_monitoring_mode(sub, if i % 2 == 0 { MonitoringMode::Sampling } else { MonitoringMode::Reporting }, &[*id]).await;
            }
            tokio::time::sleep(Duration::from_millis(20)).await;
        }
        let _ = s.set_publishing_mode(&[sub], true).await;
    };
    tokio::join!(writer, modifier);
    if let Ok((s2, h2)) = other {
        let _ = s2.disconnect().await;
        finish(h2).await;
    }
    let _ = s.delete_subscription(sub).await;
    Ok(())
}

/// CloseSession of one connection while another one is in the middle of service calls and publishing
async fn close_race_ops(port: u16, s: &Session) -> Result<(), StatusCode> {
    let sub = s
        .create_subscription(Duration::from_millis(40), 30, 5, 0, 0, true, DataChangeCallback::new(|_, _| {}))
        .await?;
    let _ = s.create_monitored_items(sub, TimestampsToReturn::Both, vec![var(1).into()]).await;
    let mut others = Vec::new();
    for n in ["second", "third"] {
        if let Ok(x) = connect(port, n).await {
            let _ = x
                .0
                .create_subscription(Duration::from_millis(40), 30, 5, 0, 0, true, DataChangeCallback::new(|_, _| {}))
                .await;
            others.push(x);
        }
    }
    let busy = async {
        for _ in 0..4 {
            let _ = view_ops(s).await;
            let _ = attr_ops(s).await;
        }
    };
    let closing = async {
        for (s2, h2) in others {
            tokio::time::sleep(Duration::from_millis(25)).await;
            // CloseSession with live subscriptions, then CloseSecureChannel
            let _ = s2.disconnect().await;
            finish(h2).await;
        }
    };
    tokio::join!(busy, closing);
    let _ = s.delete_subscription(sub).await;
    Ok(())
}

/// the server goes away and comes back on the same port while a client with a retry policy holds a session with
/// a subscription: the client re-opens a channel, tries ActivateSession for its old session on the new channel,
/// falls back to CreateSession, TransferSubscriptions and re-creating its subscriptions
fn reconnect_scenario(tag: u32) -> bool {
    let port = ensure_server();
    let w = world();
    let connected = w.client_rt.block_on(async move {
        let pki = fixtures::scratch_dir().join("c38-client-pki-re");
        let mut client = ClientBuilder::new()
            .application_name("re")
            .application_uri("urn:re")
            .pki_dir(pki)
            .create_sample_keypair(false)
            .trust_server_certs(true)
            .session_retry_limit(20)
            .session_retry_initial(Duration::from_millis(50))
            .session_retry_max(Duration::from_millis(200))
            .client()?;
        let url = format!("opc.tcp://127.0.0.1:{}/", port);
        let endpoint: EndpointDescription = (url.as_str(), "None", MessageSecurityMode::None, UserTokenPolicy::anonymous()).into();
        let (session, event_loop) = client.new_session_from_info((endpoint, IdentityToken::Anonymous)).ok()?;
        let handle = event_loop.spawn();
        if !matches!(tokio::time::timeout(Duration::from_secs(15), session.wait_for_connection()).await, Ok(true)) {
            handle.abort();
            return None;
        }
        let sub = session
            .create_subscription(Duration::from_millis(50), 30, 5, 0, 0, true, DataChangeCallback::new(|_, _| {}))
            .await
            .ok()?;
        let _ = session.create_monitored_items(sub, TimestampsToReturn::Both, vec![var(0).into()]).await;
        Some((session, handle))
    });
    let Some((session, handle)) = connected else {
        return false;
    };
    let _ = tag;
    // same port, new server
    let restarted = {
        let mut r = w.running.lock().unwrap();
        let mut ok = true;
        if let Some(run) = r.take() {
            run.server.write().abort();
            ok = w.client_rt.block_on(async { tokio::time::timeout(Duration::from_secs(20), run.task).await.is_ok() });
        }
        *r = Some(start_server_on(w, port));
        ok
    };
    let back = w.client_rt.block_on(async move {
        // the session event loop reconnects on its own
        let mut ok = false;
        for _ in 0..100 {
            tokio::time::sleep(Duration::from_millis(100)).await;
            if attr_ops(&session).await.is_ok() {
                ok = true;
                break;
            }
        }
        tokio::time::sleep(Duration::from_millis(200)).await;
        let _ = session.disconnect().await;
        finish(handle).await;
        ok
    });
    restarted && back
}

/// one scenario; returns whether it ran to its end
fn run_scenario(kind: &str, tag: u32) -> bool {
    if kind == "restart" {
        return restart_server();
    }
    if kind == "reconnect" {
        return reconnect_scenario(tag);
    }
    let port = ensure_server();
    let w = world();
    let kind = kind.to_string();
    w.client_rt.block_on(async move {
        let body = async {
            let (s, handle) = match connect(port, &format!("c{}", tag % 3)).await {
                Ok(x) => x,
                Err(_) => return false,
            };
            let ok = match kind.as_str() {
                "attr" => attr_ops(&s).await.is_ok(),
                "view" => view_ops(&s).await.is_ok(),
                "subs" => subs_ops(&s).await.is_ok(),
                "nodes" => {
                    let r = nodes_ops(&s, tag).await;
                    if let Err(e) = &r {
                        eprintln!("C38 workload: nodes: {}", e);
                    }
                    r.is_ok()
                }
                "method" => method_ops(&s).await.is_ok(),
                "history" => history_ops(&s).await.is_ok(),
                "items" => items_ops(&s).await.is_ok(),
                "discovery" => discovery_ops(port).await,
                "transfer" => transfer_ops(port, &s).await.is_ok(),
                "races" => races_ops(port, &s).await.is_ok(),
                "close-race" => close_race_ops(port, &s).await.is_ok(),
                "two" => {
                    // a second connection working at the same time
                    match connect(port, "second").await {
                        Ok((s2, h2)) => {
                            let (a, b) = tokio::join!(subs_ops(&s), async {
                                let r1 = attr_ops(&s2).await;
                                let r2 = view_ops(&s2).await;
                                let r3 = subs_ops(&s2).await;
                                r1.and(r2).and(r3)
                            });
                            let _ = s2.disconnect().await;
                            finish(h2).await;
                            a.is_ok() && b.is_ok()
                        }
                        Err(_) => false,
                    }
                }
                "drop" => {
                    // the connection goes away with a live subscription: server-side teardown
                    let r = s
                        .create_subscription(Duration::from_millis(50), 30, 5, 0, 0, true, DataChangeCallback::new(|_, _| {}))
                        .await;
                    let _ = s.create_monitored_items(r.unwrap_or(0), TimestampsToReturn::Both, vec![var(3).into()]).await;
                    tokio::time::sleep(Duration::from_millis(150)).await;
                    handle.abort();
                    drop(s);
                    tokio::time::sleep(Duration::from_millis(300)).await;
                    return r.is_ok();
                }
                _ => false,
            };
            let _ = s.disconnect().await;
            finish(handle).await;
            // give the server's connection tasks time to wind down
            tokio::time::sleep(Duration::from_millis(150)).await;
            ok
        };
        tokio::time::timeout(Duration::from_secs(40), body).await.unwrap_or(false)
    })
}

fn hexs(s: &str) -> String {
    format!("s{}", hex(s.as_bytes()))
}

fn unhexs(s: &str) -> String {
    String::from_utf8(unhex(s.strip_prefix('s').unwrap_or(s)).unwrap_or_default()).unwrap_or_default()
}

/// the observed nesting graph (different lock objects or different classes; re-entrant read of the
/// same object is reported separately)
/// what the canonical workload showed when the translator ran it with this very binary a moment ago
/// (`# edge …` lines of `harness gen C38 1 0 quick`, saved by tools/translate/lockedges.py)
fn recorded_edges() -> &'static Vec<(String, String)> {
    static E: OnceLock<Vec<(String, String)>> = OnceLock::new();
    E.get_or_init(|| {
        let path = format!("{}/target/c38-observed.txt", env!("CARGO_MANIFEST_DIR"));
        let mut v = Vec::new();
        if let Ok(txt) = std::fs::read_to_string(path) {
            for l in txt.lines() {
                if let Some(rest) = l.strip_prefix("# edge ") {
                    if let Some((h, tail)) = rest.split_once(" -> ") {
                        if let Some((a, _)) = tail.split_once(" same_instance=") {
                            v.push((h.to_string(), a.to_string()));
                        }
                    }
                }
            }
        }
        v
    })
}

fn graph() -> BTreeMap<String, BTreeSet<String>> {
    let mut g: BTreeMap<String, BTreeSet<String>> = BTreeMap::new();
    for (h, a) in recorded_edges() {
        g.entry(h.clone()).or_default().insert(a.clone());
    }
    for (e, _) in lt::edges() {
        g.entry(e.held.to_string()).or_default().insert(e.acquired.to_string());
    }
    g
}

/// does `to` lie on a path starting at `from`?
fn reaches(g: &BTreeMap<String, BTreeSet<String>>, from: &str, to: &str) -> bool {
    let mut seen: BTreeSet<&str> = BTreeSet::new();
    let mut todo = vec![from];
    while let Some(n) = todo.pop() {
        if n == to {
            return true;
        }
        if !seen.insert(n) {
            continue;
        }
        if let Some(next) = g.get(n) {
            for m in next {
                todo.push(m.as_str());
            }
        }
    }
    false
}

/// a nesting `h -> a` contradicts every global order iff `a` already leads back to `h`
fn on_cycle(g: &BTreeMap<String, BTreeSet<String>>, h: &str, a: &str) -> bool {
    h == a || reaches(g, a, h)
}

/// type name without module paths and blanks: `opcua::server::state::ServerState` -> `ServerState`
fn short(name: &str) -> String {
    let mut out = String::new();
    let mut ident = String::new();
    let mut chars = name.chars().peekable();
    while let Some(c) = chars.next() {
        if c.is_alphanumeric() || c == '_' {
            ident.push(c);
        } else if c == ':' && chars.peek() == Some(&':') {
            chars.next();
            ident.clear();
        } else {
            out.push_str(&ident);
            ident.clear();
            if c != ' ' {
                out.push(c);
            }
        }
    }
    out.push_str(&ident);
    out
}

fn site_info(h: &str, a: &str) -> String {
    lt::edges()
        .into_iter()
        .find(|(e, _)| e.held == h && e.acquired == a)
        .map(|(e, i)| {
            format!(
                "{}({}) -> {}({}){}",
                i.held_site,
                i.held_mode,
                i.site,
                i.mode,
                if e.same_instance { " same lock object" } else { "" }
            )
        })
        .unwrap_or_default()
}

fn counts() -> BTreeMap<(String, String), u64> {
    let mut m = BTreeMap::new();
    for (e, i) in lt::edges() {
        *m.entry((e.held.to_string(), e.acquired.to_string())).or_insert(0) += i.count;
    }
    m
}

/// The property on what one op exercised: every nesting taken during the op must be compatible
/// with one global order of everything observed so far.  The class tag lists the offending nestings.
fn oracle(before: &BTreeMap<(String, String), u64>) -> Verdict {
    let g = graph();
    let mut bad = Vec::new();
    let mut detail = Vec::new();
    for ((h, a), n) in counts() {
        if before.get(&(h.clone(), a.clone())).copied().unwrap_or(0) == n {
            continue;
        }
        if on_cycle(&g, &h, &a) {
            bad.push(format!("{}->{}", short(&h), short(&a)));
            detail.push(format!("{} -> {} [{}]", h, a, site_info(&h, &a)));
        }
    }
    if bad.is_empty() {
        Verdict::Ok
    } else {
        Verdict::fail("single_lock_order", &bad.join("+"), detail.join(" ; "))
    }
}

impl Prop for C38 {
    fn id(&self) -> &'static str {
        "C38"
    }

    fn gen(&self, rng: &mut Rng, n: usize, tier: Tier, out: &mut Vec<String>) {
        // `n == 0` is how the translator asks: the canonical workload is executed here, in the generating
        // process, and the op stream is annotated (comment lines are not ops).  Otherwise the nestings the
        // translator recorded with this binary are turned into `edge` ops that both sides must answer alike
        // (the workload is run here only if there is no record).
        let describe = n == 0;
        out.push("reset".to_string());
        let mut tag = 0;
        if describe || recorded_edges().is_empty() {
            lt::reset();
            let mut complete = true;
            let rounds = if tier == Tier::Thorough { 3 } else { 1 };
            for _ in 0..rounds {
                for k in KINDS {
                    tag += 1;
                    out.push(format!("work {} {}", k, tag));
                    let t0 = std::time::Instant::now();
                    let ok = run_scenario(k, tag);
                    if describe {
                        eprintln!("C38 workload: {} took {} ms", k, t0.elapsed().as_millis());
                    }
                    if !ok {
                        eprintln!("C38 workload: scenario {} {} did not run to its end", k, tag);
                    }
                    complete &= ok;
                }
            }
            for (e, i) in lt::edges() {
                out.push(format!("edge {} {}", hexs(e.held), hexs(e.acquired)));
                if describe {
                    out.push(format!(
                        "# edge {} -> {} same_instance={} held at {}({}) acquired at {}({}) x{}",
                        e.held, e.acquired, e.same_instance, i.held_site, i.held_mode, i.site, i.mode, i.count
                    ));
                }
            }
            if describe {
                for ((f, l), c) in lt::sites() {
                    out.push(format!("# site {}:{} {}", f, l, c));
                }
                out.push(format!("# workload-complete {}", complete));
            }
        } else {
            for (h, a) in recorded_edges() {
                out.push(format!("edge {} {}", hexs(h), hexs(a)));
            }
        }
        // random shorter workloads
        for _ in 0..n {
            out.push("reset".to_string());
            for _ in 0..rng.range(1, 3) {
                tag += 1;
                out.push(format!("work {} {}", rng.pick(&KINDS[..KINDS.len() - 2]), tag));
            }
        }
    }

    fn runner(&self) -> Box<dyn Runner> {
        Box::new(R)
    }
}

struct R;

impl Runner for R {
    fn step(&mut self, toks: &[&str]) -> (String, Verdict) {
        match toks {
            ["reset"] => ("ok".to_string(), Verdict::Ok),
            ["work", kind, tag] => {
                if !KINDS.contains(kind) {
                    return ("bad-op".to_string(), Verdict::Ok);
                }
                let tag: u32 = tag.parse().unwrap_or(0);
                let before = counts();
                let _ran = run_scenario(kind, tag);
                ("ok".to_string(), oracle(&before))
            }
            ["edge", h, a] => {
                let (h, a) = (unhexs(h), unhexs(a));
                // would this nesting, together with everything this process has observed, still allow one
                // global order?
                let mut g = graph();
                g.entry(h.clone()).or_default().insert(a.clone());
                if on_cycle(&g, &h, &a) {
                    (
                        "ok unranked".to_string(),
                        Verdict::fail(
                            "single_lock_order",
                            &format!("{}->{}", short(&h), short(&a)),
                            format!("{} -> {} closes a cycle of lock nestings [{}]", h, a, site_info(&h, &a)),
                        ),
                    )
                } else {
                    ("ok ranked".to_string(), Verdict::Ok)
                }
            }
            _ => ("bad-op".to_string(), Verdict::Ok),
        }
    }
}
