//! C38 — server locks are always taken in one global order.
//!
//! A real server (listener, connection reader/writer tasks, subscription timers) runs in this
//! process on a loopback socket and real client sessions drive it.  With `--cfg locka99_opcua_verif`
//! the three `trace_*lock!` macros record every (held class -> acquired class) nesting
//! (`opcua::verif_locktrace`).  `gen` executes the canonical workload once and emits the observed
//! nestings as `edge` ops; the Lean side answers them from the regenerated, kernel-checked rank
//! table (`Generated/LockEdges.lean`), this side from the graph it observes itself.
use crate::common::*;
use crate::fixtures;
use opcua::client::{ClientBuilder, DataChangeCallback, IdentityToken, Session};
use opcua::server::prelude::*;
use opcua::sync::RwLock;
use opcua::verif_locktrace as lt;
use std::collections::{BTreeMap, BTreeSet};
use std::sync::{Arc, Mutex, OnceLock};
use std::time::Duration;

pub struct C38;
pub static P: C38 = C38;

/// scenario kinds of the workload
const KINDS: &[&str] = &["attr", "view", "subs", "nodes", "method", "two", "drop", "restart"];

struct Running {
    server: Arc<RwLock<Server>>,
    port: u16,
    task: tokio::task::JoinHandle<()>,
}

struct World {
    server_rt: tokio::runtime::Runtime,
    client_rt: tokio::runtime::Runtime,
    running: Mutex<Option<Running>>,
}

fn world() -> &'static World {
    static W: OnceLock<World> = OnceLock::new();
    W.get_or_init(|| World {
        server_rt: tokio::runtime::Builder::new_multi_thread().worker_threads(3).enable_all().build().unwrap(),
        client_rt: tokio::runtime::Builder::new_multi_thread().worker_threads(2).enable_all().build().unwrap(),
        running: Mutex::new(None),
    })
}

fn free_port() -> u16 {
    let l = std::net::TcpListener::bind("127.0.0.1:0").expect("bind");
    l.local_addr().unwrap().port()
}

fn start_server(w: &World) -> Running {
    let port = free_port();
    let pki = fixtures::scratch_dir().join(format!("c38-pki-{}", port));
    let server = ServerBuilder::new_sample()
        .application_name("verif")
        .host_and_port("127.0.0.1", port)
        .discovery_urls(vec![format!("opc.tcp://127.0.0.1:{}/", port)])
        .pki_dir(pki)
        .create_sample_keypair(true)
        .trust_client_certs()
        .clients_can_modify_address_space()
        .server()
        .expect("server");
    {
        // a few variables the clients read, write and monitor
        let address_space = server.address_space();
        let mut address_space = address_space.write();
        let ns = address_space.register_namespace("urn:verif-c38").unwrap();
        let folder = address_space.add_folder("Verif", "Verif", &NodeId::objects_folder_id()).unwrap();
        let vars: Vec<Variable> = (0..4)
            .map(|i| {
                let mut v = Variable::new(&NodeId::new(ns, format!("v{}", i)), format!("v{}", i), format!("v{}", i), 0i32);
                v.set_writable(true);
                v
            })
            .collect();
        let _ = address_space.add_variables(vars, &folder);
    }
    let server = Arc::new(RwLock::new(server));
    let task = w.server_rt.spawn(Server::new_server_task(server.clone()));
    // wait until it listens
    for _ in 0..200 {
        if std::net::TcpStream::connect(("127.0.0.1", port)).is_ok() {
            break;
        }
        std::thread::sleep(Duration::from_millis(25));
    }
    Running { server, port, task }
}

fn ensure_server() -> u16 {
    let w = world();
    let mut r = w.running.lock().unwrap();
    if r.is_none() {
        *r = Some(start_server(w));
    }
    r.as_ref().unwrap().port
}

fn restart_server() -> bool {
    let w = world();
    let mut r = w.running.lock().unwrap();
    if let Some(run) = r.take() {
        run.server.write().abort();
        // the server task ends once it has noticed the abort flag
        let ended = w.client_rt.block_on(async { tokio::time::timeout(Duration::from_secs(20), run.task).await.is_ok() });
        if !ended {
            return false;
        }
    }
    *r = Some(start_server(w));
    true
}

async fn connect(port: u16, name: &str) -> Result<(Arc<Session>, tokio::task::JoinHandle<StatusCode>), String> {
    let pki = fixtures::scratch_dir().join(format!("c38-client-pki-{}", name));
    let mut client = ClientBuilder::new()
        .application_name(name)
        .application_uri(format!("urn:{}", name))
        .pki_dir(pki)
        .create_sample_keypair(false)
        .trust_server_certs(true)
        .session_retry_limit(0)
        .client()
        .ok_or("client")?;
    let url = format!("opc.tcp://127.0.0.1:{}/", port);
    let endpoint: EndpointDescription = (url.as_str(), "None", MessageSecurityMode::None, UserTokenPolicy::anonymous()).into();
    let (session, event_loop) = client
        .new_session_from_info((endpoint, IdentityToken::Anonymous))
        .map_err(|e| format!("session: {}", e))?;
    let handle = event_loop.spawn();
    match tokio::time::timeout(Duration::from_secs(15), session.wait_for_connection()).await {
        Ok(true) => Ok((session, handle)),
        _ => {
            handle.abort();
            Err("no connection".to_string())
        }
    }
}

fn var(i: u32) -> NodeId {
    NodeId::new(2, format!("v{}", i))
}

async fn attr_ops(s: &Session) -> Result<(), StatusCode> {
    let read: Vec<ReadValueId> = vec![
        NodeId::from(&VariableId::Server_ServerStatus_State).into(),
        var(0).into(),
        NodeId::new(7, "nope").into(),
    ];
    s.read(&read, TimestampsToReturn::Both, 0.0).await?;
    let w = WriteValue {
        node_id: var(1),
        attribute_id: AttributeId::Value as u32,
        index_range: UAString::null(),
        value: DataValue::value_only(Variant::Int32(7)),
    };
    s.write(&[w]).await?;
    Ok(())
}

async fn view_ops(s: &Session) -> Result<(), StatusCode> {
    let b = BrowseDescription {
        node_id: ObjectId::ObjectsFolder.into(),
        browse_direction: BrowseDirection::Forward,
        reference_type_id: ReferenceTypeId::HierarchicalReferences.into(),
        include_subtypes: true,
        node_class_mask: 0,
        result_mask: 0x3f,
    };
    let r = s.browse(&[b]).await?;
    if let Some(r) = r {
        for x in r {
            if !x.continuation_point.is_null() {
                let _ = s.browse_next(true, &[x.continuation_point]).await;
            }
        }
    }
    let path = BrowsePath {
        starting_node: ObjectId::ObjectsFolder.into(),
        relative_path: RelativePath {
            elements: Some(vec![RelativePathElement {
                reference_type_id: ReferenceTypeId::HierarchicalReferences.into(),
                is_inverse: false,
                include_subtypes: true,
                target_name: QualifiedName::new(0, "Server"),
            }]),
        },
    };
    s.translate_browse_paths_to_node_ids(&[path]).await?;
    let nodes = s.register_nodes(&[var(0), var(1)]).await?;
    let _ = s.unregister_nodes(&nodes).await;
    Ok(())
}

async fn subs_ops(s: &Session) -> Result<(), StatusCode> {
    let sub = s
        .create_subscription(Duration::from_millis(50), 30, 5, 0, 0, true, DataChangeCallback::new(|_, _| {}))
        .await?;
    let items: Vec<MonitoredItemCreateRequest> = vec![
        var(0).into(),
        var(1).into(),
        NodeId::from(&VariableId::Server_ServerStatus_CurrentTime).into(),
    ];
    let created = s.create_monitored_items(sub, TimestampsToReturn::Both, items).await?;
    // let the subscription timer tick, publish requests flow and values change
    for i in 0..4 {
        let w = WriteValue {
            node_id: var(0),
            attribute_id: AttributeId::Value as u32,
            index_range: UAString::null(),
            value: DataValue::value_only(Variant::Int32(100 + i)),
        };
        let _ = s.write(&[w]).await;
        tokio::time::sleep(Duration::from_millis(120)).await;
    }
    let _ = s.modify_subscription(sub, 80.0, 30, 5, 0, 0).await;
    let _ = s.set_publishing_mode(&[sub], false).await;
    let _ = s.set_publishing_mode(&[sub], true).await;
    let ids: Vec<u32> = created.iter().map(|c| c.monitored_item_id).collect();
    if let Some(first) = ids.first() {
        let _ = s.delete_monitored_items(sub, &[*first]).await;
    }
    tokio::time::sleep(Duration::from_millis(120)).await;
    s.delete_subscription(sub).await?;
    Ok(())
}

async fn nodes_ops(s: &Session, tag: u32) -> Result<(), StatusCode> {
    let id = NodeId::new(2, format!("added-{}", tag));
    let item = AddNodesItem {
        parent_node_id: ObjectId::ObjectsFolder.into(),
        reference_type_id: ReferenceTypeId::Organizes.into(),
        requested_new_node_id: id.clone().into(),
        browse_name: QualifiedName::new(0, format!("added{}", tag)),
        node_class: NodeClass::Object,
        node_attributes: ExtensionObject::from_encodable(
            ObjectId::ObjectAttributes_Encoding_DefaultBinary,
            &ObjectAttributes {
                specified_attributes: (AttributesMask::DISPLAY_NAME | AttributesMask::DESCRIPTION | AttributesMask::WRITE_MASK
                    | AttributesMask::USER_WRITE_MASK | AttributesMask::EVENT_NOTIFIER)
                    .bits(),
                display_name: LocalizedText::from("added"),
                description: LocalizedText::from("added"),
                write_mask: 0,
                user_write_mask: 0,
                event_notifier: 0,
            },
        ),
        type_definition: ObjectTypeId::BaseObjectType.into(),
    };
    let _ = s.add_nodes(&[item]).await?;
    let r = AddReferencesItem {
        source_node_id: id.clone(),
        reference_type_id: ReferenceTypeId::Organizes.into(),
        is_forward: true,
        target_server_uri: UAString::null(),
        target_node_id: var(2).into(),
        target_node_class: NodeClass::Variable,
    };
    let _ = s.add_references(&[r]).await;
    let _ = s
        .delete_nodes(&[DeleteNodesItem {
            node_id: id,
            delete_target_references: true,
        }])
        .await;
    Ok(())
}

async fn method_ops(s: &Session) -> Result<(), StatusCode> {
    let sub = s
        .create_subscription(Duration::from_millis(100), 30, 5, 0, 0, true, DataChangeCallback::new(|_, _| {}))
        .await?;
    let _ = s.call_get_monitored_items(sub).await;
    let _ = s.delete_subscription(sub).await;
    Ok(())
}

/// one scenario; returns whether it ran to its end
fn run_scenario(kind: &str, tag: u32) -> bool {
    if kind == "restart" {
        return restart_server();
    }
    let port = ensure_server();
    let w = world();
    let kind = kind.to_string();
    w.client_rt.block_on(async move {
        let body = async {
            let (s, handle) = match connect(port, &format!("c{}", tag % 3)).await {
                Ok(x) => x,
                Err(_) => return false,
            };
            let ok = match kind.as_str() {
                "attr" => attr_ops(&s).await.is_ok(),
                "view" => view_ops(&s).await.is_ok(),
                "subs" => subs_ops(&s).await.is_ok(),
                "nodes" => {
                    let r = nodes_ops(&s, tag).await;
                    if let Err(e) = &r {
                        eprintln!("C38 workload: nodes: {}", e);
                    }
                    r.is_ok()
                }
                "method" => method_ops(&s).await.is_ok(),
                "two" => {
                    // a second connection working at the same time
                    match connect(port, "second").await {
                        Ok((s2, h2)) => {
                            let (a, b) = tokio::join!(subs_ops(&s), async {
                                let r1 = attr_ops(&s2).await;
                                let r2 = view_ops(&s2).await;
                                let r3 = subs_ops(&s2).await;
                                r1.and(r2).and(r3)
                            });
                            let _ = s2.disconnect().await;
                            let _ = tokio::time::timeout(Duration::from_secs(5), h2).await;
                            a.is_ok() && b.is_ok()
                        }
                        Err(_) => false,
                    }
                }
                "drop" => {
                    // the connection goes away with a live subscription: server-side teardown
                    let r = s
                        .create_subscription(Duration::from_millis(50), 30, 5, 0, 0, true, DataChangeCallback::new(|_, _| {}))
                        .await;
                    let _ = s.create_monitored_items(r.unwrap_or(0), TimestampsToReturn::Both, vec![var(3).into()]).await;
                    tokio::time::sleep(Duration::from_millis(150)).await;
                    handle.abort();
                    drop(s);
                    tokio::time::sleep(Duration::from_millis(300)).await;
                    return r.is_ok();
                }
                _ => false,
            };
            let _ = s.disconnect().await;
            let _ = tokio::time::timeout(Duration::from_secs(5), handle).await;
            // give the server's connection tasks time to wind down
            tokio::time::sleep(Duration::from_millis(150)).await;
            ok
        };
        tokio::time::timeout(Duration::from_secs(40), body).await.unwrap_or(false)
    })
}

fn hexs(s: &str) -> String {
    format!("s{}", hex(s.as_bytes()))
}

fn unhexs(s: &str) -> String {
    String::from_utf8(unhex(s.strip_prefix('s').unwrap_or(s)).unwrap_or_default()).unwrap_or_default()
}

/// the observed nesting graph (different lock objects or different classes; re-entrant read of the
/// same object is reported separately)
fn graph() -> BTreeMap<String, BTreeSet<String>> {
    let mut g: BTreeMap<String, BTreeSet<String>> = BTreeMap::new();
    for (e, _) in lt::edges() {
        g.entry(e.held.to_string()).or_default().insert(e.acquired.to_string());
    }
    g
}

/// does `to` lie on a path starting at `from`?
fn reaches(g: &BTreeMap<String, BTreeSet<String>>, from: &str, to: &str) -> bool {
    let mut seen: BTreeSet<&str> = BTreeSet::new();
    let mut todo = vec![from];
    while let Some(n) = todo.pop() {
        if n == to {
            return true;
        }
        if !seen.insert(n) {
            continue;
        }
        if let Some(next) = g.get(n) {
            for m in next {
                todo.push(m.as_str());
            }
        }
    }
    false
}

/// a nesting `h -> a` contradicts every global order iff `a` already leads back to `h`
fn on_cycle(g: &BTreeMap<String, BTreeSet<String>>, h: &str, a: &str) -> bool {
    h == a || reaches(g, a, h)
}

/// type name without module paths and blanks: `opcua::server::state::ServerState` -> `ServerState`
fn short(name: &str) -> String {
    let mut out = String::new();
    let mut ident = String::new();
    let mut chars = name.chars().peekable();
    while let Some(c) = chars.next() {
        if c.is_alphanumeric() || c == '_' {
            ident.push(c);
        } else if c == ':' && chars.peek() == Some(&':') {
            chars.next();
            ident.clear();
        } else {
            out.push_str(&ident);
            ident.clear();
            if c != ' ' {
                out.push(c);
            }
        }
    }
    out.push_str(&ident);
    out
}

fn site_info(h: &str, a: &str) -> String {
    lt::edges()
        .into_iter()
        .find(|(e, _)| e.held == h && e.acquired == a)
        .map(|(e, i)| {
            format!(
                "{}({}) -> {}({}){}",
                i.held_site,
                i.held_mode,
                i.site,
                i.mode,
                if e.same_instance { " same lock object" } else { "" }
            )
        })
        .unwrap_or_default()
}

fn counts() -> BTreeMap<(String, String), u64> {
    let mut m = BTreeMap::new();
    for (e, i) in lt::edges() {
        *m.entry((e.held.to_string(), e.acquired.to_string())).or_insert(0) += i.count;
    }
    m
}

/// The property on what one op exercised: every nesting taken during the op must be compatible
/// with one global order of everything observed so far.  The class tag lists the offending nestings.
fn oracle(before: &BTreeMap<(String, String), u64>) -> Verdict {
    let g = graph();
    let mut bad = Vec::new();
    let mut detail = Vec::new();
    for ((h, a), n) in counts() {
        if before.get(&(h.clone(), a.clone())).copied().unwrap_or(0) == n {
            continue;
        }
        if on_cycle(&g, &h, &a) {
            bad.push(format!("{}->{}", short(&h), short(&a)));
            detail.push(format!("{} -> {} [{}]", h, a, site_info(&h, &a)));
        }
    }
    if bad.is_empty() {
        Verdict::Ok
    } else {
        Verdict::fail("single_lock_order", &bad.join("+"), detail.join(" ; "))
    }
}

impl Prop for C38 {
    fn id(&self) -> &'static str {
        "C38"
    }

    fn gen(&self, rng: &mut Rng, n: usize, tier: Tier, out: &mut Vec<String>) {
        // the canonical workload is executed here, in the generating process: what it observes becomes
        // `edge` ops that both sides must answer alike
        lt::reset();
        out.push("reset".to_string());
        let mut complete = true;
        let rounds = if tier == Tier::Thorough { 3 } else { 1 };
        let mut tag = 0;
        for _ in 0..rounds {
            for k in KINDS {
                tag += 1;
                out.push(format!("work {} {}", k, tag));
                let ok = run_scenario(k, tag);
                if !ok {
                    eprintln!("C38 workload: scenario {} {} did not run to its end", k, tag);
                }
                complete &= ok;
            }
        }
        // `n == 0` is how the translator asks: the op stream is then annotated (comment lines are not ops)
        let describe = n == 0;
        for (e, i) in lt::edges() {
            out.push(format!("edge {} {}", hexs(e.held), hexs(e.acquired)));
            if describe {
                out.push(format!(
                    "# edge {} -> {} same_instance={} held at {}({}) acquired at {}({}) x{}",
                    e.held, e.acquired, e.same_instance, i.held_site, i.held_mode, i.site, i.mode, i.count
                ));
            }
        }
        if describe {
            for ((f, l), c) in lt::sites() {
                out.push(format!("# site {}:{} {}", f, l, c));
            }
            out.push(format!("# workload-complete {}", complete));
        }
        // random shorter workloads
        for _ in 0..n {
            out.push("reset".to_string());
            for _ in 0..rng.range(1, 3) {
                tag += 1;
                out.push(format!("work {} {}", rng.pick(&KINDS[..7]), tag));
            }
        }
    }

    fn runner(&self) -> Box<dyn Runner> {
        Box::new(R)
    }
}

struct R;

impl Runner for R {
    fn step(&mut self, toks: &[&str]) -> (String, Verdict) {
        match toks {
            ["reset"] => ("ok".to_string(), Verdict::Ok),
            ["work", kind, tag] => {
                if !KINDS.contains(kind) {
                    return ("bad-op".to_string(), Verdict::Ok);
                }
                let tag: u32 = tag.parse().unwrap_or(0);
                let before = counts();
                let _ran = run_scenario(kind, tag);
                ("ok".to_string(), oracle(&before))
            }
            ["edge", h, a] => {
                let (h, a) = (unhexs(h), unhexs(a));
                // would this nesting, together with everything this process has observed, still allow one
                // global order?
                let mut g = graph();
                g.entry(h.clone()).or_default().insert(a.clone());
                if on_cycle(&g, &h, &a) {
                    (
                        "ok unranked".to_string(),
                        Verdict::fail(
                            "single_lock_order",
                            &format!("{}->{}", short(&h), short(&a)),
                            format!("{} -> {} closes a cycle of lock nestings [{}]", h, a, site_info(&h, &a)),
                        ),
                    )
                } else {
                    ("ok ranked".to_string(), Verdict::Ok)
                }
            }
            _ => ("bad-op".to_string(), Verdict::Ok),
        }
    }
}
