//! C01 — binary encoding round-trips every valid value exactly.
//!
//! Ops (shared codec ops, see `enc.rs`):
//!   enc <Type> <tree…>          -> ok x<hex> <byte_len>
//!   dec <Type> <opts> x<hex>    -> ok <consumed> x<re-encoded> | err   (ties the decoder to the model)
//!
//! Oracle for `enc` (implementation outputs only, from the property text): for a valid value v
//!   * `encode` reports the number of bytes it wrote and that equals `byte_len()`;
//!   * decoding `bytes ++ sentinel` succeeds, stops exactly at `bytes.len()`, and yields norm(v)
//!     (norm = the documented normalisations: empty LocalizedText parts become null, DateTime is
//!     clamped to 1601..9999, picoseconds without timestamp are dropped, an array without values
//!     comes back with empty dimensions); values are compared as canonical trees (floats bitwise);
//!   * the decoded value re-encodes to bytes that decode to the same bytes again (stability).
use crate::common::*;
use crate::enc::*;
use opcua::types::BinaryEncoder;

pub struct C01;
pub static P: C01 = C01;

const SENTINEL: [u8; 5] = [0xA5, 0x17, 0x01, 0xFF, 0x80];

fn generous() -> Lim {
    Lim { max_str: 1 << 20, max_bytes: 1 << 20, max_arr: 1 << 16, max_depth: 64, max_msg: 0, named: 0 }
}

impl Prop for C01 {
    fn id(&self) -> &'static str {
        "C01"
    }

    fn gen(&self, rng: &mut Rng, n: usize, tier: Tier, out: &mut Vec<String>) {
        let names: Vec<&'static str> = dispatch::SCHEMAS.iter().map(|(n, _)| *n).collect();
        for case in 0..n {
            out.push("reset".to_string());
            // generated structures: every one of them in turn (bytes of a valid value), and
            // now and then with an unknown enum discriminant or a mutation
            {
                let name = names[case % names.len()];
                let mut g = Gen::new(rng);
                g.lens = vec![0, 1, 2, 3, 5];
                let (bytes, ok) = g.struct_bytes(name, case % 5 == 4);
                if bytes.len() <= 6000 {
                    if ok {
                        out.push(format!("srt {} x{}", name, hex(&bytes)));
                    } else {
                        out.push(format!("sdec {} {} x{}", name, generous().show(), hex(&bytes)));
                    }
                    if case % 3 == 0 && !bytes.is_empty() {
                        let mut m = bytes.clone();
                        let i = rng.below(m.len() as u64) as usize;
                        match rng.below(3) {
                            0 => m[i] ^= 1 << rng.below(8),
                            1 => m.truncate(i),
                            _ => m[i] = rng.next() as u8,
                        }
                        out.push(format!("sdec {} {} x{}", name, Lim::default().show(), hex(&m)));
                    }
                }
            }
            // first-byte sweeps: every mask / type byte of DataValue, DiagnosticInfo, LocalizedText, NodeId,
            // ExpandedNodeId and the ExtensionObject body (6 x 256 points, one per case)
            {
                let (ty, b) = byte_sweep(case);
                out.push(format!("dec {} {} x{}", ty, Lim::default().show(), hex(&b)));
            }
            let k = 1 + rng.below(3);
            for _ in 0..k {
                let depth = match rng.below(10) {
                    0 => 0,
                    1..=5 => 2,
                    6..=8 => 4,
                    _ => {
                        if tier == Tier::Thorough {
                            12
                        } else {
                            7
                        }
                    }
                };
                let v = {
                    let mut g = Gen::new(rng);
                    if tier == Tier::Thorough {
                        g.lens.extend([31, 32, 127, 128, 255, 256, 1000]);
                        g.arr_lens.extend([8, 12, 30]);
                    }
                    g.val(depth)
                };
                out.push(format!("enc {} {}", v.type_name(), v.tree()));
                // decode what was encoded under option sets in which the limits DIFFER from each other:
                // every limit exactly at the value's own extent (so a ByteString longer than the longest
                // string, an array longer than both, … each sit at their own limit and above the others'),
                // then one limit at a time raised to a value at / beyond the i32 and u32 boundaries
                {
                    let e = Extent::of(&v);
                    let tight = Lim { max_str: e.max_str, max_bytes: e.max_bytes, max_arr: e.max_arr, max_depth: e.nest, max_msg: 0, named: 0 };
                    if valid(&v) {
                        out.push(format!("lim {} {} {}", v.type_name(), tight.show(), v.tree()));
                        let h = *rng.pick(&HUGE_LIMITS);
                        let skew = match rng.below(5) {
                            0 => Lim { max_str: h, ..tight },
                            1 => Lim { max_bytes: h, ..tight },
                            2 => Lim { max_arr: h, ..tight },
                            3 => Lim { max_depth: h as u64, ..tight },
                            _ => Lim { max_str: h, max_bytes: *rng.pick(&HUGE_LIMITS), max_arr: *rng.pick(&HUGE_LIMITS), max_depth: *rng.pick(&HUGE_LIMITS) as u64, max_msg: 0, named: 0 },
                        };
                        out.push(format!("lim {} {} {}", v.type_name(), skew.show(), v.tree()));
                    }
                }
                // tie the decoder: the encoding itself (default options) and a mutation of it
                let bytes = v.try_encode().unwrap_or_default();
                if !bytes.is_empty() && bytes.len() <= 4000 {
                    let lim = match rng.below(4) {
                        0 => Lim::default(),
                        1 => Lim::minimal(),
                        _ => generous(),
                    };
                    let mut b = bytes.clone();
                    b.extend_from_slice(&SENTINEL[..rng.below(6) as usize]);
                    out.push(format!("dec {} {} x{}", v.type_name(), lim.show(), hex(&b)));
                    // the same bytes decoded by a client that compensates clock skew (client_offset)
                    if matches!(v, Val::V(_) | Val::DV(_)) && rng.chance(1, 3) {
                        let off: i64 = *rng.pick(&[0i64, 1, -1, 10_000_000, -36_000_000_000, 864_000_000_000, 9_000_000_000_000_000_000, -9_000_000_000_000_000_000]);
                        out.push(format!("deco {} {} {} x{}", v.type_name(), generous().show(), off, hex(&bytes)));
                    }
                    if rng.chance(1, 2) && !bytes.is_empty() {
                        let mut m = bytes.clone();
                        match rng.below(4) {
                            0 => {
                                let i = rng.below(m.len() as u64) as usize;
                                m[i] ^= 1 << rng.below(8);
                            }
                            1 => m.truncate(rng.below(m.len() as u64) as usize),
                            2 => {
                                let i = rng.below(m.len() as u64) as usize;
                                m[i] = rng.next() as u8;
                            }
                            _ => {
                                let i = rng.below(m.len() as u64 + 1) as usize;
                                m.insert(i, rng.next() as u8);
                            }
                        }
                        out.push(format!("dec {} {} x{}", v.type_name(), lim.show(), hex(&m)));
                    }
                }
            }
        }
    }

    fn runner(&self) -> Box<dyn Runner> {
        Box::new(R)
    }
}

struct R;

fn cmp3(a: usize, b: usize) -> &'static str {
    if a < b {
        "<"
    } else if a > b {
        ">"
    } else {
        "="
    }
}

fn class_of(v: &Val) -> &'static str {
    let empty_dims = match v {
        Val::V(x) => has_empty_array_with_dims(x),
        Val::DV(x) => x.value.as_ref().map_or(false, has_empty_array_with_dims),
        Val::DI(_) => false,
    };
    if empty_dims {
        "empty-array-with-dimensions"
    } else {
        "value"
    }
}

pub fn roundtrip_oracle(v: &Val, bytes: &[u8], reported: Result<usize, opcua::types::StatusCode>) -> Verdict {
    let class = class_of(v);
    let lim = generous();
    let e = Extent::of(v);
    if !valid(v) || !e.within(&lim) || e.nest > lim.max_depth {
        // outside the property's quantifier
        return Verdict::Ok;
    }
    let via_vec = match v {
        Val::V(x) => x.encode_to_vec(),
        Val::DV(x) => x.encode_to_vec(),
        Val::DI(x) => x.encode_to_vec(),
    };
    if reported.is_ok() && via_vec != bytes {
        return Verdict::fail("convenience_api", class, "encode_to_vec differs from encode");
    }
    let size = match reported {
        Ok(s) => s,
        Err(e) => return Verdict::fail("encode_ok", class, format!("encode of a valid value failed: {}", e)),
    };
    if size != bytes.len() || v.byte_len() != bytes.len() {
        return Verdict::fail(
            "byte_len",
            class,
            format!("byte_len {} reported {} written {}", v.byte_len(), size, bytes.len()),
        );
    }
    let mut stream = bytes.to_vec();
    stream.extend_from_slice(&SENTINEL);
    let (v2, pos) = match Val::decode(v.type_name(), &stream, &lim.options()) {
        Some(Ok(x)) => x,
        Some(Err(e)) => return Verdict::fail("decodes", class, format!("own encoding rejected: {}", e)),
        None => return Verdict::Ok,
    };
    if pos != bytes.len() {
        return Verdict::fail("consumed_exactly", class, format!("decoder consumed {} of {} bytes", pos, bytes.len()));
    }
    let want = norm(v).tree();
    let got = v2.tree();
    if want != got {
        return Verdict::fail("value_equal", class, format!("got {} want {}", got, want));
    }
    // a decoded value re-encodes and decodes to itself
    let (b2, r2) = v2.encode();
    if r2.is_err() || b2.len() != v2.byte_len() {
        return Verdict::fail("reencode", class, "decoded value does not re-encode");
    }
    match Val::decode(v.type_name(), &b2, &lim.options()) {
        Some(Ok((v3, p3))) => {
            let (b3, _) = v3.encode();
            if p3 != b2.len() || b3 != b2 {
                return Verdict::fail("stable", class, "re-encoding of the decoded value is not stable");
            }
        }
        _ => return Verdict::fail("stable", class, "re-encoded value does not decode"),
    }
    Verdict::Ok
}

/// a decoded structure: `byte_len` = bytes written = size reported, and its encoding decodes
/// (followed by other bytes) to exactly itself
fn struct_stable(name: &str, re: &[u8], byte_len: usize, reported: usize) -> Verdict {
    if API_MISMATCH.swap(false, std::sync::atomic::Ordering::Relaxed) {
        return Verdict::fail("convenience_api", name, "encode_to_vec / ExtensionObject::from_encodable / decode_inner disagree with encode");
    }
    if byte_len != re.len() || reported != re.len() {
        return Verdict::fail("byte_len", name, format!("byte_len {} reported {} written {}", byte_len, reported, re.len()));
    }
    let mut stream = re.to_vec();
    stream.extend_from_slice(&SENTINEL);
    // decode(encode(v)) = norm(v): same length, exactly consumed, and norm(v) is a fixpoint
    match dispatch::decode_struct(name, &stream, &generous().options()) {
        Some(Ok((pos, re2, _, _))) => {
            if pos != re.len() {
                return Verdict::fail("consumed_exactly", name, format!("consumed {} of {}", pos, re.len()));
            }
            if re2.len() != re.len() {
                return Verdict::fail("value_equal", name, "decode(encode(v)) re-encodes to a different length");
            }
            match dispatch::decode_struct(name, &re2, &generous().options()) {
                Some(Ok((p3, re3, _, _))) if p3 == re2.len() && re3 == re2 => Verdict::Ok,
                _ => Verdict::fail("stable", name, "the normalised value does not round-trip exactly"),
            }
        }
        Some(Err(e)) => Verdict::fail("decodes", name, format!("own encoding rejected: {}", e)),
        None => Verdict::Ok,
    }
}

impl Runner for R {
    fn step(&mut self, toks: &[&str]) -> (String, Verdict) {
        match toks {
            ["reset", ..] => ("ok".to_string(), Verdict::Ok),
            ["enc", ty, tree @ ..] => {
                let v = match p_val(ty, tree) {
                    Some(v) => v,
                    None => return ("bad-op".to_string(), Verdict::Ok),
                };
                let (bytes, r) = v.encode();
                let line = match r {
                    Ok(_) => format!("ok x{} {}", hex(&bytes), v.byte_len()),
                    Err(_) => "err".to_string(),
                };
                (line, roundtrip_oracle(&v, &bytes, r))
            }
            ["srt", name, h] => {
                let bytes = match unhex(h) {
                    Some(b) => b,
                    None => return ("bad-op".to_string(), Verdict::Ok),
                };
                let (line, out) = run_sdec(name, &generous(), &bytes);
                let verdict = match out {
                    None => Verdict::Ok,
                    Some(Err(e)) => Verdict::fail("decodes", name, format!("encoding of a valid {} rejected: {}", name, e)),
                    Some(Ok((pos, re, len, rep))) => {
                        if pos != bytes.len() {
                            Verdict::fail("consumed_exactly", name, format!("consumed {} of {}", pos, bytes.len()))
                        } else if re.len() != bytes.len() {
                            Verdict::fail("value_equal", name, format!("re-encoding has {} bytes, the original {}", re.len(), bytes.len()))
                        } else {
                            struct_stable(name, &re, len, rep)
                        }
                    }
                };
                (line, verdict)
            }
            ["sdec", name, opts, h] => {
                let (lim, bytes) = match (Lim::parse(opts), unhex(h)) {
                    (Some(l), Some(b)) => (l, b),
                    _ => return ("bad-op".to_string(), Verdict::Ok),
                };
                let (line, out) = run_sdec(name, &lim, &bytes);
                let verdict = match out {
                    Some(Ok((_, re, len, rep))) => struct_stable(name, &re, len, rep),
                    _ => Verdict::Ok,
                };
                (line, verdict)
            }
            ["lim", ty, opts, tree @ ..] => {
                let (lim, v) = match (Lim::parse(opts), p_val(ty, tree)) {
                    (Some(l), Some(v)) => (l, v),
                    _ => return ("bad-op".to_string(), Verdict::Ok),
                };
                let bytes = match v.try_encode() {
                    Some(b) => b,
                    None => return ("err".to_string(), Verdict::Ok),
                };
                let (line, out) = run_dec(ty, &lim, &bytes);
                // the round trip holds under EVERY option set the value is within (not only generous ones)
                let e = Extent::of(&v);
                let class = format!("limits-str{}-bytes{}-arr{}", cmp3(lim.max_str, lim.max_bytes), cmp3(lim.max_bytes, lim.max_arr), cmp3(lim.max_arr, lim.max_str));
                let verdict = if !valid(&v) || !e.within(&lim) || e.nest > lim.max_depth {
                    Verdict::Ok
                } else {
                    match out {
                        DecOut::Ok(v2, pos) => {
                            if pos != bytes.len() {
                                Verdict::fail("consumed_exactly", &class, format!("consumed {} of {}", pos, bytes.len()))
                            } else if v2.tree() != norm(&v).tree() {
                                Verdict::fail("value_equal", &class, format!("got {} want {}", v2.tree(), norm(&v).tree()))
                            } else {
                                Verdict::Ok
                            }
                        }
                        DecOut::Err => Verdict::fail("decodes", &class, format!("own encoding rejected although {:?} is within {:?}", e, lim)),
                        _ => Verdict::Ok,
                    }
                };
                (line, verdict)
            }
            ["deco", ty, opts, off, h] => {
                let (lim, off, bytes) = match (Lim::parse(opts), off.parse::<i64>(), unhex(h)) {
                    (Some(l), Ok(o), Some(b)) => (l, o, b),
                    _ => return ("bad-op".to_string(), Verdict::Ok),
                };
                let (line, out) = run_deco(ty, &lim, off, &bytes);
                // "the source timestamp should never be adjusted, not even when ignoring clock skew"
                let verdict = match (out, Val::decode(ty, &bytes, &lim.options())) {
                    (DecOut::Ok(Val::DV(a), _), Some(Ok((Val::DV(b), _)))) => {
                        if a.source_timestamp.as_ref().map(true_ticks) != b.source_timestamp.as_ref().map(true_ticks) {
                            Verdict::fail("source_timestamp_unadjusted", "client-offset", "source timestamp changed with the client offset")
                        } else {
                            Verdict::Ok
                        }
                    }
                    _ => Verdict::Ok,
                };
                (line, verdict)
            }
            ["dec", ty, opts, h] => {
                let (lim, bytes) = match (Lim::parse(opts), unhex(h)) {
                    (Some(l), Some(b)) => (l, b),
                    _ => return ("bad-op".to_string(), Verdict::Ok),
                };
                let (line, out) = run_dec(ty, &lim, &bytes);
                // whatever was decoded is a value of the type: the round-trip property holds for it too
                let verdict = match out {
                    DecOut::Ok(v2, _) => {
                        let (b2, r2) = v2.encode();
                        roundtrip_oracle(&v2, &b2, r2)
                    }
                    _ => Verdict::Ok,
                };
                (line, verdict)
            }
            _ => ("bad-op".to_string(), Verdict::Ok),
        }
    }
}
