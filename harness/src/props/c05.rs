//! C05 — relative path strings round-trip and parse safely.
//!
//! A path is one token: `-` (null element array) or `P(e1,…)` / `P()`; an element is
//! `R(ns,kind,val,inverse,subtypes,targetNs,targetName)` (kind/val as in C04, names `-` or s<hex>).
use super::c04::{mutate, opt_shex, opt_sunhex, opt_xhex, opt_xunhex, shex, sunhex, xhex};
use super::c42::{tree_of, tree_out, T};
use crate::common::*;
use opcua::types::*;
use std::panic::{catch_unwind, AssertUnwindSafe};

pub struct C05;
pub static P: C05 = C05;

fn leaf(s: impl Into<String>) -> T {
    T(s.into(), vec![])
}

fn elem_of(t: &T) -> Option<RelativePathElement> {
    if t.0 != "R" || t.1.len() != 7 {
        return None;
    }
    let k = &t.1;
    let ident = match k[1].0.as_str() {
        "i" => Identifier::Numeric(k[2].0.parse().ok()?),
        "s" => Identifier::String(opt_sunhex(&k[2].0)?),
        "g" => Identifier::Guid(Guid::from_bytes(unhex(k[2].0.strip_prefix('x')?)?.try_into().ok()?)),
        "b" => Identifier::ByteString(opt_xunhex(&k[2].0)?),
        _ => return None,
    };
    Some(RelativePathElement {
        reference_type_id: NodeId { namespace: k[0].0.parse().ok()?, identifier: ident },
        is_inverse: k[3].0 == "1",
        include_subtypes: k[4].0 == "1",
        target_name: QualifiedName { namespace_index: k[5].0.parse().ok()?, name: opt_sunhex(&k[6].0)? },
    })
}

fn elem_tree(e: &RelativePathElement) -> T {
    let (k, v) = match &e.reference_type_id.identifier {
        Identifier::Numeric(n) => ("i", n.to_string()),
        Identifier::String(s) => ("s", opt_shex(s)),
        Identifier::Guid(g) => ("g", xhex(g.as_bytes())),
        Identifier::ByteString(b) => ("b", opt_xhex(b)),
    };
    T(
        "R".into(),
        vec![
            leaf(e.reference_type_id.namespace.to_string()),
            leaf(k),
            leaf(v),
            leaf(b(e.is_inverse)),
            leaf(b(e.include_subtypes)),
            leaf(e.target_name.namespace_index.to_string()),
            leaf(opt_shex(&e.target_name.name)),
        ],
    )
}

fn path_of(t: &T) -> Option<RelativePath> {
    if t.0 == "-" && t.1.is_empty() {
        return Some(RelativePath { elements: None });
    }
    if t.0 != "P" {
        return None;
    }
    Some(RelativePath { elements: Some(t.1.iter().map(elem_of).collect::<Option<Vec<_>>>()?) })
}

fn path_out(p: &RelativePath) -> String {
    match &p.elements {
        None => "-".into(),
        Some(es) => {
            if es.is_empty() {
                "P()".into()
            } else {
                tree_out(&T("P".into(), es.iter().map(elem_tree).collect()))
            }
        }
    }
}

const RESERVED: &str = "&/.<>:#!";
const STD_NAMES: &[&str] = &[
    "References", "NonHierarchicalReferences", "HierarchicalReferences", "HasChild", "Organizes", "HasEventSource", "HasModellingRule",
    "HasEncoding", "HasDescription", "HasTypeDefinition", "GeneratesEvent", "Aggregates", "HasSubtype", "HasProperty", "HasComponent",
    "HasNotifier", "HasOrderedComponent", "FromState", "ToState", "HasCause", "HasEffect", "HasHistoricalConfiguration", "HasSubStateMachine",
    "AlwaysGeneratesEvent", "HasTrueSubState", "HasFalseSubState", "HasCondition",
];
const STD_IDS: &[u32] = &[31, 32, 33, 34, 35, 36, 37, 38, 39, 40, 41, 44, 45, 46, 47, 48, 49, 51, 52, 53, 54, 56, 117, 3065, 9004, 9005, 9006];

/// what about a path is outside the round-trippable class: at most one of these per generated path
fn features(p: &RelativePath) -> Vec<&'static str> {
    let mut f: Vec<&'static str> = vec![];
    let mut add = |x: &'static str| {
        if !f.contains(&x) {
            f.push(x)
        }
    };
    let Some(es) = &p.elements else { return vec!["null-elements"] };
    if es.len() > 32 {
        add("too-many");
    }
    for e in es {
        let bracket = !(e.include_subtypes
            && !e.is_inverse
            && (e.reference_type_id == ReferenceTypeId::HierarchicalReferences.into() || e.reference_type_id == ReferenceTypeId::Aggregates.into()));
        match &e.reference_type_id.identifier {
            Identifier::Numeric(n) => {
                if e.reference_type_id.namespace != 0 || !STD_IDS.contains(n) {
                    add("ref-unresolvable");
                }
            }
            Identifier::String(s) => {
                let s = s.as_ref();
                if s.is_empty() {
                    add("ref-empty");
                } else if s.contains('\n') {
                    add("newline");
                } else if s.chars().any(|c| RESERVED.contains(c)) {
                    add("ref-reserved");
                } else if e.reference_type_id.namespace == 0 && STD_NAMES.contains(&s) {
                    add("ref-std-string");
                }
            }
            _ => add("ref-unresolvable"),
        }
        if let Some(n) = e.target_name.name.value() {
            if n.is_empty() {
                add("target-empty");
            } else if n.contains('\n') {
                add("newline");
            } else if bracket && n.contains('>') {
                add("target-gt");
            }
            if n.len() > 100 {
                add("long");
            }
        } else if e.target_name.namespace_index != 0 {
            add("target-null-ns");
        }
    }
    f
}

fn name_frag(rng: &mut Rng) -> &'static str {
    *rng.pick(&["a", "Z", "0", "9", "_", " ", "é", "€", "😀", "x", "Has", "1", "+", "-", "="])
}

fn plain_name(rng: &mut Rng) -> String {
    let n = rng.range(1, 5);
    (0..n).map(|_| name_frag(rng)).collect()
}

/// target / reference browse names over the alphabet of the property: reserved chars and non-ASCII
fn rich_name(rng: &mut Rng, allow_gt: bool) -> String {
    let n = rng.range(1, 6);
    let mut s = String::new();
    for _ in 0..n {
        if rng.chance(1, 2) {
            let c = *rng.pick(&["&", "/", ".", "<", ">", ":", "#", "!", "&&", "&/", "1:", "10:"]);
            if !allow_gt && c == ">" {
                s.push('<');
            } else {
                s.push_str(c);
            }
        } else {
            s.push_str(name_frag(rng));
        }
    }
    s
}

fn gen_ns(rng: &mut Rng) -> u16 {
    *rng.pick(&[0u16, 0, 1, 2, 9, 10, 11, 99, 100, 65535])
}

fn gen_elem(rng: &mut Rng, special: &mut bool) -> RelativePathElement {
    // reference type
    let (reference_type_id, mut is_inverse, mut include_subtypes) = match rng.weighted(&[5, 4, 6, 4, 1]) {
        0 => (ReferenceTypeId::HierarchicalReferences.into(), false, true),
        1 => (ReferenceTypeId::Aggregates.into(), false, true),
        2 => (NodeId::new(0, *rng.pick(STD_IDS)), rng.chance(1, 2), rng.chance(1, 2)),
        3 => (NodeId::new(gen_ns(rng), UAString::from(plain_name(rng))), rng.chance(1, 2), rng.chance(1, 2)),
        _ => {
            if *special {
                (NodeId::new(0, 47u32), false, true)
            } else {
                *special = true;
                let id = match rng.below(7) {
                    0 => NodeId::new(0, 129u32),                        // defined ReferenceTypeId outside the name table
                    1 => NodeId::new(0, 1u32),
                    2 => NodeId::new(3, 47u32),                         // numeric, namespace != 0
                    3 => NodeId::new(1, Guid::null()),
                    4 => NodeId::new(gen_ns(rng), UAString::from(rich_name(rng, true))), // reserved chars in the type name
                    5 => NodeId::new(0, UAString::from(*rng.pick(STD_NAMES))),           // string id equal to a standard name
                    _ => NodeId::new(1, UAString::from("")),
                };
                (id, rng.chance(1, 2), rng.chance(1, 2))
            }
        }
    };
    if rng.chance(1, 8) {
        is_inverse = !is_inverse;
    }
    if rng.chance(1, 8) {
        include_subtypes = !include_subtypes;
    }
    let bracket = !(include_subtypes
        && !is_inverse
        && (reference_type_id == ReferenceTypeId::HierarchicalReferences.into() || reference_type_id == ReferenceTypeId::Aggregates.into()));
    let target_name = match rng.weighted(&[1, 8, 6, 1]) {
        0 => QualifiedName::null(),
        1 => QualifiedName::new(gen_ns(rng), plain_name(rng)),
        2 => {
            // '>' after a bracketed reference type is a recorded class: only as THE special feature
            let allow_gt = !bracket || (!*special && rng.chance(1, 4));
            let n = rich_name(rng, allow_gt);
            if bracket && n.contains('>') {
                *special = true;
            }
            QualifiedName::new(gen_ns(rng), n)
        }
        _ => {
            if *special {
                QualifiedName::new(1, "t")
            } else {
                *special = true;
                match rng.below(3) {
                    0 => QualifiedName::new(gen_ns(rng), ""),
                    1 => QualifiedName { namespace_index: 5, name: UAString::null() },
                    _ => QualifiedName::new(1, "a\nb"),
                }
            }
        }
    };
    RelativePathElement { reference_type_id, is_inverse, include_subtypes, target_name }
}

fn gen_path(rng: &mut Rng) -> RelativePath {
    loop {
        let n = match rng.weighted(&[1, 10, 6, 2, 1]) {
            0 => 0,
            1 => rng.range(1, 3),
            2 => rng.range(4, 8),
            3 => *rng.pick(&[31i64, 32]),
            _ => 33,
        } as usize;
        let mut special = n > 32;
        let p = RelativePath { elements: Some((0..n).map(|_| gen_elem(rng, &mut special)).collect()) };
        if features(&p).len() <= 1 {
            return p;
        }
    }
}

/// multi-element paths in which each position in turn holds an element whose TEXT is exactly 255 / 256 / 257 bytes
/// (the limit is 256), with ASCII, multi-byte and escaped characters at the boundary, for `/`, `.` and `<…>` elements
fn limit_paths() -> Vec<RelativePath> {
    let el = |ref_id: NodeId, inv: bool, sub: bool, ns: u16, name: &str| RelativePathElement {
        reference_type_id: ref_id,
        is_inverse: inv,
        include_subtypes: sub,
        target_name: QualifiedName::new(ns, name),
    };
    let slash = || -> NodeId { ReferenceTypeId::HierarchicalReferences.into() };
    let dot = || -> NodeId { ReferenceTypeId::Aggregates.into() };
    let text_len = |e: &RelativePathElement| String::from(e).len();
    // builders of a long element: (prefix-making element with an empty-ish name, tail)
    let tails: [&str; 8] = ["a", "é", "€", "😀", "\u{80}", "\u{800}", ".", "&"];
    let mut out = vec![];
    for total in [255usize, 256, 257] {
        for tail in tails {
            for kind in 0..4 {
                let mk = |name: &str| match kind {
                    0 => el(slash(), false, true, 0, name),
                    1 => el(dot(), false, true, 10, name),
                    2 => el(ReferenceTypeId::HasChild.into(), true, false, 65535, name),
                    _ => el(NodeId::new(2, "My.Ref"), false, true, 1, name),
                };
                // pad with 'a' until the element's own printed text has the wanted length
                let base = text_len(&mk(tail));
                if base > total {
                    continue;
                }
                let name = format!("{}{}", "a".repeat(total - base), tail);
                let long = mk(&name);
                if text_len(&long) != total {
                    continue;
                }
                // kinds 2 and 3 only with two tails (keeps the number of ops down)
                if kind >= 2 && !(tail == "a" || tail == "é") {
                    continue;
                }
                for n in [2usize, 3, 5] {
                    for pos in 0..n {
                        let es: Vec<RelativePathElement> = (0..n)
                            .map(|i| {
                                if i == pos {
                                    long.clone()
                                } else {
                                    match i % 3 {
                                        0 => el(slash(), false, true, 0, "x"),
                                        1 => el(dot(), false, true, 2, "y"),
                                        _ => el(ReferenceTypeId::Organizes.into(), false, false, 0, "z"),
                                    }
                                }
                            })
                            .collect();
                        out.push(RelativePath { elements: Some(es) });
                    }
                }
            }
        }
    }
    out
}

const HAND_WRITTEN: &[&str] = &[
    "", "/", ".", "<", ">", "&", "/&", "//", "/.", "/1:foo", "/10:foo", "/65535:foo", "/65536:foo", "/+:foo", "/+1:foo", "/:foo", "/1:", "/1:&", "/a&",
    "<HasChild>1:foo", "<#HasChild>foo", "<!HasChild>foo", "<#!HasChild>foo", "<!#HasChild>foo", "<##HasChild>foo", "<0:HasChild>foo",
    "<1:HasChild>foo", "<00:HasChild>foo", "<65536:HasChild>foo", "<1:#x>foo", "<1:>foo", "<>foo", "<a>b>c", "<a&>b>c", "<HasChild>a&>b",
    "<HasChild", "<ab&.c", "<ab&/0:c", "abc", "abc/def", "abc<HasChild>x", "/a\nb", "<Has\nChild>x", "<HasChild>x\ny/z", "/a/b.c<HasChild>d",
    "/foo&/bar", "/foo&&/bar", "/&&", "&/a", "&.a", "&<HasChild>b", "&&/a", "&a/b", "<><a>b", "<>&<a>b", "x<a>b", "/é", "/1:€uro", "<1:Ünï>2:ö", "/0:a/0:b/0:c/0:d/0:e/0:f/0:g/0:h/0:i/0:j/0:k/0:l/0:m/0:n/0:o/0:p/0:q/0:r/0:s/0:t/0:u/0:v/0:w/0:x/0:y/0:z/0:A/0:B/0:C/0:D/0:E/0:F",
    "/0:a/0:b/0:c/0:d/0:e/0:f/0:g/0:h/0:i/0:j/0:k/0:l/0:m/0:n/0:o/0:p/0:q/0:r/0:s/0:t/0:u/0:v/0:w/0:x/0:y/0:z/0:A/0:B/0:C/0:D/0:E/0:F/0:G",
    "/0:a/0:b/0:c/0:d/0:e/0:f/0:g/0:h/0:i/0:j/0:k/0:l/0:m/0:n/0:o/0:p/0:q/0:r/0:s/0:t/0:u/0:v/0:w/0:x/0:y/0:z/0:A/0:B/0:C/0:D/0:E/0:F/0:G/0:H",
];

impl Prop for C05 {
    fn id(&self) -> &'static str {
        "C05"
    }

    fn gen(&self, rng: &mut Rng, n: usize, _tier: Tier, out: &mut Vec<String>) {
        std::panic::set_hook(Box::new(|_| {}));
        for s in HAND_WRITTEN {
            out.push("reset".into());
            out.push(format!("parse {}", shex(s)));
            out.push(format!("parsenr {}", shex(s)));
            out.push(format!("elem {}", shex(s)));
        }
        // token length limit with the first / last scalar of each UTF-8 length as the last char: 256 and 257 bytes
        for c in ['\u{7f}', '\u{80}', '\u{7ff}', '\u{800}', '\u{ffff}', '\u{10000}', '\u{10ffff}'] {
            for total in [256usize, 257] {
                out.push("reset".into());
                out.push(format!("parse {}", shex(&format!("/{}{}", "a".repeat(total - 1 - c.len_utf8()), c))));
            }
        }
        // every position of a multi-element path at the limit: value form (round-trip oracle) and text form
        for (i, p) in limit_paths().iter().enumerate() {
            out.push("reset".into());
            out.push(format!("rt {}", path_out(p)));
            if i % 3 == 0 {
                let text = String::from(p);
                out.push(format!("parse {}", shex(&text)));
                out.push(format!("parsenr {}", shex(&text)));
            }
        }
        // token length limit: 255 / 256 / 257 bytes, ASCII and multi-byte
        for k in [253usize, 254, 255, 256] {
            out.push("reset".into());
            out.push(format!("parse {}", shex(&format!("/{}", "a".repeat(k)))));
            out.push(format!("parse {}", shex(&format!("/{}é", "a".repeat(k - 1)))));
            out.push(format!("parse {}", shex(&format!("/x/{}", "a".repeat(k)))));
        }
        for _ in 0..n {
            out.push("reset".into());
            let len = rng.range(1, 4);
            for _ in 0..len {
                if rng.chance(3, 5) {
                    out.push(format!("rt {}", path_out(&gen_path(rng))));
                } else {
                    // malformed stream: mutations of printed paths and of the hand-written texts
                    let base = if rng.chance(2, 3) {
                        let p = gen_path(rng);
                        catch_unwind(AssertUnwindSafe(|| String::from(&p))).unwrap_or_else(|_| "/x".to_string())
                    } else {
                        rng.pick(HAND_WRITTEN).to_string()
                    };
                    let mut s = base;
                    let k = rng.range(0, 3);
                    for _ in 0..k {
                        s = mutate(rng, &s);
                    }
                    out.push(format!("parse {}", shex(&s)));
                    // the same text through the two other public entry points
                    if rng.chance(1, 3) {
                        out.push(format!("parsenr {}", shex(&s)));
                    }
                    if rng.chance(1, 3) {
                        out.push(format!("elem {}", shex(&s)));
                    }
                }
            }
        }
    }

    fn runner(&self) -> Box<dyn Runner> {
        Box::new(R)
    }
}

struct R;

fn parse(s: &str) -> Result<RelativePath, ()> {
    RelativePath::from_str(s, &RelativePathElement::default_node_resolver)
}

impl Runner for R {
    fn step(&mut self, toks: &[&str]) -> (String, Verdict) {
        let bad = || ("bad-op".to_string(), Verdict::Ok);
        match toks {
            ["reset"] => ("ok".into(), Verdict::Ok),
            ["rt", p] => {
                let Some(p) = tree_of(p).and_then(|t| path_of(&t)) else { return bad() };
                let f = features(&p);
                let class = if f.is_empty() { "plain".to_string() } else { f.join("+") };
                // more than 32 elements is outside the property's quantifier: compared with the model, not judged
                // so is an element whose own text form (as the crate prints it) exceeds the 256-byte token limit
                let too_long = p.elements.as_ref().map_or(false, |es| {
                    es.iter().any(|e| catch_unwind(AssertUnwindSafe(|| String::from(e).len() > 256)).unwrap_or(false))
                });
                let outside = f.contains(&"too-many") || too_long;
                let printed = match catch_unwind(AssertUnwindSafe(|| String::from(&p))) {
                    Err(_) => return ("panic".into(), Verdict::fail("no_panic", &class, "String::from(&path) panicked")),
                    Ok(s) => s,
                };
                match catch_unwind(AssertUnwindSafe(|| parse(&printed))) {
                    Err(_) => ("panic".into(), Verdict::fail("no_panic", &class, format!("parsing {:?} panicked", printed))),
                    Ok(Ok(q)) => {
                        let same = q == p;
                        let v = if same || outside { Verdict::Ok } else { Verdict::fail("roundtrip", &class, format!("{:?} parsed to {}", printed, path_out(&q))) };
                        (format!("ok p={} r={}", shex(&printed), path_out(&q)), v)
                    }
                    Ok(Err(_)) => (
                        format!("ok p={} r=err", shex(&printed)),
                        if outside { Verdict::Ok } else { Verdict::fail("roundtrip", &class, format!("{:?} does not parse", printed)) },
                    ),
                }
            }
            ["parsenr", s] => {
                let Some(s) = sunhex(s) else { return bad() };
                let none = |_: u16, _: &str| -> Option<NodeId> { None };
                match catch_unwind(AssertUnwindSafe(|| RelativePath::from_str(&s, &none))) {
                    Err(_) => ("panic".into(), Verdict::fail("no_panic", "parsenr", format!("parsing {:?} panicked", s))),
                    Ok(Ok(q)) => (format!("ok {}", path_out(&q)), Verdict::Ok),
                    Ok(Err(_)) => ("err".into(), Verdict::Ok),
                }
            }
            ["elem", s] => {
                let Some(s) = sunhex(s) else { return bad() };
                match catch_unwind(AssertUnwindSafe(|| RelativePathElement::from_str(&s, &RelativePathElement::default_node_resolver))) {
                    Err(_) => ("panic".into(), Verdict::fail("no_panic", "elem", format!("parsing {:?} panicked", s))),
                    Ok(Ok(e)) => (format!("ok {}", tree_out(&elem_tree(&e))), Verdict::Ok),
                    Ok(Err(_)) => ("err".into(), Verdict::Ok),
                }
            }
            ["parse", s] => {
                let Some(s) = sunhex(s) else { return bad() };
                match catch_unwind(AssertUnwindSafe(|| parse(&s))) {
                    Err(_) => ("panic".into(), Verdict::fail("no_panic", "parse", format!("parsing {:?} panicked", s))),
                    Ok(Ok(q)) => (format!("ok {}", path_out(&q)), Verdict::Ok),
                    Ok(Err(_)) => ("err".into(), Verdict::Ok),
                }
            }
            _ => bad(),
        }
    }
}
