//! C15 — no service is processed before the handshake or after channel close.
use crate::common::*;
use crate::props::c11;
use crate::props::c12::{self, srv_conn};
use opcua::core::comms::chunker::Chunker;
use opcua::core::comms::message_chunk::MessageIsFinalType;
use opcua::core::comms::tcp_types::HelloMessage;
use opcua::server::comms::tcp_transport::TcpTransport;
use opcua::types::*;
use bytes::BytesMut;
use opcua::core::comms::tcp_codec::{Message, TcpCodec};
use parking_lot::RwLock;
use std::sync::Arc;
use tokio::io::{AsyncReadExt, AsyncWriteExt};
use tokio_util::codec::Decoder;

pub struct C15;
pub static P: C15 = C15;

pub fn hello_of(kind: &str) -> Option<HelloMessage> {
    let url = c12::endpoint_url();
    Some(match kind {
        "valid" => c12::hello(),
        "badurl" => HelloMessage::new(&format!("{}no/such/endpoint", url), 65536, 65536, 0, 0),
        "smallbuf" => HelloMessage::new(&url, 100, 100, 0, 0),
        "proto1" => {
            let mut h = c12::hello();
            h.protocol_version = 1;
            h
        }
        _ => return None,
    })
}


/// bytes of the frames of a `sock` op (`hel.valid`, `ack`, `ch.<ty>.<c:s:r>.<F|C|A>.<size>.<rk>.<mal>`);
/// the flag says whether the client waits for an answer after the frame
fn sock_frames(specs: &str) -> Option<Vec<(Vec<u8>, bool, bool)>> {
    let l = srv_conn::lens();
    let mut out = Vec::new();
    // the body stream of the pending message, as `srv_conn::Conn` lays it out (pending is empty at
    // the start and after every final / abort chunk)
    let (mut stream, mut off, mut empty) = (Vec::new(), 0usize, true);
    for sp in specs.split(',') {
        let p: Vec<&str> = sp.split('.').collect();
        match p.as_slice() {
            ["hel", k] => {
                let mut h = hello_of(k)?;
                h.message_header.message_size = h.byte_len() as u32;
                let mut c = std::io::Cursor::new(Vec::new());
                h.encode(&mut c).ok()?;
                out.push((c.into_inner(), true, false));
            }
            ["ack"] => {
                let e = opcua::core::comms::tcp_types::ErrorMessage::from_status_code(StatusCode::BadCommunicationError);
                let mut c = std::io::Cursor::new(Vec::new());
                e.encode(&mut c).ok()?;
                out.push((c.into_inner(), true, false));
            }
            ["ch", ty, ci, f, n, rk, mal] => {
                let c = c12::parse_ci(ci)??;
                let fin = c12::fin_of(f)?;
                let size: usize = n.parse().ok()?;
                let req = srv_conn::request_bytes(rk)?;
                if size < srv_conn::overhead(&l, ty) {
                    return None;
                }
                if empty {
                    stream = req;
                    off = 0;
                }
                let blen = size - srv_conn::overhead(&l, ty);
                let body: Vec<u8> = (off..off + blen).map(|i| *stream.get(i).unwrap_or(&0)).collect();
                off += blen;
                empty = fin != MessageIsFinalType::Intermediate;
                let chunk = srv_conn::build_chunk(&l, ty, c, fin, size, &body, mal)?;
                out.push((chunk.data, fin == MessageIsFinalType::Final, *ty == "opn"));
            }
            _ => return None,
        }
    }
    Some(out)
}

/// The REAL connection: `TcpTransport::run` on one end of a loopback socket, the frames written to
/// the other end one at a time; after each frame that can be answered the client waits for one
/// response frame or for the server to close the connection.
async fn sock_run(frames: Vec<(Vec<u8>, bool, bool)>, mc: usize, mm: usize) -> Vec<String> {
    let listener = tokio::net::TcpListener::bind("127.0.0.1:0").await.expect("bind");
    let addr = listener.local_addr().unwrap();
    let mut client = tokio::net::TcpStream::connect(addr).await.expect("connect");
    let (server_sock, _) = listener.accept().await.expect("accept");
    let t0 = c12::new_transport();
    {
        let sc = t0.verif_secure_channel();
        let mut sc = sc.write();
        let mut o = sc.decoding_options();
        o.max_chunk_count = mc;
        o.max_message_size = mm;
        sc.set_decoding_options(o);
    }
    let transport = Arc::new(RwLock::new(t0));
    TcpTransport::run(transport.clone(), server_sock, 1000.0);
    let mut codec = TcpCodec::new(DecodingOptions::default());
    let sc = c11::client_channel(0, 0, true);
    let mut buf = BytesMut::new();
    let mut outs = Vec::new();
    let mut eof = false;
    for (f, wait, is_opn) in frames {
        if !wait {
            // a chunk that is not final: nothing comes back, do not wait
            if !eof && client.write_all(&f).await.is_err() {
                eof = true;
            }
            outs.push("-".to_string());
            continue;
        }
        if eof || client.write_all(&f).await.is_err() {
            eof = true;
            outs.push("eof".to_string());
            continue;
        }
        loop {
            match codec.decode(&mut buf) {
                Ok(Some(Message::Acknowledge(_))) => {
                    outs.push("ack".to_string());
                    break;
                }
                Ok(Some(Message::Chunk(c))) => {
                    let req = c.chunk_info(&sc).map(|i| i.sequence_header.request_id).unwrap_or(0);
                    match Chunker::decode(&[c], &sc, None) {
                        Ok(m) => outs.push(format!("{} req={}", srv_conn::response_name_for(&m, is_opn), req)),
                        Err(_) => outs.push("undecodable".to_string()),
                    }
                    break;
                }
                Ok(Some(_)) => {
                    outs.push("errframe".to_string());
                    break;
                }
                Ok(None) => {}
                Err(_) => {
                    outs.push("garbage".to_string());
                    eof = true;
                    break;
                }
            }
            match tokio::time::timeout(std::time::Duration::from_secs(10), client.read_buf(&mut buf)).await {
                Err(_) => {
                    outs.push("timeout".to_string());
                    eof = true;
                    break;
                }
                Ok(Ok(0)) | Ok(Err(_)) => {
                    outs.push("eof".to_string());
                    eof = true;
                    break;
                }
                Ok(Ok(_)) => {}
            }
        }
    }
    drop(client);
    outs
}

// ------------------------------------------------------------------------------------------------

impl Prop for C15 {
    fn id(&self) -> &'static str {
        "C15"
    }

    fn gen(&self, rng: &mut Rng, n: usize, tier: Tier, out: &mut Vec<String>) {
        let l = srv_conn::lens();
        srv_conn::gen_systematic(&l, out);
        if tier == Tier::Thorough {
            // every sequence of up to 4 frames over {HEL, OPN issue, OPN renew, MSG, CLO, MSG 'C', OPN 'C', MSG 'A'}
            let alpha = ["hel", "oi", "or", "msg", "clo", "msgC", "opnC", "msgA"];
            for len in 1..=4usize {
                for code in 0..alpha.len().pow(len as u32) {
                    out.push(srv_conn::reset_line(0, 0));
                    let (mut k, mut seq, mut chan, mut opened) = (code, 1u64, 0u64, false);
                    for _ in 0..len {
                        let a = alpha[k % alpha.len()];
                        k /= alpha.len();
                        let ci = format!("{}:{}:{}", chan, seq, 40 + seq);
                        let line = match a {
                            "hel" => "hel valid".to_string(),
                            "oi" => format!("ch opn {} F {} oi ok", ci, l.ov_opn + l.opn),
                            "or" => format!("ch opn {} F {} or ok", ci, l.ov_opn + l.opn),
                            "msg" => format!("ch msg {} F {} ge ok", ci, 24 + l.ge),
                            "clo" => format!("ch clo {} F {} cl ok", ci, 24 + l.clo),
                            "msgC" => format!("ch msg {} C {} ge ok", ci, 24 + 10),
                            "opnC" => format!("ch opn {} C {} oi ok", ci, l.ov_opn + 10),
                            _ => format!("ch msg {} A {} ge ok", ci, 24),
                        };
                        if a != "hel" {
                            seq += 1;
                        }
                        if a == "oi" {
                            chan = if opened { chan + 1 } else { 1 };
                            opened = true;
                        }
                        out.push(line);
                    }
                }
            }
        }
        for i in 0..n {
            out.push(srv_conn::reset_line(*rng.pick(&[0u64, 0, 5]), 0));
            // one case in 10 goes over a real loopback socket through TcpTransport::run
            let over_socket = i % 10 == 7;
            let start = out.len();
            srv_conn::gen_case(rng, &l, srv_conn::Profile::Ordering, 0, 0, tier == Tier::Thorough, out);
            if over_socket {
                let frames: Vec<String> = out.drain(start..).filter(|l| !l.starts_with("setlast"))
                    // (a size field that differs from the frame length desynchronises a byte stream: not a frame)
                    .map(|l| l.replace(" badsize", " ok").replace(' ', "."))
                    .collect();
                if !frames.is_empty() {
                    out.push(format!("sock {}", frames.join(",")));
                }
            }
        }
    }

    fn runner(&self) -> Box<dyn Runner> {
        Box::new(R { conn: None, acked: false, opened: false, clo_seen: false })
    }
}

struct R {
    conn: Option<srv_conn::Conn>,
    // oracle bookkeeping, from the responses alone
    acked: bool,
    opened: bool,
    clo_seen: bool,
}

/// the property on a sequence of (frame description, what came back)
fn order_oracle(acked: &mut bool, opened: &mut bool, clo_seen: &mut bool, frame: &str, is_final_clo: bool, names: &[String]) -> Verdict {
    let class = if !*acked {
        "before-hello"
    } else if *clo_seen {
        "after-close"
    } else if !*opened {
        "before-open"
    } else {
        "open"
    };
    let mut v = Verdict::Ok;
    for name in names {
        if name == "eof" || name == "-" {
            continue;
        }
        if *clo_seen {
            v = Verdict::fail("nothing_after_close", class, format!("{} answered with {}", frame, name));
            break;
        }
        if !*acked && name != "ack" {
            v = Verdict::fail("only_hello_first", class, format!("{} answered with {}", frame, name));
            break;
        }
        if name.starts_with("service") && !*opened {
            v = Verdict::fail("no_service_before_open", class, format!("{} answered with {}", frame, name));
            break;
        }
        if name == "ack" {
            *acked = true;
        }
        if name.starts_with("opn") {
            *opened = true;
        }
    }
    if is_final_clo && *acked {
        *clo_seen = true;
    }
    v
}

impl Runner for R {
    fn step(&mut self, toks: &[&str]) -> (String, Verdict) {
        if let ["reset", "conn", mc, mm, ..] = toks {
            self.conn = Some(srv_conn::Conn::new(mc.parse().unwrap_or(0), mm.parse().unwrap_or(0)));
            return ("ok".to_string(), Verdict::Ok);
        }
        if let ["sock", specs] = toks {
            let Some(frames) = sock_frames(specs) else {
                return ("bad-op".to_string(), Verdict::Ok);
            };
            let rt = tokio::runtime::Builder::new_current_thread().enable_all().build().unwrap();
            let (mc, mm) = self.conn.as_ref().map(|c| (c.max_chunks, c.max_msg)).unwrap_or((0, 0));
            let outs = rt.block_on(sock_run(frames, mc, mm));
            drop(rt);
            let (mut acked, mut opened, mut clo) = (false, false, false);
            let mut v = Verdict::Ok;
            for (sp, o) in specs.split(',').zip(outs.iter()) {
                if o == "timeout" || o == "garbage" || o == "undecodable" || o == "errframe" {
                    v = Verdict::fail("socket_protocol", "-", format!("{} -> {}", sp, o));
                    break;
                }
                let p: Vec<&str> = sp.split('.').collect();
                let final_clo = p.len() == 7 && p[1] == "clo" && p[3] == "F";
                let r = order_oracle(&mut acked, &mut opened, &mut clo, sp, final_clo, &[o.clone()]);
                if let Verdict::Fail { .. } = r {
                    v = r;
                    break;
                }
            }
            let names: Vec<String> = outs.iter().map(|o| o.replace(' ', "_")).collect();
            return (format!("ok [{}]", names.join(",")), v);
        }
        let Some(conn) = self.conn.as_mut() else {
            return ("bad-op".to_string(), Verdict::Ok);
        };
        let Some((line, info)) = conn.step(toks) else {
            return ("bad-op".to_string(), Verdict::Ok);
        };
        let frame = toks.join(" ");
        let final_clo = matches!(&info.chunk, Some((ty, _, fin, _)) if ty == "clo" && *fin == MessageIsFinalType::Final) && !info.was_closed;
        let mut v = order_oracle(&mut self.acked, &mut self.opened, &mut self.clo_seen, &frame, final_clo, &info.responses);
        if let Verdict::Ok = v {
            if info.err.is_some() && !info.responses.is_empty() {
                v = Verdict::fail("error_without_answer", "-", "a frame that closed the connection was also answered");
            }
        }
        (line, v)
    }
}
