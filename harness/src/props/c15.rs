//! C15 — no service is processed before the handshake or after channel close.
use crate::common::*;
use crate::props::c11;
use crate::props::c12::{self, CI};
use opcua::core::comms::chunker::Chunker;
use opcua::core::comms::message_chunk::MessageChunk;
use opcua::core::comms::tcp_types::HelloMessage;
use opcua::core::supported_message::SupportedMessage;
use opcua::server::comms::tcp_transport::TcpTransport;
use opcua::types::*;
use bytes::BytesMut;
use opcua::core::comms::tcp_codec::{Message, TcpCodec};
use parking_lot::RwLock;
use std::sync::Arc;
use tokio::io::{AsyncReadExt, AsyncWriteExt};
use tokio_util::codec::Decoder;

pub struct C15;
pub static P: C15 = C15;

pub fn service_chunk(kind: &str, c: CI) -> Option<MessageChunk> {
    let msg: SupportedMessage = match kind {
        "ge" => GetEndpointsRequest {
            request_header: RequestHeader::new(&NodeId::null(), &DateTime::null(), 2),
            endpoint_url: UAString::from(c12::endpoint_url()),
            locale_ids: None,
            profile_uris: None,
        }
        .into(),
        "cs" => CreateSessionRequest {
            request_header: RequestHeader::new(&NodeId::null(), &DateTime::null(), 3),
            client_description: ApplicationDescription {
                application_uri: UAString::from("urn:verif"),
                product_uri: UAString::from("urn:verif"),
                application_name: LocalizedText::from("verif"),
                application_type: ApplicationType::Client,
                gateway_server_uri: UAString::null(),
                discovery_profile_uri: UAString::null(),
                discovery_urls: None,
            },
            server_uri: UAString::null(),
            endpoint_url: UAString::from(c12::endpoint_url()),
            session_name: UAString::from("verif"),
            client_nonce: ByteString::from(vec![7u8; 32]),
            client_certificate: ByteString::null(),
            requested_session_timeout: 60000.0,
            max_response_message_size: 0,
        }
        .into(),
        "clo" => CloseSecureChannelRequest {
            request_header: RequestHeader::new(&NodeId::null(), &DateTime::null(), 4),
        }
        .into(),
        _ => return None,
    };
    let sc = c11::client_channel(c.chan, 1, true);
    let mut chunks = Chunker::encode(c.seq, c.req, 0, 0, &sc, &msg).ok()?;
    if chunks.len() != 1 {
        return None;
    }
    chunks.pop()
}

pub fn hello_of(kind: &str) -> Option<HelloMessage> {
    let url = c12::endpoint_url();
    Some(match kind {
        "valid" => c12::hello(),
        "badurl" => HelloMessage::new(&format!("{}no/such/endpoint", url), 65536, 65536, 0, 0),
        "smallbuf" => HelloMessage::new(&url, 100, 100, 0, 0),
        "proto1" => {
            let mut h = c12::hello();
            h.protocol_version = 1;
            h
        }
        _ => return None,
    })
}

pub fn response_name(m: &SupportedMessage) -> String {
    match m {
        SupportedMessage::AcknowledgeMessage(_) => "ack".to_string(),
        SupportedMessage::OpenSecureChannelResponse(r) => {
            format!("opn chan={} token={}", r.security_token.channel_id, r.security_token.token_id)
        }
        SupportedMessage::GetEndpointsResponse(_) => "service GetEndpointsResponse".to_string(),
        SupportedMessage::CreateSessionResponse(_) => "service CreateSessionResponse".to_string(),
        SupportedMessage::ServiceFault(f) => format!("service ServiceFault:{}", f.response_header.service_result.name()),
        _ => "service other".to_string(),
    }
}

/// bytes of one frame given as dotted tokens (`hel.valid`, `ack`, `opn.issue.c:s:r`, `msg.ge.c:s:r`, `clo.c:s:r`)
fn frame_bytes(spec: &str) -> Option<Vec<u8>> {
    let p: Vec<&str> = spec.split('.').collect();
    let enc = |m: &dyn Fn(&mut std::io::Cursor<Vec<u8>>)| {
        let mut c = std::io::Cursor::new(Vec::new());
        m(&mut c);
        c.into_inner()
    };
    match p.as_slice() {
        ["hel", k] => {
            let mut h = hello_of(k)?;
            // HelloMessage::new computed the size before a protocol version change; it is unaffected
            h.message_header.message_size = h.byte_len() as u32;
            Some(enc(&|c| {
                h.encode(c).unwrap();
            }))
        }
        ["ack"] => {
            let e = opcua::core::comms::tcp_types::ErrorMessage::from_status_code(StatusCode::BadCommunicationError);
            Some(enc(&|c| {
                e.encode(c).unwrap();
            }))
        }
        ["opn", ty, ci] => {
            let c = c12::parse_ci(ci)??;
            if *ty != "issue" && *ty != "renew" {
                return None;
            }
            Some(c12::open_request_chunks(c.seq, c.req, c.chan, *ty == "renew").pop()?.data)
        }
        ["msg", k, ci] => Some(service_chunk(k, c12::parse_ci(ci)??)?.data),
        ["clo", ci] => Some(service_chunk("clo", c12::parse_ci(ci)??)?.data),
        _ => None,
    }
}

/// The REAL connection: `TcpTransport::run` on one end of a loopback socket, the frames written to
/// the other end one at a time; after each frame the client waits for one response frame or for
/// the server to close the connection.
async fn sock_run(frames: Vec<Vec<u8>>) -> Vec<String> {
    let listener = tokio::net::TcpListener::bind("127.0.0.1:0").await.expect("bind");
    let addr = listener.local_addr().unwrap();
    let mut client = tokio::net::TcpStream::connect(addr).await.expect("connect");
    let (server_sock, _) = listener.accept().await.expect("accept");
    let transport = Arc::new(RwLock::new(c12::new_transport()));
    TcpTransport::run(transport.clone(), server_sock, 1000.0);
    let mut codec = TcpCodec::new(DecodingOptions::default());
    let sc = c11::client_channel(0, 0, true);
    let mut buf = BytesMut::new();
    let mut outs = Vec::new();
    let mut eof = false;
    for f in frames {
        if eof || client.write_all(&f).await.is_err() {
            eof = true;
            outs.push("eof".to_string());
            continue;
        }
        loop {
            match codec.decode(&mut buf) {
                Ok(Some(Message::Acknowledge(_))) => {
                    outs.push("ack".to_string());
                    break;
                }
                Ok(Some(Message::Chunk(c))) => {
                    let req = c.chunk_info(&sc).map(|i| i.sequence_header.request_id).unwrap_or(0);
                    match Chunker::decode(&[c], &sc, None) {
                        Ok(m) => outs.push(format!("{} req={}", response_name(&m), req)),
                        Err(_) => outs.push("undecodable".to_string()),
                    }
                    break;
                }
                Ok(Some(_)) => {
                    outs.push("errframe".to_string());
                    break;
                }
                Ok(None) => {}
                Err(_) => {
                    outs.push("garbage".to_string());
                    eof = true;
                    break;
                }
            }
            match tokio::time::timeout(std::time::Duration::from_secs(10), client.read_buf(&mut buf)).await {
                Err(_) => {
                    outs.push("timeout".to_string());
                    eof = true;
                    break;
                }
                Ok(Ok(0)) | Ok(Err(_)) => {
                    outs.push("eof".to_string());
                    eof = true;
                    break;
                }
                Ok(Ok(_)) => {}
            }
        }
    }
    drop(client);
    outs
}

// ------------------------------------------------------------------------------------------------

fn gen_ci(rng: &mut Rng, chan: u64, seq: u64) -> String {
    let c = if rng.chance(1, 12) { *rng.pick(&[0u64, 1, 2]) } else { chan };
    let s = if rng.chance(1, 12) { (seq as i64 + rng.range(-2, 1)).max(0) as u64 } else { seq };
    format!("{}:{}:{}", c, s, 10 + rng.below(90))
}

fn gen_frame(rng: &mut Rng, ws: &[u32], chan: &mut u64, seq: &mut u64, opened: &mut bool) -> String {
    let line = match rng.weighted(ws) {
        0 => format!("hel {}", *rng.pick(&["valid", "valid", "valid", "valid", "badurl", "smallbuf", "proto1"])),
        1 => "ack".to_string(),
        2 => {
            let l = format!("opn issue {}", gen_ci(rng, *chan, *seq));
            l
        }
        3 => format!("opn renew {}", gen_ci(rng, *chan, *seq)),
        4 => format!("msg ge {}", gen_ci(rng, *chan, *seq)),
        5 => format!("msg cs {}", gen_ci(rng, *chan, *seq)),
        _ => format!("clo {}", gen_ci(rng, *chan, *seq)),
    };
    if !line.starts_with("hel") && line != "ack" {
        *seq += 1;
    }
    if line.starts_with("opn issue") {
        // the generator's guess of the channel id the server will hand out next
        *chan = if *opened { *chan + 1 } else { 1 };
        *opened = true;
    }
    line
}

impl Prop for C15 {
    fn id(&self) -> &'static str {
        "C15"
    }

    fn gen(&self, rng: &mut Rng, n: usize, tier: Tier, out: &mut Vec<String>) {
        if tier == Tier::Thorough {
            // every sequence of up to 4 frames over the alphabet {HEL, OPN issue, MSG, CLO} with consistent numbering
            let alpha = ["hel valid", "opn issue", "msg ge", "clo", "opn renew"];
            for len in 1..=4usize {
                for code in 0..alpha.len().pow(len as u32) {
                    out.push("reset".to_string());
                    let (mut k, mut seq, mut chan, mut opened) = (code, 1u64, 0u64, false);
                    for _ in 0..len {
                        let a = alpha[k % alpha.len()];
                        k /= alpha.len();
                        if a == "hel valid" {
                            out.push(a.to_string());
                        } else {
                            out.push(format!("{} {}:{}:{}", a, chan, seq, 40 + seq));
                            seq += 1;
                            if a == "opn issue" {
                                chan = if opened { chan + 1 } else { 1 };
                                opened = true;
                            }
                        }
                    }
                }
            }
        }
        for i in 0..n {
            out.push("reset".to_string());
            let (mut chan, mut seq, mut opened) = (0u64, 1u64, false);
            // one case in 10 goes over a real loopback socket through TcpTransport::run
            let over_socket = i % 10 == 7;
            let start = out.len();
            match rng.below(3) {
                0 => {
                    // orderly: HEL, OPN, then mostly services
                    out.push("hel valid".to_string());
                    out.push(gen_frame(rng, &[0, 0, 1], &mut chan, &mut seq, &mut opened));
                    for _ in 0..rng.range(1, 8) {
                        out.push(gen_frame(rng, &[1, 1, 2, 4, 12, 2, 2], &mut chan, &mut seq, &mut opened));
                    }
                }
                1 => {
                    // HEL first, then anything
                    out.push("hel valid".to_string());
                    for _ in 0..rng.range(1, 7) {
                        out.push(gen_frame(rng, &[1, 1, 4, 3, 6, 1, 3], &mut chan, &mut seq, &mut opened));
                    }
                }
                _ => {
                    for _ in 0..rng.range(1, 6) {
                        out.push(gen_frame(rng, &[4, 1, 3, 2, 4, 1, 2], &mut chan, &mut seq, &mut opened));
                    }
                }
            }
            if over_socket {
                let frames: Vec<String> = out.drain(start..).map(|l| l.replace(' ', ".")).collect();
                out.push(format!("sock {}", frames.join(",")));
            }
        }
    }

    fn runner(&self) -> Box<dyn Runner> {
        Box::new(R { t: c12::new_transport(), phase: 0, acked: false, opened: false, clo_seen: false })
    }
}

struct R {
    t: TcpTransport,
    /// the reading loop of `spawn_reading_loop_task`, restated: 0 = waiting for HEL, 1 = reading
    /// chunks, 2 = loop ended
    phase: u8,
    // oracle bookkeeping, from the responses alone
    acked: bool,
    opened: bool,
    clo_seen: bool,
}

impl R {
    /// the property, on what the connection answered to this frame
    fn oracle(&mut self, frame: &str, responses: &[(u32, SupportedMessage)]) -> Verdict {
        let class = if !self.acked {
            "before-hello"
        } else if self.clo_seen {
            "after-close"
        } else if !self.opened {
            "before-open"
        } else {
            "open"
        };
        for (_, m) in responses {
            let name = response_name(m);
            if self.clo_seen {
                return Verdict::fail("nothing_after_close", class, format!("{} answered with {}", frame, name));
            }
            if !self.acked && name != "ack" {
                return Verdict::fail("only_hello_first", class, format!("{} answered with {}", frame, name));
            }
            if name.starts_with("service") && !self.opened {
                return Verdict::fail("no_service_before_open", class, format!("{} answered with {}", frame, name));
            }
            if name == "ack" {
                self.acked = true;
            }
            if name.starts_with("opn") {
                self.opened = true;
            }
        }
        Verdict::Ok
    }
}

impl Runner for R {
    fn step(&mut self, toks: &[&str]) -> (String, Verdict) {
        if toks == ["reset"] {
            return ("ok".to_string(), Verdict::Ok);
        }
        if let ["sock", specs] = toks {
            let mut frames = Vec::new();
            for sp in specs.split(',') {
                match frame_bytes(sp) {
                    Some(f) => frames.push(f),
                    None => return ("bad-op".to_string(), Verdict::Ok),
                }
            }
            let rt = tokio::runtime::Builder::new_current_thread().enable_all().build().unwrap();
            let outs = rt.block_on(sock_run(frames));
            drop(rt);
            // the property on what came back over the socket
            let (mut acked, mut opened, mut clo) = (false, false, false);
            let mut v = Verdict::Ok;
            for (sp, o) in specs.split(',').zip(outs.iter()) {
                let class = if !acked { "before-hello" } else if clo { "after-close" } else if !opened { "before-open" } else { "open" };
                if o == "timeout" || o == "garbage" || o == "undecodable" || o == "errframe" {
                    v = Verdict::fail("socket_protocol", class, format!("{} -> {}", sp, o));
                    break;
                }
                if o != "eof" {
                    if clo {
                        v = Verdict::fail("nothing_after_close", class, format!("{} answered with {}", sp, o));
                        break;
                    }
                    if !acked && o != "ack" {
                        v = Verdict::fail("only_hello_first", class, format!("{} answered with {}", sp, o));
                        break;
                    }
                    if o.starts_with("service") && !opened {
                        v = Verdict::fail("no_service_before_open", class, format!("{} answered with {}", sp, o));
                        break;
                    }
                }
                if o == "ack" {
                    acked = true;
                }
                if o.starts_with("opn") {
                    opened = true;
                }
                if sp.starts_with("clo") && acked {
                    clo = true;
                }
            }
            let names: Vec<String> = outs.iter().map(|o| o.replace(' ', "_")).collect();
            return (format!("ok [{}]", names.join(",")), v);
        }
        let frame = toks.join(" ");
        // build the frame first (bad-op must not depend on the state)
        enum F {
            Hello(HelloMessage),
            Other,
            Chunk(MessageChunk, u32),
        }
        let f = match toks {
            ["hel", k] => match hello_of(k) {
                Some(h) => F::Hello(h),
                None => return ("bad-op".to_string(), Verdict::Ok),
            },
            ["ack"] => F::Other,
            ["opn", ty, ci] => match (c12::parse_ci(ci), *ty) {
                (Some(Some(c)), "issue") | (Some(Some(c)), "renew") => {
                    F::Chunk(c12::open_request_chunks(c.seq, c.req, c.chan, *ty == "renew").pop().unwrap(), c.req)
                }
                _ => return ("bad-op".to_string(), Verdict::Ok),
            },
            ["msg", k, ci] => match c12::parse_ci(ci) {
                Some(Some(c)) => match service_chunk(k, c) {
                    Some(ch) => F::Chunk(ch, c.req),
                    None => return ("bad-op".to_string(), Verdict::Ok),
                },
                _ => return ("bad-op".to_string(), Verdict::Ok),
            },
            ["clo", ci] => match c12::parse_ci(ci) {
                Some(Some(c)) => F::Chunk(service_chunk("clo", c).unwrap(), c.req),
                _ => return ("bad-op".to_string(), Verdict::Ok),
            },
            _ => return ("bad-op".to_string(), Verdict::Ok),
        };
        if self.phase == 2 {
            return ("err closed".to_string(), Verdict::Ok);
        }
        let is_clo = toks[0] == "clo";
        let (responses, result): (Vec<(u32, SupportedMessage)>, Result<(), StatusCode>) = match (self.phase, f) {
            (0, F::Hello(h)) => self.t.verif_process_hello(h, 65536, 65536),
            (0, _) => (vec![], Err(StatusCode::BadCommunicationError)), // wait_for_hello: "Expected a hello message"
            (_, F::Chunk(c, _)) => self.t.verif_process_chunk(c),
            (_, _) => (vec![], Err(StatusCode::BadCommunicationError)), // "Received unexpected message"
        };
        let v = self.oracle(&frame, &responses);
        if is_clo && self.phase == 1 {
            self.clo_seen = true;
        }
        let line = match &result {
            Err(e) => {
                self.phase = 2;
                format!("err {}", e.name())
            }
            Ok(()) => {
                if self.phase == 0 {
                    self.phase = 1;
                }
                match responses.first() {
                    None => "ok none".to_string(),
                    Some((id, m)) => {
                        let n = response_name(m);
                        if n == "ack" {
                            "ok ack".to_string()
                        } else {
                            format!("ok {} req={}", n, id)
                        }
                    }
                }
            }
        };
        let v = match v {
            Verdict::Ok if result.is_err() && !responses.is_empty() => {
                Verdict::fail("error_without_answer", "-", "a frame that closed the connection was also answered")
            }
            v => v,
        };
        (line, v)
    }
}
