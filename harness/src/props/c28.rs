//! C28 — the reference index always matches the set of references.
//!
//! Runs the real `References` (lib/src/server/address_space/references.rs).  The oracle keeps the
//! set of (source, type, target) triples that were added and not removed — nothing else — and
//! compares every forward / inverse / existence query of the implementation with it.
use crate::common::*;
use opcua::server::address_space::references::{Reference, ReferenceDirection, References};
use opcua::types::BrowseDirection;
use opcua::types::NodeId;
use std::collections::BTreeSet;

pub struct C28;
pub static P: C28 = C28;

/// observation universe (must equal `obsNodes` / `obsTypes` of Drv/C28.lean)
pub const OBS_NODES: [u32; 8] = [44, 46, 47, 100, 101, 102, 103, 104];
pub const OBS_TYPES: [u32; 5] = [35, 44, 45, 46, 47];
const HAS_SUBTYPE: u32 = 45;

/// token → node id: small numbers are namespace-0 ids (reference types), the rest namespace 1
pub fn nid(n: u32) -> NodeId {
    NodeId::new(if n < 100 { 0 } else { 1 }, n)
}

pub fn tok(n: &NodeId) -> u32 {
    match &n.identifier {
        opcua::types::Identifier::Numeric(v) => *v,
        _ => u32::MAX,
    }
}

type Triple = (u32, u32, u32); // (source, type, target)

pub fn show_triples(v: &[Triple]) -> String {
    let s: Vec<String> = v.iter().map(|(a, t, b)| format!("{}>{}>{}", a, t, b)).collect();
    format!("[{}]", s.join(","))
}

pub fn obs_fwd(r: &References) -> Vec<Triple> {
    let mut out = Vec::new();
    for a in OBS_NODES {
        if let Some(l) = r.find_references(&nid(a), None::<(NodeId, bool)>) {
            let mut v: Vec<(u32, u32)> = l.iter().map(|x| (tok(&x.reference_type), tok(&x.target_node))).collect();
            v.sort();
            out.extend(v.into_iter().map(|(t, b)| (a, t, b)));
        }
    }
    out
}

pub fn obs_inv(r: &References) -> Vec<Triple> {
    let mut out = Vec::new();
    for b in OBS_NODES {
        if let Some(l) = r.find_inverse_references(&nid(b), None::<(NodeId, bool)>) {
            let mut v: Vec<(u32, u32)> = l.iter().map(|x| (tok(&x.reference_type), tok(&x.target_node))).collect();
            v.sort();
            out.extend(v.into_iter().map(|(t, a)| (a, t, b)));
        }
    }
    out
}

pub fn obs_has(r: &References) -> Vec<Triple> {
    let mut out = Vec::new();
    for a in OBS_NODES {
        for t in OBS_TYPES {
            for b in OBS_NODES {
                if r.has_reference(&nid(a), &nid(b), nid(t)) {
                    out.push((a, t, b));
                }
            }
        }
    }
    out
}

/// The property on the observations: all three views equal the set of live triples.
pub fn check_views(set: &BTreeSet<Triple>, f: &[Triple], i: &[Triple], h: &[Triple], class: &str) -> Verdict {
    let want: Vec<Triple> = set.iter().cloned().collect();
    if f != want.as_slice() {
        return Verdict::fail("forward", class, format!("find_references {} want {}", show_triples(f), show_triples(&want)));
    }
    let mut by_target = want.clone();
    by_target.sort_by_key(|(a, t, b)| (*b, *t, *a));
    if i != by_target.as_slice() {
        return Verdict::fail("inverse", class, format!("find_inverse_references {} want {}", show_triples(i), show_triples(&by_target)));
    }
    let in_universe: Vec<Triple> = want.iter().cloned().filter(|(_, t, _)| OBS_TYPES.contains(t)).collect();
    if h != in_universe.as_slice() {
        return Verdict::fail("has", class, format!("has_reference {} want {}", show_triples(h), show_triples(&in_universe)));
    }
    Verdict::Ok
}

/// `sub` is `ty` or reachable from it through live HasSubtype references (the specification of a
/// type filter with subtypes)
pub fn spec_type_matches(set: &BTreeSet<Triple>, ty: u32, sub: u32, incl: bool) -> bool {
    if ty == sub {
        return true;
    }
    if !incl {
        return false;
    }
    let mut seen = BTreeSet::new();
    let mut todo = vec![ty];
    while let Some(c) = todo.pop() {
        if !seen.insert(c) {
            continue;
        }
        for (a, t, b) in set.iter() {
            if *a == c && *t == HAS_SUBTYPE {
                if *b == sub {
                    return true;
                }
                todo.push(*b);
            }
        }
    }
    false
}

/// `[a>t>b,…]` → (source, type, target) triples
pub fn parse_triples(s: &str) -> Option<Vec<Triple>> {
    let inner = s.strip_prefix('[')?.strip_suffix(']')?;
    if inner.is_empty() {
        return Some(vec![]);
    }
    inner
        .split(',')
        .map(|e| {
            let v: Vec<&str> = e.split('>').collect();
            if v.len() != 3 {
                return None;
            }
            Some((v[0].parse().ok()?, v[1].parse().ok()?, v[2].parse().ok()?))
        })
        .collect()
}

/// `[node:t:inv,…]` → (node, type, inverse) entries
pub fn parse_entries(s: &str) -> Option<Vec<(u32, u32, bool)>> {
    let inner = s.strip_prefix('[')?.strip_suffix(']')?;
    if inner.is_empty() {
        return Some(vec![]);
    }
    inner
        .split(',')
        .map(|e| {
            let v: Vec<&str> = e.split(':').collect();
            if v.len() != 3 {
                return None;
            }
            Some((v[0].parse().ok()?, v[1].parse().ok()?, v[2] == "1"))
        })
        .collect()
}

pub fn parse_filter(s: &str) -> Option<Option<(u32, bool)>> {
    if s == "-" {
        return Some(None);
    }
    let (t, i) = s.split_once(':')?;
    Some(Some((t.parse().ok()?, match i { "1" => true, "0" => false, _ => return None })))
}

pub fn show_found(l: Option<Vec<Reference>>) -> (String, Vec<(u32, u32)>) {
    match l {
        None => ("ok -".to_string(), vec![]),
        Some(l) => {
            let mut v: Vec<(u32, u32)> = l.iter().map(|x| (tok(&x.reference_type), tok(&x.target_node))).collect();
            v.sort();
            let s: Vec<String> = v.iter().map(|(t, b)| format!("{}>{}", t, b)).collect();
            (format!("ok [{}]", s.join(",")), v)
        }
    }
}

impl Prop for C28 {
    fn id(&self) -> &'static str {
        "C28"
    }

    fn gen(&self, rng: &mut Rng, n: usize, tier: Tier, out: &mut Vec<String>) {
        // acyclic order for HasSubtype references between the reference type nodes
        let type_rank = [44u32, 47, 46];
        for _ in 0..n {
            out.push("reset".to_string());
            // a small universe makes collisions, duplicates and opposite pairs frequent
            let k = rng.range(2, 5) as usize;
            let mut nodes: Vec<u32> = (0..k).map(|i| 100 + i as u32).collect();
            if rng.chance(1, 3) {
                nodes.push(*rng.pick(&[44u32, 46, 47]));
            }
            let types = [35u32, 44, 46, 47];
            let max_len = if tier == Tier::Thorough { 80 } else { 40 };
            let len = rng.range(1, max_len);
            let mut live: Vec<Triple> = Vec::new(); // generator-side bias only
            // half of the cases start with a piece of the reference type hierarchy
            if rng.chance(1, 2) {
                let chain_only = rng.chance(1, 3);
                for (i, j) in [(0usize, 1usize), (0, 2), (1, 2)] {
                    if (chain_only && (i, j) != (0, 2)) || (!chain_only && rng.chance(2, 3)) {
                        live.push((type_rank[i], HAS_SUBTYPE, type_rank[j]));
                        out.push(format!("ins {} {} {}", type_rank[i], type_rank[j], HAS_SUBTYPE));
                    }
                }
            }
            let pair = |rng: &mut Rng, nodes: &[u32]| -> (u32, u32) {
                loop {
                    let a = *rng.pick(nodes);
                    let b = *rng.pick(nodes);
                    if a != b {
                        return (a, b);
                    }
                }
            };
            let self_ref_at_end = rng.chance(1, 40);
            for step in 0..=len {
                if step == len {
                    // the documented panic of insert_reference (ends the case: the rest would be skipped)
                    if self_ref_at_end {
                        let x = *rng.pick(&nodes);
                        out.push(format!("ins {} {} {}", x, x, rng.pick(&types)));
                    }
                    break;
                }
                match rng.weighted(&[10, 2, 6, 3, 2, 2, 2, 1, 2, 2, 1, 4, 2]) {
                    11 | 12 => {
                        // a batch: 0..5 entries, each either a live reference (a duplicate) or a fresh
                        // one; the positions of the duplicates are drawn so that existing entries sit
                        // first / in the middle / last and new entries follow existing ones
                        let k = *rng.pick(&[0usize, 1, 2, 2, 3, 3, 3, 4, 5]);
                        let pattern = rng.below(6); // 0 random, 1 dup first, 2 dup middle, 3 dup last, 4 all dup, 5 all new
                        let mut batch: Vec<Triple> = Vec::new();
                        for i in 0..k {
                            let want_dup = match pattern {
                                0 => rng.chance(1, 2),
                                1 => i == 0,
                                2 => i > 0 && i + 1 < k,
                                3 => i + 1 == k,
                                4 => true,
                                _ => false,
                            };
                            let plain: Vec<Triple> = live.iter().cloned().filter(|x| x.1 != HAS_SUBTYPE).collect();
                            let t3 = if want_dup && !plain.is_empty() {
                                *rng.pick(&plain)
                            } else if want_dup && !batch.is_empty() && rng.chance(1, 2) {
                                *rng.pick(&batch) // repeated inside the batch
                            } else {
                                let (a, b2) = pair(rng, &nodes);
                                (a, *rng.pick(&types), b2)
                            };
                            batch.push(t3);
                        }
                        if batch.is_empty() && rng.chance(1, 2) {
                            out.push(format!("insmany {} []", rng.pick(&nodes)));
                        } else if rng.chance(1, 2) || batch.is_empty() {
                            let l: Vec<String> = batch.iter().map(|(a, t, b2)| format!("{}>{}>{}", a, t, b2)).collect();
                            out.push(format!("insrefs [{}]", l.join(",")));
                            live.extend(batch.iter().cloned());
                        } else {
                            // the same batch seen from one node: entries that start at `src` are forward,
                            // entries that end there inverse, the others are re-anchored at `src`
                            let src = batch[0].0;
                            let mut l: Vec<String> = Vec::new();
                            for (a, t, b2) in batch.iter() {
                                if *a == src {
                                    l.push(format!("{}:{}:0", b2, t));
                                    live.push((src, *t, *b2));
                                } else if *b2 == src {
                                    l.push(format!("{}:{}:1", a, t));
                                    live.push((*a, *t, src));
                                } else {
                                    let inv = rng.chance(1, 2);
                                    l.push(format!("{}:{}:{}", a, t, b(inv)));
                                    live.push(if inv { (*a, *t, src) } else { (src, *t, *a) });
                                }
                            }
                            out.push(format!("insmany {} [{}]", src, l.join(",")));
                        }
                    }
                    8 => {
                        // insert with an explicit direction, sometimes a HasTypeDefinition reference
                        let (a, b2) = pair(rng, &nodes);
                        let t = if rng.chance(1, 3) { 40 } else { *rng.pick(&types) };
                        let inverse = rng.chance(1, 2);
                        live.push(if inverse { (b2, t, a) } else { (a, t, b2) });
                        out.push(format!("insd {} {} {} {}", a, b2, t, b(inverse)));
                    }
                    9 => {
                        let f = match rng.below(4) {
                            0 => "-".to_string(),
                            1 => format!("{}:0", rng.pick(&types)),
                            _ => format!("{}:1", if rng.chance(1, 2) { 44 } else { *rng.pick(&types) }),
                        };
                        let d = *rng.pick(&["f", "i", "b", "b", "x"]);
                        out.push(format!("bydir {} {} {}", rng.pick(&nodes), d, f));
                    }
                    10 => {
                        out.push(format!("typeid {}", rng.pick(&nodes)));
                    }
                    0 => {
                        // insert; often the opposite of / a duplicate of a live reference
                        let (a, t, b) = if !live.is_empty() && rng.chance(2, 5) {
                            let (a, t, b) = *rng.pick(&live);
                            match rng.below(3) {
                                0 => (b, t, a),
                                1 => (b, *rng.pick(&types), a),
                                _ => (a, t, b),
                            }
                        } else {
                            let (a, b) = pair(rng, &nodes);
                            (a, *rng.pick(&types), b)
                        };
                        if a == b || t == HAS_SUBTYPE {
                            continue;
                        }
                        live.push((a, t, b));
                        out.push(format!("ins {} {} {}", a, b, t));
                    }
                    1 => {
                        // a HasSubtype reference between reference type nodes, never cyclic
                        let i = rng.below(2) as usize;
                        let j = rng.range(i as i64 + 1, 2) as usize;
                        live.push((type_rank[i], HAS_SUBTYPE, type_rank[j]));
                        out.push(format!("ins {} {} {}", type_rank[i], type_rank[j], HAS_SUBTYPE));
                    }
                    2 => {
                        // delete: mostly a live reference, sometimes a near miss
                        let (a, t, b) = if !live.is_empty() && rng.chance(4, 5) {
                            let (a, t, b) = *rng.pick(&live);
                            match rng.below(8) {
                                0 => (b, t, a),
                                1 => (a, *rng.pick(&types), b),
                                _ => (a, t, b),
                            }
                        } else {
                            let (a, b) = pair(rng, &nodes);
                            (a, *rng.pick(&types), b)
                        };
                        live.retain(|x| *x != (a, t, b));
                        out.push(format!("del {} {} {}", a, b, t));
                    }
                    3 => {
                        let x = *rng.pick(&nodes);
                        live.retain(|(a, _, b)| *a != x && *b != x);
                        out.push(format!("deln {}", x));
                    }
                    4 => {
                        let (a, b) = pair(rng, &nodes);
                        out.push(format!("has {} {} {}", a, b, rng.pick(&OBS_TYPES)));
                    }
                    5 | 6 => {
                        let f = match rng.below(4) {
                            0 => "-".to_string(),
                            1 => format!("{}:0", rng.pick(&types)),
                            _ => format!("{}:1", if rng.chance(1, 2) { 44 } else { *rng.pick(&types) }),
                        };
                        let x = *rng.pick(&nodes);
                        out.push(format!("{} {} {}", if rng.chance(1, 2) { "fwd" } else { "inv" }, x, f));
                    }
                    _ => {
                        let (ty, sub) = if rng.chance(1, 4) {
                            // the pair that is related only through the type in between
                            (type_rank[0], type_rank[2])
                        } else if rng.chance(1, 2) {
                            let i = rng.below(2) as usize;
                            (type_rank[i], type_rank[rng.range(i as i64 + 1, 2) as usize])
                        } else {
                            (*rng.pick(&types), *rng.pick(&OBS_TYPES))
                        };
                        out.push(format!("match {} {} {}", ty, sub, b(rng.chance(3, 4))));
                    }
                }
            }
        }
    }

    fn runner(&self) -> Box<dyn Runner> {
        Box::new(R { refs: References::default(), set: BTreeSet::new() })
    }
}

struct R {
    refs: References,
    /// the references that were added and not removed (written from the property text)
    set: BTreeSet<Triple>,
}

impl R {
    fn observe(&self, class: &str) -> (String, Verdict) {
        let (f, i, h) = (obs_fwd(&self.refs), obs_inv(&self.refs), obs_has(&self.refs));
        let v = check_views(&self.set, &f, &i, &h, class);
        (format!("F={} I={} H={}", show_triples(&f), show_triples(&i), show_triples(&h)), v)
    }
}

fn p(s: &str) -> Option<u32> {
    s.parse().ok()
}

impl Runner for R {
    fn step(&mut self, toks: &[&str]) -> (String, Verdict) {
        match toks {
            ["reset"] => {
                self.refs = References::default();
                self.set.clear();
                ("ok".to_string(), Verdict::Ok)
            }
            ["ins", a, b, t] => {
                let (Some(a), Some(b), Some(t)) = (p(a), p(b), p(t)) else { return ("bad-op".into(), Verdict::Ok) };
                self.refs.insert_reference(&nid(a), &nid(b), &nid(t));
                self.set.insert((a, t, b));
                let (o, v) = self.observe("ins");
                (format!("ok {}", o), v)
            }
            ["del", a, b, t] => {
                let (Some(a), Some(b), Some(t)) = (p(a), p(b), p(t)) else { return ("bad-op".into(), Verdict::Ok) };
                // input class: is there a reference in the opposite direction between the two nodes?
                let opposite = self.set.iter().any(|(x, _, y)| *x == b && *y == a);
                let class = if opposite { "del-opposite-pair" } else { "del" };
                let d = self.refs.delete_reference(&nid(a), &nid(b), nid(t));
                let was = self.set.remove(&(a, t, b));
                let (o, v) = self.observe(class);
                let v = if d != was {
                    Verdict::fail("flag", class, format!("delete_reference returned {} for a reference that was{} present", d, if was { "" } else { " not" }))
                } else {
                    v
                };
                (format!("ok {} {}", b01(d), o), v)
            }
            ["deln", n] => {
                let Some(n) = p(n) else { return ("bad-op".into(), Verdict::Ok) };
                let d = self.refs.delete_node_references(&nid(n));
                let before = self.set.len();
                self.set.retain(|(a, _, b)| *a != n && *b != n);
                let was = self.set.len() != before;
                let (o, v) = self.observe("deln");
                let v = if d != was {
                    Verdict::fail("flag", "deln", format!("delete_node_references returned {} but references mentioning the node existed: {}", d, was))
                } else {
                    v
                };
                (format!("ok {} {}", b01(d), o), v)
            }
            ["has", a, b, t] => {
                let (Some(a), Some(b), Some(t)) = (p(a), p(b), p(t)) else { return ("bad-op".into(), Verdict::Ok) };
                let r = self.refs.has_reference(&nid(a), &nid(b), nid(t));
                let v = if r != self.set.contains(&(a, t, b)) { Verdict::fail("has", "has", format!("got {}", r)) } else { Verdict::Ok };
                (format!("ok {}", b01(r)), v)
            }
            [dir @ ("fwd" | "inv"), x, f] => {
                let (Some(x), Some(f)) = (p(x), parse_filter(f)) else { return ("bad-op".into(), Verdict::Ok) };
                let filter = f.map(|(t, i)| (nid(t), i));
                let fwd = *dir == "fwd";
                let got = if fwd { self.refs.find_references(&nid(x), filter) } else { self.refs.find_inverse_references(&nid(x), filter) };
                let (s, got) = show_found(got);
                let mut want: Vec<(u32, u32)> = self
                    .set
                    .iter()
                    .filter(|(a, t, b)| (if fwd { *a } else { *b }) == x && f.map_or(true, |(ft, i)| spec_type_matches(&self.set, ft, *t, i)))
                    .map(|(a, t, b)| (*t, if fwd { *b } else { *a }))
                    .collect();
                want.sort();
                let class = match f { None => "query", Some((_, false)) => "query-exact", Some((_, true)) => "query-subtypes" };
                let v = if got != want {
                    Verdict::fail(if fwd { "forward" } else { "inverse" }, class, format!("got {:?} want {:?}", got, want))
                } else {
                    Verdict::Ok
                };
                (s, v)
            }
            ["insd", src, node, t, inv] => {
                // References::insert with an explicit direction (what AddressSpace::insert uses)
                let (Some(src), Some(node), Some(t)) = (p(src), p(node), p(t)) else { return ("bad-op".into(), Verdict::Ok) };
                let inverse = *inv == "1";
                let dir = if inverse { ReferenceDirection::Inverse } else { ReferenceDirection::Forward };
                self.refs.insert(&nid(src), &[(&nid(node), &nid(t), dir)]);
                if inverse {
                    self.set.insert((node, t, src));
                } else {
                    self.set.insert((src, t, node));
                }
                let (o, v) = self.observe("insd");
                (format!("ok {}", o), v)
            }
            ["insrefs", l] => {
                // References::insert_references: a batch of (source, target, type)
                let Some(l) = parse_triples(l) else { return ("bad-op".into(), Verdict::Ok) };
                let ids: Vec<(NodeId, NodeId, NodeId)> = l.iter().map(|(a, t, b)| (nid(*a), nid(*b), nid(*t))).collect();
                let refs: Vec<(&NodeId, &NodeId, &NodeId)> = ids.iter().map(|(a, b, t)| (a, b, t)).collect();
                self.refs.insert_references(&refs);
                // every entry of the batch is a reference afterwards, whatever existed before
                for t in l.iter() {
                    self.set.insert(*t);
                }
                let (o, v) = self.observe("insrefs");
                (format!("ok {}", o), v)
            }
            ["insmany", src, l] => {
                // References::insert: several (node, type, direction) entries for one source node
                let (Some(src), Some(l)) = (p(src), parse_entries(l)) else { return ("bad-op".into(), Verdict::Ok) };
                let ids: Vec<(NodeId, NodeId, ReferenceDirection)> = l
                    .iter()
                    .map(|(n, t, inv)| (nid(*n), nid(*t), if *inv { ReferenceDirection::Inverse } else { ReferenceDirection::Forward }))
                    .collect();
                let refs: Vec<(&NodeId, &NodeId, ReferenceDirection)> = ids.iter().map(|(n, t, d)| (n, t, *d)).collect();
                self.refs.insert(&nid(src), &refs);
                for (n, t, inv) in l.iter() {
                    self.set.insert(if *inv { (*n, *t, src) } else { (src, *t, *n) });
                }
                let (o, v) = self.observe("insmany");
                (format!("ok {}", o), v)
            }
            ["bydir", n, d, f] => {
                let (Some(n), Some(f)) = (p(n), parse_filter(f)) else { return ("bad-op".into(), Verdict::Ok) };
                let dir = match *d {
                    "f" => BrowseDirection::Forward,
                    "i" => BrowseDirection::Inverse,
                    "b" => BrowseDirection::Both,
                    _ => BrowseDirection::Invalid,
                };
                let filter = f.map(|(t, i)| (nid(t), i));
                let (l, idx) = self.refs.find_references_by_direction(&nid(n), dir, filter);
                let idx = idx.min(l.len());
                let part = |x: &[Reference]| -> Vec<(u32, u32)> {
                    let mut v: Vec<(u32, u32)> = x.iter().map(|r| (tok(&r.reference_type), tok(&r.target_node))).collect();
                    v.sort();
                    v
                };
                let (fw, iv) = (part(&l[..idx]), part(&l[idx..]));
                let sh = |v: &Vec<(u32, u32)>| format!("[{}]", v.iter().map(|(t, b)| format!("{}>{}", t, b)).collect::<Vec<_>>().join(","));
                // specification: the forward part is the node's references, the rest those pointing at it
                let admits = |t: u32| f.map_or(true, |(ft, i)| spec_type_matches(&self.set, ft, t, i));
                let mut want_f: Vec<(u32, u32)> = self.set.iter().filter(|(a, t, _)| *a == n && admits(*t)).map(|(_, t, b)| (*t, *b)).collect();
                let mut want_i: Vec<(u32, u32)> = self.set.iter().filter(|(_, t, b)| *b == n && admits(*t)).map(|(a, t, _)| (*t, *a)).collect();
                want_f.sort();
                want_i.sort();
                match *d {
                    "f" => want_i.clear(),
                    "i" => want_f.clear(),
                    "b" => {}
                    _ => {
                        want_f.clear();
                        want_i.clear();
                    }
                }
                let v = if fw != want_f {
                    Verdict::fail("forward", "bydir", format!("forward part {:?} want {:?}", fw, want_f))
                } else if iv != want_i {
                    Verdict::fail("inverse", "bydir", format!("inverse part {:?} want {:?}", iv, want_i))
                } else {
                    Verdict::Ok
                };
                (format!("ok {} {} {}", idx, sh(&fw), sh(&iv)), v)
            }
            ["typeid", n] => {
                let Some(n) = p(n) else { return ("bad-op".into(), Verdict::Ok) };
                let got = self.refs.get_type_id(&nid(n)).map(|x| tok(&x));
                // some HasTypeDefinition (i=40) target of the node, none when there is none
                let cands: Vec<u32> = self.set.iter().filter(|(a, t, _)| *a == n && *t == 40).map(|(_, _, b)| *b).collect();
                let v = match got {
                    None if cands.is_empty() => Verdict::Ok,
                    Some(g) if cands.contains(&g) => Verdict::Ok,
                    _ => Verdict::fail("type_id", "typeid", format!("got {:?} candidates {:?}", got, cands)),
                };
                (format!("ok {}", got.map_or("-".to_string(), |g| g.to_string())), v)
            }
            ["match", ty, sub, i] => {
                let (Some(ty), Some(sub)) = (p(ty), p(sub)) else { return ("bad-op".into(), Verdict::Ok) };
                let i = *i == "1";
                let r = self.refs.reference_type_matches(&nid(ty), &nid(sub), i);
                let v = if r != spec_type_matches(&self.set, ty, sub, i) { Verdict::fail("type_match", "match", format!("got {}", r)) } else { Verdict::Ok };
                (format!("ok {}", b01(r)), v)
            }
            _ => ("bad-op".to_string(), Verdict::Ok),
        }
    }

    /// `insert_reference` documents and implements a panic for a reference from a node to itself
    /// (the services refuse such a request before it gets here: property C33).  The property says
    /// nothing about it; any other panic is a failure.
    fn on_panic(&self, toks: &[&str]) -> Verdict {
        match toks {
            ["ins", a, b, _] if a == b => Verdict::Ok,
            _ => Verdict::fail("no_panic", "-", "implementation panicked"),
        }
    }
}

fn b01(x: bool) -> &'static str {
    b(x)
}
