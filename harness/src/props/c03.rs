//! C03 — configured decoding limits are enforced exactly.
//!
//! Ops (shared codec ops, see `enc.rs`):
//!   lim <Type> <opts> <tree…>   encode the value, decode it under the limits
//!   dec <Type> <opts> x<hex>    decode bytes (valid encodings with rewritten length fields)
//!   dec Chunk <opts> x<hex>     MessageChunk::decode (max_message_size)
//!
//! Oracle (implementation outputs only):
//!   lim : for a valid value whose nesting fits the depth limit:  decode succeeds  <=>  every
//!         string / byte string / array (and dimension array) length in the value is within its
//!         limit (lengths computed by a walker over the generated value, not over bytes);
//!   dec : a value that was accepted contains no length over a limit;
//!   Chunk: declared size > max_message_size > 0  =>  rejected; otherwise (valid header) accepted.
use crate::common::*;
use crate::enc::*;

pub struct C03;
pub static P: C03 = C03;

fn around(rng: &mut Rng, x: usize) -> usize {
    // one in eight: a limit at / beyond the i32 and u32 boundaries (actual lengths stay small)
    if rng.chance(1, 8) {
        return *rng.pick(&HUGE_LIMITS);
    }
    match rng.weighted(&[3, 4, 3, 1, 2, 1]) {
        0 => x.saturating_sub(1),
        1 => x,
        2 => x + 1,
        3 => 0,
        4 => 300,
        _ => x + 2 + rng.below(5) as usize,
    }
}

/// positions of 4-byte little-endian fields that look like one of the value's lengths
fn length_field_positions(bytes: &[u8], lens: &[usize]) -> Vec<usize> {
    let mut out = Vec::new();
    if bytes.len() < 4 {
        return out;
    }
    for i in 0..bytes.len() - 3 {
        let x = u32::from_le_bytes([bytes[i], bytes[i + 1], bytes[i + 2], bytes[i + 3]]);
        if x == u32::MAX || lens.contains(&(x as usize)) {
            out.push(i);
        }
    }
    out
}

fn chunk_bytes(rng: &mut Rng, size: u32, body: usize) -> Vec<u8> {
    let mut v = Vec::new();
    v.extend_from_slice(match rng.below(8) {
        0 => b"OPN",
        1 => b"CLO",
        2 => b"XYZ",
        _ => b"MSG",
    });
    v.push(match rng.below(8) {
        0 => b'C',
        1 => b'A',
        2 => b'Q',
        _ => b'F',
    });
    v.extend_from_slice(&size.to_le_bytes());
    v.extend_from_slice(&(rng.next() as u32).to_le_bytes());
    v.extend(rng.bytes(body));
    v
}

impl Prop for C03 {
    fn id(&self) -> &'static str {
        "C03"
    }

    fn gen(&self, rng: &mut Rng, n: usize, tier: Tier, out: &mut Vec<String>) {
        for case in 0..n {
            out.push("reset".to_string());
            let depth = if tier == Tier::Thorough { 4 } else { 3 };
            // --- a value and limits around its extents
            let v = {
                let mut g = Gen::new(rng);
                g.ill_formed = false;
                g.val(depth)
            };
            let e = Extent::of(&v);
            for _ in 0..2 {
                let lim = Lim {
                    max_str: around(rng, e.max_str),
                    max_bytes: around(rng, e.max_bytes),
                    max_arr: around(rng, e.max_arr),
                    max_depth: if rng.chance(1, 10) { rng.below(4) } else if rng.chance(1, 6) { *rng.pick(&HUGE_LIMITS) as u64 } else { 64 },
                    max_msg: 0,
                    named: 0,
                };
                out.push(format!("lim {} {} {}", v.type_name(), lim.show(), v.tree()));
            }
            // --- the same encoding with a length field rewritten
            let bytes = v.try_encode().unwrap_or_default();
            if bytes.len() >= 5 {
                let lens = [e.max_str, e.max_bytes, e.max_arr, 0, 1, 2, 3, 4, 5];
                let pos = length_field_positions(&bytes, &lens);
                for _ in 0..2 {
                    if pos.is_empty() {
                        break;
                    }
                    let i = *rng.pick(&pos);
                    // (no huge limits here: a rewritten length of i32::MAX would then be within the configured
                    // maximum and the decoder would rightly try to allocate it)
                    let lim = Lim {
                        max_str: around(rng, e.max_str).min(70_000),
                        max_bytes: around(rng, e.max_bytes).min(70_000),
                        max_arr: around(rng, e.max_arr).min(70_000),
                        max_depth: 64,
                        max_msg: 0, named: 0 };
                    let limit = *rng.pick(&[lim.max_str, lim.max_bytes, lim.max_arr]) as i64;
                    let new: i32 = match rng.below(9) {
                        0 => (limit - 1) as i32,
                        1 => limit as i32,
                        2 => (limit + 1) as i32,
                        3 => 0,
                        4 => -1,
                        5 => -2,
                        6 => i32::MIN,
                        7 => i32::MAX,
                        _ => rng.below(12) as i32,
                    };
                    let mut m = bytes.clone();
                    m[i..i + 4].copy_from_slice(&new.to_le_bytes());
                    if rng.chance(1, 3) {
                        // supply a body of the declared length
                        let extra = (new.max(0) as usize).min(400);
                        let tail: Vec<u8> = m.split_off(i + 4);
                        m.extend(std::iter::repeat(b'a').take(extra));
                        m.extend(tail);
                    }
                    out.push(format!("dec {} {} x{}", v.type_name(), lim.show(), hex(&m)));
                }
            }
            // --- a generated structure under small limits (ties `read_array` and the leaf limits
            //     inside structures to the model; accept/reject is compared, no separate oracle)
            {
                let names = dispatch::SCHEMAS;
                let name = names[(case * 11 + 5) % names.len()].0;
                let bytes = {
                    let mut g = Gen::new(rng);
                    g.lens = vec![0, 1, 2, 3, 4];
                    g.struct_bytes(name, case % 4 == 2).0
                };
                if case % 8 == 5 {
                    // every truncation: the length fields of arrays / enums / flags cut short
                    for p in all_prefixes(&bytes, 32) {
                        out.push(format!("sdec {} {} x{}", name, Lim::default().show(), hex(&p)));
                    }
                }
                {
                    // the Variant mask sweep (256 masks x 8 shapes = 2048 points, one per case, so a quick
                    // run enumerates all of it), under the default limits and under an array limit 0 / 1 / 2
                    let b = Gen::new(rng).variant_mask_sweep(case % 2048);
                    out.push(format!("dec Variant {} x{}", Lim::default().show(), hex(&b)));
                    let lim = Lim { max_arr: *rng.pick(&[0usize, 1, 2]), ..Lim::default() };
                    out.push(format!("dec Variant {} x{}", lim.show(), hex(&b)));
                    if case % 8 == 1 {
                        for p in all_prefixes(&b, 24) {
                            out.push(format!("dec Variant {} x{}", Lim::default().show(), hex(&p)));
                        }
                    }
                }
                if bytes.len() <= 3000 {
                    let lim = Lim {
                        max_str: *rng.pick(&[0usize, 1, 2, 3, 4, 5, 300]),
                        max_bytes: *rng.pick(&[0usize, 1, 2, 3, 4, 5, 300]),
                        max_arr: *rng.pick(&[0usize, 1, 2, 3, 4, 300]),
                        max_depth: 64,
                        max_msg: 0, named: 0 };
                    out.push(format!("sdec {} {} x{}", name, lim.show(), hex(&bytes)));
                }
            }
            // length-field sweep: 8 length-bearing leaves x 12 declared lengths (-2, -1, 0, 1, i32::MIN, i32::MIN+1,
            // i32::MAX, limit-1, limit, limit+1, limit+2, 3) under small limits
            {
                let lim = Lim { max_str: 2 + (case % 3), max_bytes: 2 + (case % 4), max_arr: 2 + (case % 2), max_depth: 10, max_msg: 0, named: 0 };
                let (ty, b) = length_sweep(case, &lim);
                out.push(format!("dec {} {} x{}", ty, lim.show(), hex(&b)));
            }
            // --- chunks
            if case % 2 == 0 {
                let size: u32 = match rng.below(8) {
                    0 => rng.below(14) as u32,
                    1 => 8192,
                    2 => 65535,
                    3 => u32::MAX,
                    _ => 12 + rng.below(200) as u32,
                };
                let max_msg = match rng.below(8) {
                    0 => 0,
                    1 => size as usize + 1,
                    2 | 3 => size as usize,
                    4 | 5 => (size as usize).saturating_sub(1),
                    6 => 1,
                    _ => {
                        if rng.chance(1, 2) {
                            *rng.pick(&HUGE_LIMITS)
                        } else {
                            327675
                        }
                    }
                };
                // an accepted chunk is printed in full: keep those small
                let (size, max_msg) = if (max_msg == 0 || max_msg >= size as usize) && size > 2000 {
                    (2000u32, if max_msg == 0 { 0 } else { max_msg.min(2001) })
                } else {
                    (size, max_msg)
                };
                let body = match rng.below(4) {
                    0 => 0,
                    1 => (size as usize).saturating_sub(12).min(300),
                    2 => (size as usize).saturating_sub(12).min(300) + 5,
                    _ => rng.below(40) as usize,
                };
                let lim = Lim { max_msg, ..Lim::default() };
                let mut bytes = chunk_bytes(rng, size, body);
                if rng.chance(1, 12) {
                    bytes.truncate(rng.below(13) as usize);
                }
                out.push(format!("dec Chunk {} x{}", lim.show(), hex(&bytes)));
            }
        }
    }

    fn runner(&self) -> Box<dyn Runner> {
        Box::new(R)
    }
}

struct R;

fn class_of(e: &Extent, lim: &Lim) -> String {
    let mut over = Vec::new();
    if e.max_str > lim.max_str {
        over.push("str");
    }
    if e.max_bytes > lim.max_bytes {
        over.push("bytes");
    }
    if e.max_arr > lim.max_arr {
        over.push("arr");
    }
    if over.is_empty() {
        "within".to_string()
    } else {
        format!("over-{}", over.join("+"))
    }
}

impl Runner for R {
    fn step(&mut self, toks: &[&str]) -> (String, Verdict) {
        match toks {
            ["reset", ..] => ("ok".to_string(), Verdict::Ok),
            ["lim", ty, opts, tree @ ..] => {
                let (lim, v) = match (Lim::parse(opts), p_val(ty, tree)) {
                    (Some(l), Some(v)) => (l, v),
                    _ => return ("bad-op".to_string(), Verdict::Ok),
                };
                let (bytes, r) = v.encode();
                if r.is_err() {
                    return ("err".to_string(), Verdict::Ok);
                }
                let (line, out) = run_dec(ty, &lim, &bytes);
                let e = Extent::of(&v);
                let class = class_of(&e, &lim);
                let verdict = if !valid(&v) || e.nest > lim.max_depth {
                    Verdict::Ok
                } else {
                    match out {
                        DecOut::Ok(v2, pos) => {
                            if !e.within(&lim) {
                                Verdict::fail("over_limit_rejected", &class, format!("accepted although {:?} exceeds {:?}", e, lim))
                            } else if pos != bytes.len() {
                                Verdict::fail("within_limit_accepted", &class, format!("consumed {} of {}", pos, bytes.len()))
                            } else if !Extent::of(&v2).within(&lim) {
                                Verdict::fail("result_within", &class, "decoded value exceeds a limit")
                            } else {
                                Verdict::Ok
                            }
                        }
                        DecOut::Err => {
                            if e.within(&lim) {
                                Verdict::fail("within_limit_accepted", &class, format!("rejected although {:?} is within {:?}", e, lim))
                            } else {
                                Verdict::Ok
                            }
                        }
                        _ => Verdict::Ok,
                    }
                };
                (line, verdict)
            }
            ["sdec", name, opts, h] => {
                let (lim, bytes) = match (Lim::parse(opts), unhex(h)) {
                    (Some(l), Some(b)) => (l, b),
                    _ => return ("bad-op".to_string(), Verdict::Ok),
                };
                let (line, out) = run_sdec(name, &lim, &bytes);
                // soundness on the implementation: what was accepted under small limits is
                // accepted under generous ones too and re-encodes to the same bytes
                let verdict = match out {
                    Some(Ok((pos, re, _, _))) => {
                        let g = Lim { max_str: 1 << 20, max_bytes: 1 << 20, max_arr: 1 << 16, max_depth: 64, max_msg: 0, named: 0 };
                        match dispatch::decode_struct(name, &bytes, &g.options()) {
                            Some(Ok((p2, re2, _, _))) if p2 == pos && re2 == re => Verdict::Ok,
                            _ => Verdict::fail("limit_monotone", name, "accepted under small limits but differently under generous ones"),
                        }
                    }
                    _ => Verdict::Ok,
                };
                (line, verdict)
            }
            ["dec", "Chunk", opts, h] => {
                let (lim, bytes) = match (Lim::parse(opts), unhex(h)) {
                    (Some(l), Some(b)) => (l, b),
                    _ => return ("bad-op".to_string(), Verdict::Ok),
                };
                let (line, out) = run_dec("Chunk", &lim, &bytes);
                // the property, from the bytes of the header alone
                let verdict = if bytes.len() >= 12 {
                    let size = u32::from_le_bytes([bytes[4], bytes[5], bytes[6], bytes[7]]) as usize;
                    let header_ok = [&b"MSG"[..], &b"OPN"[..], &b"CLO"[..]].contains(&&bytes[0..3]) && b"FCA".contains(&bytes[3]);
                    let over = lim.max_msg > 0 && size > lim.max_msg;
                    match out {
                        DecOut::Chunk(data, _) if over => {
                            Verdict::fail("chunk_over_limit_rejected", "chunk-over", format!("size {} accepted with max {} ({} bytes)", size, lim.max_msg, data.len()))
                        }
                        DecOut::Err if header_ok && !over => {
                            Verdict::fail("chunk_within_limit_accepted", "chunk-within", format!("size {} rejected with max {}", size, lim.max_msg))
                        }
                        _ => Verdict::Ok,
                    }
                } else {
                    Verdict::Ok
                };
                (line, verdict)
            }
            ["dec", ty, opts, h] => {
                let (lim, bytes) = match (Lim::parse(opts), unhex(h)) {
                    (Some(l), Some(b)) => (l, b),
                    _ => return ("bad-op".to_string(), Verdict::Ok),
                };
                let (line, out) = run_dec(ty, &lim, &bytes);
                let verdict = match out {
                    DecOut::Ok(v2, _) => {
                        let e = Extent::of(&v2);
                        if e.within(&lim) {
                            Verdict::Ok
                        } else {
                            Verdict::fail("result_within", &class_of(&e, &lim), format!("decoded value has {:?} under {:?}", e, lim))
                        }
                    }
                    _ => Verdict::Ok,
                };
                (line, verdict)
            }
            _ => ("bad-op".to_string(), Verdict::Ok),
        }
    }
}
