//! C02 — decoding arbitrary bytes never panics, overflows the stack or over-allocates.
//!
//! Op: `dec <Type> <opts> x<hex>` (Type ∈ Variant | DataValue | DiagnosticInfo | Chunk) on
//!   (i)   mutations of valid encodings (bit flips, truncation, extension, byte / length rewrites),
//!   (ii)  random bytes,
//!   (iii) adversarial nesting families `prefix^n ++ tail` for every recursive entry of the decoder
//!         family (DataValue→Variant→DataValue `01 17`, Variant in Variant `18`, inner diagnostic
//!         info `40`, Variant→DiagnosticInfo `19 40…`, one-element arrays of Variant `98 01000000`),
//!         n up to 200 000, under default / minimal / small random options.
//!
//! Oracle (implementation outputs only): the call returns (a panic is caught by `main.rs` and is a
//! FAIL `no_panic`; a dead process is a FAIL `no_abort` in check.py); an accepted value nests no
//! deeper than the configured depth; the largest single allocation requested while decoding is at
//! most what the limits allow (`max(max_string, max_byte_string, max_array · size_of::<Variant>(),
//! chunk size ≤ max_message_size)` + a small slack for boxes).
use crate::common::*;
use crate::enc::*;
use opcua::types::*;
use std::alloc::{GlobalAlloc, Layout, System};
use std::sync::atomic::{AtomicBool, AtomicUsize, Ordering};

pub struct C02;
pub static P: C02 = C02;

// ---- allocation meter: records the largest single request while armed ----------------------

pub struct Meter;
static ARMED: AtomicBool = AtomicBool::new(false);
static PEAK: AtomicUsize = AtomicUsize::new(0);

unsafe impl GlobalAlloc for Meter {
    unsafe fn alloc(&self, l: Layout) -> *mut u8 {
        if ARMED.load(Ordering::Relaxed) {
            PEAK.fetch_max(l.size(), Ordering::Relaxed);
        }
        System.alloc(l)
    }
    unsafe fn alloc_zeroed(&self, l: Layout) -> *mut u8 {
        if ARMED.load(Ordering::Relaxed) {
            PEAK.fetch_max(l.size(), Ordering::Relaxed);
        }
        System.alloc_zeroed(l)
    }
    unsafe fn realloc(&self, p: *mut u8, l: Layout, new_size: usize) -> *mut u8 {
        if ARMED.load(Ordering::Relaxed) {
            PEAK.fetch_max(new_size, Ordering::Relaxed);
        }
        System.realloc(p, l, new_size)
    }
    unsafe fn dealloc(&self, p: *mut u8, l: Layout) {
        System.dealloc(p, l)
    }
}

#[global_allocator]
static GLOBAL: Meter = Meter;

fn metered<T>(f: impl FnOnce() -> T) -> (T, usize) {
    PEAK.store(0, Ordering::Relaxed);
    ARMED.store(true, Ordering::Relaxed);
    let r = f();
    ARMED.store(false, Ordering::Relaxed);
    (r, PEAK.load(Ordering::Relaxed))
}

const SLACK: usize = 4096;

fn alloc_bound(l: &Lim) -> usize {
    let elem = std::mem::size_of::<Variant>().max(4);
    l.max_str.max(l.max_bytes).max(l.max_arr.saturating_mul(elem)).saturating_add(SLACK)
}

// ---- generator ---------------------------------------------------------------------------

fn limits(rng: &mut Rng) -> Lim {
    match rng.below(6) {
        0 | 1 => Lim::default(),
        2 => Lim::minimal(),
        3 => Lim { max_depth: 0, ..Lim::default() },
        _ => Lim {
            max_str: rng.below(12) as usize,
            max_bytes: rng.below(12) as usize,
            max_arr: rng.below(6) as usize,
            max_depth: rng.below(5),
            max_msg: 0, named: 0 },
    }
}

fn mutate(rng: &mut Rng, bytes: &[u8]) -> Vec<u8> {
    let mut m = bytes.to_vec();
    let k = 1 + rng.below(3);
    for _ in 0..k {
        if m.is_empty() {
            m.push(rng.next() as u8);
            continue;
        }
        let i = rng.below(m.len() as u64) as usize;
        match rng.below(7) {
            0 => m[i] ^= 1 << rng.below(8),
            1 => m.truncate(i),
            2 => m[i] = rng.next() as u8,
            3 => m.insert(i, rng.next() as u8),
            4 => {
                // a length-like field
                let v: i32 = *rng.pick(&[-1, -2, 0, 1, 1000, 1001, 65535, 65536, i32::MAX, i32::MIN]);
                let e = (i + 4).min(m.len());
                m.splice(i..e, v.to_le_bytes());
            }
            5 => {
                let k = rng.below(9) as usize;
                m.extend(rng.bytes(k))
            }
            _ => {
                // set array / dimension bits of a mask-looking byte
                m[i] |= *rng.pick(&[0x80u8, 0x40, 0xC0]);
            }
        }
    }
    m
}

/// (type to decode as, prefix, tail)
fn families() -> Vec<(&'static str, Vec<u8>, Vec<u8>)> {
    vec![
        ("DataValue", vec![0x01, 0x17], vec![0x00]),
        ("Variant", vec![0x17, 0x01], vec![0x17, 0x00]),
        ("Variant", vec![0x18], vec![0x01, 0x01]),
        ("DiagnosticInfo", vec![0x40], vec![0x00]),
        ("Variant", vec![0x19, 0x40], vec![0x19, 0x00]),
        ("Variant", vec![0x98, 0x01, 0x00, 0x00, 0x00], vec![0x01, 0x01]),
        ("DataValue", vec![0x01, 0x98, 0x01, 0x00, 0x00, 0x00], vec![0x06, 0x05, 0x00, 0x00, 0x00]),
        ("Variant", vec![0x17, 0x01, 0x18], vec![0x01, 0x00]),
    ]
}

fn nest(prefix: &[u8], n: usize, tail: &[u8]) -> Vec<u8> {
    let mut v = Vec::with_capacity(prefix.len() * n + tail.len());
    for _ in 0..n {
        v.extend_from_slice(prefix);
    }
    v.extend_from_slice(tail);
    v
}

impl Prop for C02 {
    fn id(&self) -> &'static str {
        "C02"
    }

    fn gen(&self, rng: &mut Rng, n: usize, tier: Tier, out: &mut Vec<String>) {
        let fams = families();
        let huge_every = if tier == Tier::Thorough { (n / 25).max(1) } else { (n / 6).max(1) };
        for case in 0..n {
            out.push("reset".to_string());
            // (i) mutated encodings
            for _ in 0..2 {
                let v = {
                    let mut g = Gen::new(rng);
                    g.val(3)
                };
                if let Some(bytes) = v.try_encode() {
                    let lim = limits(rng);
                    let m = mutate(rng, &bytes);
                    if m.len() <= 3000 {
                        out.push(format!("dec {} {} x{}", v.type_name(), lim.show(), hex(&m)));
                    }
                }
            }
            // (ii) random bytes
            {
                let len = rng.below(40) as usize;
                let mut b = rng.bytes(len);
                if !b.is_empty() && rng.chance(2, 3) {
                    // a plausible first byte
                    b[0] = (rng.below(26) as u8) | *rng.pick(&[0u8, 0, 0x80, 0xC0, 0x40]);
                }
                let ty = *rng.pick(&["Variant", "Variant", "DataValue", "DiagnosticInfo", "Chunk"]);
                let mut lim = limits(rng);
                if ty == "Chunk" {
                    if b.len() >= 8 && rng.chance(3, 4) {
                        b[0..3].copy_from_slice(b"MSG");
                        b[3] = b'F';
                        let size: u32 = *rng.pick(&[0u32, 11, 12, 13, 64, 8192, 65535, 65536, u32::MAX]);
                        b[4..8].copy_from_slice(&size.to_le_bytes());
                    }
                    // never let the real code allocate gigabytes: a limit is configured unless the declared size
                    // (as it stands in the bytes) is small; 0 = unlimited is part of the contract too
                    let declared = if b.len() >= 8 { u32::from_le_bytes([b[4], b[5], b[6], b[7]]) } else { 0 };
                    lim.max_msg = if declared <= 65536 && rng.chance(1, 3) { 0 } else { *rng.pick(&[1usize, 12, 64, 8192, 65535]) };
                }
                out.push(format!("dec {} {} x{}", ty, lim.show(), hex(&b)));
            }
            // (ii') a generated service structure: valid bytes, mutated, under drawn limits
            {
                let names = dispatch::SCHEMAS;
                let name = names[(case * 7 + 3) % names.len()].0;
                let bytes = {
                    let mut g = Gen::new(rng);
                    g.lens = vec![0, 1, 2, 3, 5];
                    g.struct_bytes(name, true).0
                };
                if bytes.len() <= 3000 {
                    let lim = limits(rng);
                    let m = if rng.chance(1, 4) { bytes } else { mutate(rng, &bytes) };
                    out.push(format!("sdec {} {} x{}", name, lim.show(), hex(&m)));
                }
            }
            // (ii'') UA-TCP messages and headers
            {
                let ty = *rng.pick(&["MsgHeader", "Hello", "Hello", "Ack", "Error", "ChunkHeader", "ReadBytes", "ReadBytes"]);
                let mut lim = limits(rng);
                let mut b: Vec<u8> = Vec::new();
                b.extend_from_slice(*rng.pick(&[&b"HEL"[..], b"HEL", b"ACK", b"ERR", b"MSG", b"OPN", b"CLO", b"XYZ"]));
                b.push(*rng.pick(&[b'F', b'F', b'F', b'C', b'A', b'Q']));
                let body = rng.below(40) as usize;
                let size: u32 = match rng.below(10) {
                    0 => 0,
                    1 => 3,
                    2 => 7,
                    3 => 8,
                    4 => 9,
                    5 => body as u32 + 8,
                    6 => body as u32 + 9,
                    7 => 8192,
                    8 => 65536,
                    // read_bytes allocates what is declared: keep even a defective run at 16 MiB
                    _ => {
                        if ty == "ReadBytes" {
                            16 << 20
                        } else {
                            u32::MAX
                        }
                    }
                };
                b.extend_from_slice(&size.to_le_bytes());
                match ty {
                    "Hello" | "Ack" => {
                        for _ in 0..5 {
                            let v: u32 = *rng.pick(&[0u32, 1, 8192, 8196, 65535, u32::MAX]);
                            b.extend_from_slice(&v.to_le_bytes());
                        }
                    }
                    "Error" => b.extend_from_slice(&(rng.next() as u32).to_le_bytes()),
                    _ => {}
                }
                if ty == "Hello" || ty == "Error" {
                    let n: i32 = match rng.below(8) {
                        0 => -1,
                        1 => -2,
                        2 => lim.max_str as i32 + 1,
                        3 => i32::MAX,
                        _ => (lim.max_str.min(30)) as i32,
                    };
                    b.extend_from_slice(&n.to_le_bytes());
                    let k = (n.max(0) as usize).min(60);
                    let url = b"opc.tcp://localhost:4855/abcdefghijklmnopqrstuvwxyz0123456789-_".iter().cycle().take(k).copied().collect::<Vec<u8>>();
                    b.extend(url);
                } else {
                    b.extend(rng.bytes(body));
                }
                if rng.chance(1, 6) {
                    b = mutate(rng, &b);
                }
                if rng.chance(1, 10) {
                    b.truncate(rng.below(b.len() as u64 + 1) as usize);
                }
                if case % 16 == 7 {
                    // every truncation of this message
                    for p in all_prefixes(&b, 40) {
                        out.push(format!("dec {} {} x{}", ty, Lim::default().show(), hex(&p)));
                    }
                }
                if ty == "ReadBytes" {
                    // read_bytes allocates what the (possibly mutated) header declares: unlimited only
                    // when that is small
                    let declared = if b.len() >= 8 { u32::from_le_bytes([b[4], b[5], b[6], b[7]]) } else { 0 };
                    lim.max_msg = if declared <= 100_000 && rng.chance(1, 3) { 0 } else { *rng.pick(&[8usize, 64, 8192, 65535]) };
                }
                let _ = size;
                out.push(format!("dec {} {} x{}", ty, lim.show(), hex(&b)));
            }
            // (ii''') the object-id dispatch of service messages
            {
                let d = dispatch::DISPATCHED;
                let (id, name) = d[(case * 5 + 1) % d.len()];
                let bytes = {
                    let mut g = Gen::new(rng);
                    g.lens = vec![0, 1, 2, 3, 5];
                    g.struct_bytes(name, true).0
                };
                let id = match rng.below(10) {
                    // ObjectIds that are not dispatched, numbers that are no ObjectId, another message's id
                    0 => *rng.pick(&[78u32, 80, 628, 2253, 15957]),
                    1 => *rng.pick(&[0u32, 1, 77, 999_999, u32::MAX]),
                    2 => d[rng.below(d.len() as u64) as usize].0,
                    _ => id,
                };
                if bytes.len() <= 3000 {
                    let lim = limits(rng);
                    let m = if rng.chance(1, 2) { bytes } else { mutate(rng, &bytes) };
                    out.push(format!("msg {} {} x{}", id, lim.show(), hex(&m)));
                }
            }
            // (ii+) systematic: the Variant mask sweep (all 256 masks x 8 shapes, enumerated completely by a quick run), and
            //       every truncation of one short valid encoding / structure per case
            {
                // two points per case: 1024 cases enumerate all 2048 (mask, shape) points
                for k in [2 * case, 2 * case + 1] {
                    let lim = if k % 5 == 0 { Lim { max_arr: 1, ..Lim::default() } } else { Lim::default() };
                    let b = Gen::new(rng).variant_mask_sweep(k % 2048);
                    out.push(format!("dec Variant {} x{}", lim.show(), hex(&b)));
                }
                if case % 4 == 1 {
                    let v = {
                        let mut g = Gen::new(rng);
                        g.lens = vec![0, 1, 2];
                        g.arr_lens = vec![0, 1, 2];
                        g.ill_formed = false;
                        g.val(2)
                    };
                    if let Some(bytes) = v.try_encode() {
                        for p in all_prefixes(&bytes, 48) {
                            out.push(format!("dec {} {} x{}", v.type_name(), Lim::default().show(), hex(&p)));
                        }
                    }
                }
                if case % 4 == 3 {
                    let names = dispatch::SCHEMAS;
                    let name = names[(case / 4 * 13 + 1) % names.len()].0;
                    let bytes = {
                        let mut g = Gen::new(rng);
                        g.lens = vec![0, 1, 2];
                        g.struct_bytes(name, false).0
                    };
                    for p in all_prefixes(&bytes, 40) {
                        out.push(format!("sdec {} {} x{}", name, Lim::default().show(), hex(&p)));
                    }
                }
            }
            // first-byte sweeps: every mask / type byte of DataValue, DiagnosticInfo, LocalizedText, NodeId,
            // ExpandedNodeId and the ExtensionObject body (6 x 256 points, one per case)
            {
                let (ty, b) = byte_sweep(case);
                out.push(format!("dec {} {} x{}", ty, Lim::default().show(), hex(&b)));
            }
            // length-field sweep: 8 length-bearing leaves x 12 declared lengths (-2, -1, 0, 1, i32::MIN, i32::MIN+1,
            // i32::MAX, limit-1, limit, limit+1, limit+2, 3) under small limits
            {
                let lim = Lim { max_str: 2 + (case % 3), max_bytes: 2 + (case % 4), max_arr: 2 + (case % 2), max_depth: 10, max_msg: 0, named: 0 };
                let (ty, b) = length_sweep(case, &lim);
                out.push(format!("dec {} {} x{}", ty, lim.show(), hex(&b)));
            }
            // limits at / beyond the i32 and u32 boundaries (a usize limit cast to a narrower type wraps there).
            // Only UNMUTATED valid encodings are decoded under them: with such limits a declared length of
            // i32::MAX is within the configured maximum and the decoder may rightly try to allocate it.
            {
                let huge = |rng: &mut Rng| Lim {
                    max_str: *rng.pick(&HUGE_LIMITS),
                    max_bytes: *rng.pick(&HUGE_LIMITS),
                    max_arr: *rng.pick(&HUGE_LIMITS),
                    max_depth: if rng.chance(1, 2) { *rng.pick(&HUGE_LIMITS) as u64 } else { 10 },
                    max_msg: 0,
                    named: 0,
                };
                let v = {
                    let mut g = Gen::new(rng);
                    g.ill_formed = false;
                    g.val(2)
                };
                if let Some(bytes) = v.try_encode() {
                    let lim = huge(rng);
                    out.push(format!("dec {} {} x{}", v.type_name(), lim.show(), hex(&bytes)));
                }
                if case % 2 == 0 {
                    let names = dispatch::SCHEMAS;
                    let name = names[(case / 2 * 17 + 2) % names.len()].0;
                    let (bytes, ok) = {
                        let mut g = Gen::new(rng);
                        g.lens = vec![0, 1, 2, 3];
                        g.struct_bytes(name, false)
                    };
                    if ok && bytes.len() <= 3000 {
                        let lim = huge(rng);
                        out.push(format!("sdec {} {} x{}", name, lim.show(), hex(&bytes)));
                    }
                }
            }
            // (iii) nesting families
            {
                let (ty, prefix, tail) = rng.pick(&fams).clone();
                let lim = limits(rng);
                let d = lim.max_depth as usize;
                let k = match rng.below(8) {
                    0 => 1,
                    1 => d.saturating_sub(1),
                    2 => d,
                    3 => d + 1,
                    4 => d / 2 + 1,
                    5 => 100,
                    6 => 1000,
                    _ => 3 + rng.below(12) as usize,
                };
                out.push(format!("dec {} {} x{}", ty, lim.show(), hex(&nest(&prefix, k, &tail))));
                if case % huge_every == huge_every - 1 {
                    // keep the deep ones last in the case: an abort skips only what follows
                    let (ty, prefix, tail) = fams[(case / huge_every) % fams.len()].clone();
                    let big = if tier == Tier::Thorough { 200_000 } else { 200_000 / prefix.len().max(2) * 2 };
                    out.push(format!("dec {} {} x{}", ty, Lim::default().show(), hex(&nest(&prefix, big, &tail))));
                }
            }
        }
    }

    fn runner(&self) -> Box<dyn Runner> {
        Box::new(R)
    }
}

struct R;

fn class_of(bytes: &[u8]) -> &'static str {
    if bytes.len() > 5000 {
        "deep-nesting"
    } else {
        "bytes"
    }
}

impl Runner for R {
    fn step(&mut self, toks: &[&str]) -> (String, Verdict) {
        match toks {
            ["reset", ..] => ("ok".to_string(), Verdict::Ok),
            ["sdec", name, opts, h] => {
                let (lim, bytes) = match (Lim::parse(opts), unhex(h)) {
                    (Some(l), Some(b)) => (l, b),
                    _ => return ("bad-op".to_string(), Verdict::Ok),
                };
                let (r, peak) = metered(|| run_sdec(name, &lim, &bytes));
                // an array of structures: `Vec::with_capacity(len)` of the structure's size
                let bound = lim.max_str.max(lim.max_bytes).max(lim.max_arr.saturating_mul(4096)).max(bytes.len() * 4).saturating_add(SLACK);
                let v = if peak > bound {
                    Verdict::fail("alloc_bounded", name, format!("requested {} bytes > {} under {:?}", peak, bound, lim))
                } else {
                    Verdict::Ok
                };
                (r.0, v)
            }
            ["msg", id, opts, h] => {
                let (id, lim, bytes) = match (id.parse::<u32>(), Lim::parse(opts), unhex(h)) {
                    (Ok(i), Some(l), Some(b)) => (i, l, b),
                    _ => return ("bad-op".to_string(), Verdict::Ok),
                };
                let (line, peak) = metered(|| run_msg(id, &lim, &bytes));
                let bound = lim.max_str.max(lim.max_bytes).max(lim.max_arr.saturating_mul(4096)).max(bytes.len() * 4).saturating_add(SLACK);
                let v = if peak > bound {
                    Verdict::fail("alloc_bounded", "msg", format!("requested {} bytes > {} under {:?}", peak, bound, lim))
                } else {
                    Verdict::Ok
                };
                (line, v)
            }
            ["dec", ty @ ("MsgHeader" | "Hello" | "Ack" | "Error" | "ChunkHeader" | "ReadBytes"), opts, h] => {
                let (lim, bytes) = match (Lim::parse(opts), unhex(h)) {
                    (Some(l), Some(b)) => (l, b),
                    _ => return ("bad-op".to_string(), Verdict::Ok),
                };
                let (line, peak) = metered(|| run_tcp(ty, &lim, &bytes));
                // the url / reason is a string under max_string_length; read_bytes allocates the
                // declared size, which max_message_size bounds (2^32-1 when unlimited)
                let bound = if *ty == "ReadBytes" {
                    (if lim.max_msg > 0 { lim.max_msg } else { u32::MAX as usize }).max(bytes.len()).saturating_mul(3).saturating_add(SLACK)
                } else {
                    lim.max_str.max(bytes.len()).saturating_mul(3).saturating_add(SLACK)
                };
                let v = if peak > bound {
                    Verdict::fail("alloc_bounded", ty, format!("requested {} bytes > {} under {:?}", peak, bound, lim))
                } else {
                    Verdict::Ok
                };
                (line.unwrap_or_else(|| "bad-op".to_string()), v)
            }
            ["dec", ty, opts, h] => {
                let (lim, bytes) = match (Lim::parse(opts), unhex(h)) {
                    (Some(l), Some(b)) => (l, b),
                    _ => return ("bad-op".to_string(), Verdict::Ok),
                };
                let class = class_of(&bytes);
                let o = lim.options();
                if *ty == "Chunk" {
                    let mut c = std::io::Cursor::new(&bytes[..]);
                    let (r, peak) = metered(|| opcua::core::comms::message_chunk::MessageChunk::decode(&mut c, &o));
                    let bound = (if lim.max_msg > 0 { lim.max_msg.max(12) } else { u32::MAX as usize }).saturating_add(SLACK);
                    let v = if peak > bound {
                        Verdict::fail("alloc_bounded", class, format!("requested {} > {}", peak, bound))
                    } else {
                        Verdict::Ok
                    };
                    return match r {
                        Ok(chunk) => (format!("ok {} x{}", c.position(), hex(&chunk.data)), v),
                        Err(_) => ("err".to_string(), v),
                    };
                }
                let (r, peak) = metered(|| Val::decode(ty, &bytes, &o));
                let bound = alloc_bound(&lim);
                let alloc_v = if peak > bound {
                    Some(Verdict::fail("alloc_bounded", class, format!("requested {} bytes > {} under {:?}", peak, bound, lim)))
                } else {
                    None
                };
                match r {
                    None => ("bad-op".to_string(), Verdict::Ok),
                    Some(Err(_)) => ("err".to_string(), alloc_v.unwrap_or(Verdict::Ok)),
                    Some(Ok((v, pos))) => {
                        let e = Extent::of(&v);
                        let (re, _) = v.encode();
                        let line = format!("ok {} x{} = {}", pos, hex(&re), v.tree());
                        let verdict = if e.nest > lim.max_depth {
                            Verdict::fail("depth_limited", class, format!("accepted nesting {} > max depth {}", e.nest, lim.max_depth))
                        } else {
                            alloc_v.unwrap_or(Verdict::Ok)
                        };
                        (line, verdict)
                    }
                }
            }
            _ => ("bad-op".to_string(), Verdict::Ok),
        }
    }
}
