//! C13 — channel keys are derived per the specification and agree on both ends.
//!
//! Real code: `SecurityPolicy::make_secure_channel_keys`, `hash::p_sha`, `hash::hmac_sha1/256`,
//! `SecureChannel::derive_keys` (tuples read through the `verif_hooks::crypto` accessor).
//! Oracle: an independent RFC 2104 / RFC 5246 computation that uses only OpenSSL's plain digests,
//! the Part 6 key-length table written by hand, role-swapped equality on two real channels and
//! distinctness of the keys derived within a case.
use crate::common::*;
use crate::fixtures;
use opcua::core::comms::secure_channel::{Role, SecureChannel};
use opcua::crypto::{hash as ohash, CertificateStore, SecurityPolicy};
use opcua::sync::RwLock;
use opcua::types::DecodingOptions;
use std::sync::Arc;
use opcua::verif_hooks::crypto as hook;
use openssl::hash::{hash, MessageDigest};
use std::collections::HashMap;

pub struct C13;
pub static P: C13 = C13;

const POLICIES: [&str; 5] = [
    "basic128rsa15",
    "basic256",
    "basic256sha256",
    "aes128sha256rsaoaep",
    "aes256sha256rsapss",
];

fn policy(s: &str) -> Option<SecurityPolicy> {
    Some(match s {
        "none" => SecurityPolicy::None,
        "basic128rsa15" => SecurityPolicy::Basic128Rsa15,
        "basic256" => SecurityPolicy::Basic256,
        "basic256sha256" => SecurityPolicy::Basic256Sha256,
        "aes128sha256rsaoaep" => SecurityPolicy::Aes128Sha256RsaOaep,
        "aes256sha256rsapss" => SecurityPolicy::Aes256Sha256RsaPss,
        "unknown" => SecurityPolicy::Unknown,
        _ => return None,
    })
}

/// Part 6 / Part 7 profile table, written by hand: (P_hash digest, signing key, encrypting key, IV) in bytes.
fn part6(p: &str) -> Option<(&'static str, usize, usize, usize)> {
    Some(match p {
        "basic128rsa15" => ("sha1", 16, 16, 16),
        "basic256" => ("sha1", 24, 32, 16),
        "basic256sha256" => ("sha256", 32, 32, 16),
        "aes128sha256rsaoaep" => ("sha256", 32, 16, 16),
        "aes256sha256rsapss" => ("sha256", 32, 32, 16),
        _ => return None,
    })
}

fn md(alg: &str) -> Option<MessageDigest> {
    match alg {
        "sha1" => Some(MessageDigest::sha1()),
        "sha256" => Some(MessageDigest::sha256()),
        _ => None,
    }
}

/// RFC 2104 over a plain digest (block size 64 for SHA-1 and SHA-256)
fn ref_hmac(alg: &str, key: &[u8], data: &[u8]) -> Vec<u8> {
    let d = md(alg).unwrap();
    let mut k = if key.len() > 64 { hash(d, key).unwrap().to_vec() } else { key.to_vec() };
    k.resize(64, 0);
    let mut inner: Vec<u8> = k.iter().map(|b| b ^ 0x36).collect();
    inner.extend_from_slice(data);
    let ih = hash(d, &inner).unwrap();
    let mut outer: Vec<u8> = k.iter().map(|b| b ^ 0x5c).collect();
    outer.extend_from_slice(&ih);
    hash(d, &outer).unwrap().to_vec()
}

/// RFC 5246 §5 P_hash, first `n` bytes
fn ref_p_hash(alg: &str, secret: &[u8], seed: &[u8], n: usize) -> Vec<u8> {
    let mut out = Vec::new();
    let mut a = seed.to_vec(); // A(0)
    while out.len() < n {
        a = ref_hmac(alg, secret, &a); // A(i)
        let mut m = a.clone();
        m.extend_from_slice(seed);
        out.extend(ref_hmac(alg, secret, &m));
    }
    out.truncate(n);
    out
}

fn ref_keys(p: &str, secret: &[u8], seed: &[u8]) -> Option<(Vec<u8>, Vec<u8>, Vec<u8>)> {
    let (alg, sk, ek, iv) = part6(p)?;
    let s = ref_p_hash(alg, secret, seed, sk + ek + iv);
    Some((s[..sk].to_vec(), s[sk..sk + ek].to_vec(), s[sk + ek..].to_vec()))
}

fn show(k: &(Vec<u8>, Vec<u8>, Vec<u8>)) -> String {
    format!("x{},x{},x{}", hex(&k.0), hex(&k.1), hex(&k.2))
}

fn nonce(rng: &mut Rng, pol_len: usize) -> Vec<u8> {
    let len = match rng.weighted(&[6, 3, 3, 2]) {
        0 => pol_len,
        1 => *rng.pick(&[0usize, 1, 15, 16, 17, 31, 32, 33, 63, 64]),
        2 => rng.below(65) as usize,
        _ => *rng.pick(&[20usize, 55, 56, 64]), // digest size, padding boundaries
    };
    match rng.weighted(&[6, 1, 1, 1]) {
        0 => rng.bytes(len),
        1 => vec![0u8; len],
        2 => vec![0xffu8; len],
        _ => {
            let b = rng.next() as u8;
            vec![b; len]
        }
    }
}

/// Deterministic enumeration of every length boundary: HMAC key vs the 64-byte block, data vs the
/// Merkle–Damgård padding boundary, P_hash length vs the digest size (0, h-1, h, h+1, 2h-1, 2h, 2h+1, 3h),
/// every policy with nonces of length 0, 1, policy-1, policy, policy+1, 64, equal / one bit apart.
fn systematic(out: &mut Vec<String>) {
    let bytes = |l: usize, seed: u8| -> Vec<u8> { (0..l).map(|i| (i as u8).wrapping_mul(31).wrapping_add(seed)).collect() };
    for alg in ["sha1", "sha256"] {
        out.push("reset".to_string());
        for kl in [0usize, 1, 20, 32, 63, 64, 65, 66, 127, 128, 129] {
            for dl in [0usize, 1, 54, 55, 56, 57, 63, 64, 65, 119, 120, 121, 128] {
                out.push(format!("hmac {} x{} x{}", alg, hex(&bytes(kl, 7)), hex(&bytes(dl, 11))));
            }
        }
        let h = if alg == "sha1" { 20 } else { 32 };
        out.push("reset".to_string());
        for sl in [0usize, 1, 32, 64, 65] {
            for dl in [0usize, 1, 32] {
                for n in [0usize, 1, h - 1, h, h + 1, 2 * h - 1, 2 * h, 2 * h + 1, 3 * h, 3 * h + 1, 80, 96] {
                    out.push(format!("psha {} x{} x{} {}", alg, hex(&bytes(sl, 3)), hex(&bytes(dl, 5)), n));
                }
            }
        }
    }
    for p in POLICIES {
        let pl = policy(p).unwrap().secure_channel_nonce_length();
        out.push("reset".to_string());
        for la in [0usize, 1, pl - 1, pl, pl + 1, 64] {
            for lb in [0usize, pl, pl + 1] {
                let a = bytes(la, 1);
                let b = bytes(lb, 2);
                out.push(format!("keys {} x{} x{}", p, hex(&a), hex(&b)));
                out.push(format!("chan {} x{} x{}", p, hex(&a), hex(&b)));
            }
        }
        let a = bytes(pl, 9);
        let mut b = a.clone();
        out.push(format!("keys {} x{} x{}", p, hex(&a), hex(&b)));
        out.push(format!("chan {} x{} x{}", p, hex(&a), hex(&b)));
        b[pl - 1] ^= 1;
        out.push(format!("keys {} x{} x{}", p, hex(&a), hex(&b)));
        out.push(format!("chan {} x{} x{}", p, hex(&a), hex(&b)));
    }
    // zero-padding-equivalent secrets (known finding): same key material, in every run
    for p in POLICIES {
        out.push("reset".to_string());
        out.push(format!("keys {} x0102 x0a0b0c", p));
        out.push(format!("keys {} x010200 x0a0b0c", p));
        out.push(format!("keys {} x x0a0b0c", p));
        out.push(format!("keys {} x00 x0a0b0c", p));
        // … but not for the seed, and not beyond the block size
        out.push(format!("keys {} x0a0b0c x0102", p));
        out.push(format!("keys {} x0a0b0c x010200", p));
        out.push(format!("keys {} x{} x0a0b0c", p, hex(&bytes(64, 1))));
        out.push(format!("keys {} x{}00 x0a0b0c", p, hex(&bytes(64, 1))));
        out.push("reset".to_string());
        let ff = vec![0xffu8; 32];
        out.push(format!("chan {} x{} x{}", p, hex(&[0u8; 32]), hex(&ff)));
        out.push(format!("chan {} x x{}", p, hex(&ff)));
    }
    for p in ["none", "unknown"] {
        for kind in ["keys", "chan"] {
            out.push("reset".to_string());
            out.push(format!("{} {} x0102 x0304", kind, p));
        }
    }
}

impl Prop for C13 {
    fn id(&self) -> &'static str {
        "C13"
    }

    fn gen(&self, rng: &mut Rng, n: usize, tier: Tier, out: &mut Vec<String>) {
        systematic(out);
        for _ in 0..n {
            out.push("reset".to_string());
            let k = rng.range(1, 5);
            for _ in 0..k {
                match rng.weighted(&[8, 6, 3, 3, 1]) {
                    0 | 1 => {
                        let p = *rng.pick(&POLICIES);
                        let pl = policy(p).unwrap().secure_channel_nonce_length();
                        let a = nonce(rng, pl);
                        // sometimes the same nonce on both sides, sometimes one byte apart
                        let b = match rng.weighted(&[8, 1, 2]) {
                            0 => nonce(rng, pl),
                            1 => a.clone(),
                            _ => {
                                let mut b = a.clone();
                                if !b.is_empty() {
                                    let i = rng.below(b.len() as u64) as usize;
                                    b[i] ^= 1 << rng.below(8);
                                }
                                b
                            }
                        };
                        let kind = if rng.chance(1, 2) { "keys" } else { "chan" };
                        out.push(format!("{} {} x{} x{}", kind, p, hex(&a), hex(&b)));
                    }
                    2 => {
                        let alg = *rng.pick(&["sha1", "sha256"]);
                        let max = if tier == Tier::Thorough { 600 } else { 200 };
                        let len = match rng.weighted(&[3, 2]) {
                            0 => *rng.pick(&[0usize, 1, 19, 20, 21, 31, 32, 33, 39, 40, 41, 63, 64, 65, 80, 96, 100]),
                            _ => rng.below(max) as usize,
                        };
                        let a = nonce(rng, 32);
                        let b = nonce(rng, 32);
                        out.push(format!("psha {} x{} x{} {}", alg, hex(&a), hex(&b), len));
                    }
                    3 => {
                        let alg = *rng.pick(&["sha1", "sha256"]);
                        let kl = match rng.weighted(&[2, 2]) {
                            0 => *rng.pick(&[0usize, 1, 20, 32, 63, 64, 65, 127, 128, 129, 200]),
                            _ => rng.below(140) as usize,
                        };
                        let dl = match rng.weighted(&[2, 2]) {
                            0 => *rng.pick(&[0usize, 1, 54, 55, 56, 57, 63, 64, 65, 119, 120, 128]),
                            _ => rng.below(300) as usize,
                        };
                        out.push(format!("hmac {} x{} x{}", alg, hex(&rng.bytes(kl)), hex(&rng.bytes(dl))));
                    }
                    _ => {
                        let p = *rng.pick(&["none", "unknown"]);
                        let kind = if rng.chance(1, 2) { "keys" } else { "chan" };
                        out.push(format!("{} {} x{} x{}", kind, p, hex(&rng.bytes(32)), hex(&rng.bytes(32))));
                    }
                }
            }
        }
    }

    fn runner(&self) -> Box<dyn Runner> {
        Box::new(R { seen: HashMap::new() })
    }
}

struct R {
    /// key tuple → the (policy, secret, seed) that produced it in this case
    seen: HashMap<(String, Vec<u8>, Vec<u8>, Vec<u8>), (Vec<u8>, Vec<u8>)>,
}

impl R {
    /// "Different nonces give different keys", over the keys derived within this case
    fn distinct(&mut self, p: &str, secret: &[u8], seed: &[u8], k: &(Vec<u8>, Vec<u8>, Vec<u8>)) -> Option<Verdict> {
        let key = (p.to_string(), k.0.clone(), k.1.clone(), k.2.clone());
        if let Some((s0, d0)) = self.seen.get(&key) {
            if s0 != secret || d0 != seed {
                // input class: HMAC zero-pads keys up to its 64-byte block, so two secrets that are equal
                // after stripping trailing zero bytes are the same key (format-inherent, recorded)
                let strip = |x: &[u8]| -> Vec<u8> {
                    let mut v = x.to_vec();
                    while v.last() == Some(&0) {
                        v.pop();
                    }
                    v
                };
                let class = if d0 == seed && s0.len() <= 64 && secret.len() <= 64 && strip(s0) == strip(secret) {
                    "zero-padding-equivalent"
                } else {
                    "keys"
                };
                return Some(Verdict::fail("distinct", class, "two different nonce pairs gave the same key tuple"));
            }
        }
        self.seen.insert(key, (secret.to_vec(), seed.to_vec()));
        None
    }
}

/// A real `SecureChannel` (over an empty certificate store: key derivation needs no certificate).
fn channel(role: Role, p: SecurityPolicy, local: &[u8], remote: &[u8]) -> SecureChannel {
    let store = Arc::new(RwLock::new(CertificateStore::new(&fixtures::scratch_dir().join("c13-pki"))));
    let mut ch = SecureChannel::new(store, role, DecodingOptions::default());
    ch.set_security_policy(p);
    ch.set_local_nonce(local);
    ch.set_remote_nonce(remote);
    ch.derive_keys();
    ch
}

impl Runner for R {
    fn step(&mut self, toks: &[&str]) -> (String, Verdict) {
        match toks {
            ["reset"] => ("ok".to_string(), Verdict::Ok),
            ["keys", p, a, b] => {
                let (Some(pol), Some(secret), Some(seed)) = (policy(p), unhex(a), unhex(b)) else {
                    return ("bad-op".to_string(), Verdict::Ok);
                };
                let (sk, ek, iv) = pol.make_secure_channel_keys(&secret, &seed);
                let got = (sk, ek.value().to_vec(), iv);
                let res = format!("ok {}", show(&got));
                let v = match ref_keys(p, &secret, &seed) {
                    None => Verdict::fail("supported", "keys", "keys derived for a policy without a key table"),
                    Some(want) if want != got => {
                        Verdict::fail("table33", "keys", format!("got {} want {}", show(&got), show(&want)))
                    }
                    Some(_) => self.distinct(p, &secret, &seed, &got).unwrap_or(Verdict::Ok),
                };
                (res, v)
            }
            ["chan", p, a, b] => {
                let (Some(pol), Some(ln), Some(rn)) = (policy(p), unhex(a), unhex(b)) else {
                    return ("bad-op".to_string(), Verdict::Ok);
                };
                let cha = channel(Role::Client, pol, &ln, &rn);
                let (Some(al), Some(ar)) = hook::secure_channel_derived_keys(&cha) else {
                    return ("err nokeys".to_string(), Verdict::fail("derived", "chan", "no keys after derive_keys"));
                };
                let res = format!("ok l={} r={}", show(&al), show(&ar));
                // the peer: same nonces, roles swapped
                let chb = channel(Role::Server, pol, &rn, &ln);
                let (Some(bl), Some(br)) = hook::secure_channel_derived_keys(&chb) else {
                    return (res, Verdict::fail("derived", "chan", "no keys after derive_keys (peer)"));
                };
                let v = if al != br || ar != bl {
                    Verdict::fail("roles_agree", "chan", "keys used to secure differ from the keys the peer verifies with")
                } else {
                    // Table 33: the keys securing what the local side sends use secret = remote nonce, seed = local nonce
                    match (ref_keys(p, &rn, &ln), ref_keys(p, &ln, &rn)) {
                        (Some(wl), Some(wr)) => {
                            if wl != al {
                                Verdict::fail("table33", "chan-local", format!("got {} want {}", show(&al), show(&wl)))
                            } else if wr != ar {
                                Verdict::fail("table33", "chan-remote", format!("got {} want {}", show(&ar), show(&wr)))
                            } else {
                                let d1 = self.distinct(p, &rn, &ln, &al);
                                let d2 = self.distinct(p, &ln, &rn, &ar);
                                d1.or(d2).unwrap_or(Verdict::Ok)
                            }
                        }
                        _ => Verdict::fail("supported", "chan", "keys derived for a policy without a key table"),
                    }
                };
                (res, v)
            }
            ["psha", alg, a, b, n] => {
                let (Some(d), Some(secret), Some(seed), Ok(n)) = (md(alg), unhex(a), unhex(b), n.parse::<usize>()) else {
                    return ("bad-op".to_string(), Verdict::Ok);
                };
                let got = ohash::p_sha(d, &secret, &seed, n);
                let want = ref_p_hash(alg, &secret, &seed, n);
                let v = if got.len() != n {
                    Verdict::fail("p_hash_len", "psha", format!("{} != {}", got.len(), n))
                } else if got != want {
                    Verdict::fail("p_hash", "psha", format!("got x{} want x{}", hex(&got), hex(&want)))
                } else {
                    Verdict::Ok
                };
                (format!("ok x{}", hex(&got)), v)
            }
            ["hmac", alg, a, b] => {
                let (Some(_), Some(key), Some(data)) = (md(alg), unhex(a), unhex(b)) else {
                    return ("bad-op".to_string(), Verdict::Ok);
                };
                let mut sig = vec![0u8; if *alg == "sha1" { 20 } else { 32 }];
                let r = if *alg == "sha1" {
                    ohash::hmac_sha1(&key, &data, &mut sig)
                } else {
                    ohash::hmac_sha256(&key, &data, &mut sig)
                };
                match r {
                    Err(e) => (format!("err {}", e), Verdict::fail("hmac", "hmac", "hmac failed")),
                    Ok(()) => {
                        let want = ref_hmac(alg, &key, &data);
                        let ok = want == sig
                            && if *alg == "sha1" {
                                ohash::verify_hmac_sha1(&key, &data, &sig)
                            } else {
                                ohash::verify_hmac_sha256(&key, &data, &sig)
                            };
                        let v = if ok { Verdict::Ok } else { Verdict::fail("hmac", "hmac", "differs from RFC 2104") };
                        (format!("ok x{}", hex(&sig)), v)
                    }
                }
            }
            _ => ("bad-op".to_string(), Verdict::Ok),
        }
    }

    /// `None`/`Unknown` have no channel keys (the callers of `derive_keys` exclude them); the
    /// property quantifies over supported policies, so the `panic!("Invalid policy")` there is not
    /// a violation.  A panic anywhere else is.
    fn on_panic(&self, toks: &[&str]) -> Verdict {
        match toks {
            ["keys" | "chan", "none" | "unknown", ..] => Verdict::Ok,
            _ => Verdict::fail("no_panic", "-", "implementation panicked"),
        }
    }
}
