//! C06 — implicit Variant conversion never changes a numeric value; explicit casts to integer
//! types round to nearest and give no result exactly when the rounded value is out of range.
//!
//! ops:  reset
//!       convert <src> <dst> <value>      Variant::convert (implicit)
//!       cast    <src> <dst> <value>      Variant::cast    (explicit)
//! types: bool i8 u8 i16 u16 i32 u32 i64 u64 f32 f64; values: decimal, `g<8 hex>` (f32 bits),
//! `f<16 hex>` (f64 bits).  result: `ok -` (Variant::Empty) | `ok <type>:<value>`.
use crate::common::*;
use opcua::types::{Variant, VariantTypeId};

pub struct C06;
pub static P: C06 = C06;

#[derive(Clone, Copy, PartialEq, Eq, Debug)]
pub(crate) enum T {
    Bool,
    I8,
    U8,
    I16,
    U16,
    I32,
    U32,
    I64,
    U64,
    F32,
    F64,
}
pub(crate) use T::*;

pub(crate) const ALL: [T; 11] = [Bool, I8, U8, I16, U16, I32, U32, I64, U64, F32, F64];

impl T {
    pub(crate) fn name(self) -> &'static str {
        match self {
            Bool => "bool",
            I8 => "i8",
            U8 => "u8",
            I16 => "i16",
            U16 => "u16",
            I32 => "i32",
            U32 => "u32",
            I64 => "i64",
            U64 => "u64",
            F32 => "f32",
            F64 => "f64",
        }
    }
    pub(crate) fn parse(s: &str) -> Option<T> {
        ALL.iter().copied().find(|t| t.name() == s)
    }
    pub(crate) fn is_float(self) -> bool {
        matches!(self, F32 | F64)
    }
    /// value range of the integer types (Boolean: 0..1)
    pub(crate) fn range(self) -> (i128, i128) {
        match self {
            Bool => (0, 1),
            I8 => (i8::MIN as i128, i8::MAX as i128),
            U8 => (0, u8::MAX as i128),
            I16 => (i16::MIN as i128, i16::MAX as i128),
            U16 => (0, u16::MAX as i128),
            I32 => (i32::MIN as i128, i32::MAX as i128),
            U32 => (0, u32::MAX as i128),
            I64 => (i64::MIN as i128, i64::MAX as i128),
            U64 => (0, u64::MAX as i128),
            F32 | F64 => (0, 0),
        }
    }
    pub(crate) fn type_id(self) -> VariantTypeId {
        match self {
            Bool => VariantTypeId::Boolean,
            I8 => VariantTypeId::SByte,
            U8 => VariantTypeId::Byte,
            I16 => VariantTypeId::Int16,
            U16 => VariantTypeId::UInt16,
            I32 => VariantTypeId::Int32,
            U32 => VariantTypeId::UInt32,
            I64 => VariantTypeId::Int64,
            U64 => VariantTypeId::UInt64,
            F32 => VariantTypeId::Float,
            F64 => VariantTypeId::Double,
        }
    }
}

#[derive(Clone, Copy, Debug)]
pub(crate) enum V {
    I(i128),
    F32(f32),
    F64(f64),
}

pub(crate) fn in_range(t: T, x: i128) -> bool {
    let (lo, hi) = t.range();
    lo <= x && x <= hi
}

pub(crate) fn parse_val(t: T, s: &str) -> Option<V> {
    match t {
        F32 => {
            let h = s.strip_prefix('g')?;
            if h.len() != 8 {
                return None;
            }
            Some(V::F32(f32::from_bits(u32::from_str_radix(h, 16).ok()?)))
        }
        F64 => {
            let h = s.strip_prefix('f')?;
            if h.len() != 16 {
                return None;
            }
            Some(V::F64(f64::from_bits(u64::from_str_radix(h, 16).ok()?)))
        }
        _ => {
            let x: i128 = s.parse().ok()?;
            if in_range(t, x) {
                Some(V::I(x))
            } else {
                None
            }
        }
    }
}

pub(crate) fn to_variant(t: T, v: V) -> Variant {
    match (t, v) {
        (Bool, V::I(x)) => Variant::Boolean(x == 1),
        (I8, V::I(x)) => Variant::SByte(x as i8),
        (U8, V::I(x)) => Variant::Byte(x as u8),
        (I16, V::I(x)) => Variant::Int16(x as i16),
        (U16, V::I(x)) => Variant::UInt16(x as u16),
        (I32, V::I(x)) => Variant::Int32(x as i32),
        (U32, V::I(x)) => Variant::UInt32(x as u32),
        (I64, V::I(x)) => Variant::Int64(x as i64),
        (U64, V::I(x)) => Variant::UInt64(x as u64),
        (F32, V::F32(x)) => Variant::Float(x),
        (F64, V::F64(x)) => Variant::Double(x),
        _ => unreachable!(),
    }
}

/// None = Empty; Some(Err) = a non-numeric variant
pub(crate) fn from_variant(v: &Variant) -> Option<Result<(T, V), ()>> {
    Some(Ok(match v {
        Variant::Empty => return None,
        Variant::Boolean(b) => (Bool, V::I(*b as i128)),
        Variant::SByte(x) => (I8, V::I(*x as i128)),
        Variant::Byte(x) => (U8, V::I(*x as i128)),
        Variant::Int16(x) => (I16, V::I(*x as i128)),
        Variant::UInt16(x) => (U16, V::I(*x as i128)),
        Variant::Int32(x) => (I32, V::I(*x as i128)),
        Variant::UInt32(x) => (U32, V::I(*x as i128)),
        Variant::Int64(x) => (I64, V::I(*x as i128)),
        Variant::UInt64(x) => (U64, V::I(*x as i128)),
        Variant::Float(x) => (F32, V::F32(*x)),
        Variant::Double(x) => (F64, V::F64(*x)),
        _ => return Some(Err(())),
    }))
}

pub(crate) fn show_val(v: V) -> String {
    match v {
        V::I(x) => format!("{}", x),
        V::F32(x) => {
            if x.is_nan() {
                "nan".to_string()
            } else {
                format!("g{:08x}", x.to_bits())
            }
        }
        V::F64(x) => {
            if x.is_nan() {
                "nan".to_string()
            } else {
                format!("f{:016x}", x.to_bits())
            }
        }
    }
}

pub(crate) fn show_op_val(v: V) -> String {
    match v {
        V::I(x) => format!("{}", x),
        V::F32(x) => format!("g{:08x}", x.to_bits()),
        V::F64(x) => format!("f{:016x}", x.to_bits()),
    }
}

// ---------------------------------------------------------------------------------------------
// exact float arithmetic for the oracle (written from IEEE-754, not from the model)
// ---------------------------------------------------------------------------------------------

/// A finite float as (negative, odd-or-zero mantissa, exponent): value = ±m·2^e.  None: NaN/±∞.
#[derive(Clone, Copy, PartialEq, Eq, Debug)]
struct Dy {
    neg: bool,
    m: u64,
    e: i32,
}

fn dyadic(v: V) -> Option<Dy> {
    let (neg, ex, mant, mbits, bias): (bool, i32, u64, i32, i32) = match v {
        V::F32(x) => {
            let b = x.to_bits();
            (b >> 31 == 1, ((b >> 23) & 0xff) as i32, (b & 0x7f_ffff) as u64, 23, 127)
        }
        V::F64(x) => {
            let b = x.to_bits();
            (b >> 63 == 1, ((b >> 52) & 0x7ff) as i32, b & 0xf_ffff_ffff_ffff, 52, 1023)
        }
        V::I(_) => unreachable!(),
    };
    let emax = if mbits == 23 { 0xff } else { 0x7ff };
    if ex == emax {
        return None;
    }
    let (mut m, mut e) = if ex == 0 {
        (mant, 1 - bias - mbits)
    } else {
        (mant | (1u64 << mbits), ex - bias - mbits)
    };
    if m == 0 {
        return Some(Dy { neg, m: 0, e: 0 });
    }
    while m & 1 == 0 {
        m >>= 1;
        e += 1;
    }
    Some(Dy { neg, m, e })
}

/// (is NaN, is negative) of a non-finite float
fn nonfinite(v: V) -> (bool, bool) {
    match v {
        V::F32(x) => (x.is_nan(), x.is_sign_negative()),
        V::F64(x) => (x.is_nan(), x.is_sign_negative()),
        V::I(_) => (false, false),
    }
}

const BIG: i128 = i128::MAX; // stands for "beyond every 64-bit range"

/// the integers nearest to the finite value (one, or two at an exact tie); ±BIG when the
/// magnitude is at least 2^100
fn nearest_integers(d: Dy) -> Vec<i128> {
    let sgn: i128 = if d.neg { -1 } else { 1 };
    if d.m == 0 {
        return vec![0];
    }
    if d.e >= 0 {
        let bitlen = 64 - d.m.leading_zeros() as i32;
        if d.e + bitlen > 100 {
            return vec![sgn * BIG];
        }
        return vec![sgn * ((d.m as i128) << d.e)];
    }
    let k = (-d.e) as u32;
    if k > 64 {
        // |value| < 2^64 / 2^65 < 1/2
        return vec![0];
    }
    let m = d.m as u128;
    let ip = (m >> k) as i128;
    let fr = m & ((1u128 << k) - 1);
    let half = 1u128 << (k - 1);
    if fr < half {
        vec![sgn * ip]
    } else if fr > half {
        vec![sgn * (ip + 1)]
    } else {
        vec![sgn * ip, sgn * (ip + 1)]
    }
}

/// is the float `r` (F32/F64) a representable value nearest to the integer `x`?
fn is_nearest_float(x: i128, r: V) -> bool {
    let (rf, exact_limit, nb): (f64, i128, [f64; 2]) = match r {
        V::F32(f) => {
            if !f.is_finite() {
                return false;
            }
            let b = f.to_bits();
            (
                f as f64, // exact
                1 << 24,
                [f32::from_bits(b.wrapping_add(1)) as f64, f32::from_bits(b.wrapping_sub(1)) as f64],
            )
        }
        V::F64(f) => {
            if !f.is_finite() {
                return false;
            }
            let b = f.to_bits();
            (f, 1 << 53, [f64::from_bits(b.wrapping_add(1)), f64::from_bits(b.wrapping_sub(1))])
        }
        V::I(_) => return false,
    };
    if rf.fract() != 0.0 || rf.abs() >= 1e30 {
        return false;
    }
    let ri = rf as i128; // exact: integer-valued and far below 2^127
    if x.abs() <= exact_limit {
        return ri == x;
    }
    // beyond the exact region the neighbouring floats are integers too
    let err = (ri - x).abs();
    for n in nb {
        if n.is_finite() && n.fract() == 0.0 && n.abs() < 1e30 {
            if ((n as i128) - x).abs() < err {
                return false;
            }
        }
    }
    // the result must at least be within the binade of x (guards against wrapped bit tricks)
    err <= x.abs() / 2
}

fn value_class(v: V) -> &'static str {
    match v {
        V::I(x) => {
            if x < 0 {
                "neg"
            } else {
                "nonneg"
            }
        }
        V::F32(_) | V::F64(_) => match dyadic(v) {
            None => {
                let nan = match v {
                    V::F32(x) => x.is_nan(),
                    V::F64(x) => x.is_nan(),
                    _ => false,
                };
                if nan {
                    "nan"
                } else {
                    "inf"
                }
            }
            Some(d) => {
                let c = nearest_integers(d);
                if c.len() == 2 {
                    "tie"
                } else if c[0].abs() == BIG {
                    "huge"
                } else if d.neg {
                    "neg"
                } else {
                    "nonneg"
                }
            }
        },
    }
}

/// The property, on the implementation's output alone.
fn oracle(op: &str, s: T, d: T, v: V, res: &Option<Result<(T, V), ()>>) -> Verdict {
    let class = format!("{}-{}-{}", s.name(), d.name(), value_class(v));
    let (rt, rv) = match res {
        None => (None, None),
        Some(Err(())) => return Verdict::fail("result_type", &class, "non-numeric result"),
        Some(Ok((t, v))) => (Some(*t), Some(*v)),
    };
    if let Some(t) = rt {
        if t != d {
            return Verdict::fail("result_type", &class, format!("result has type {}", t.name()));
        }
    }
    match (v, d.is_float()) {
        // integer source, integer target
        (V::I(x), false) => {
            if d == Bool && s != Bool {
                return Verdict::Ok; // the property does not speak about Boolean targets
            }
            match rv {
                Some(V::I(y)) => {
                    if !in_range(d, x) {
                        Verdict::fail("out_of_range_none", &class, format!("{} -> {}", x, y))
                    } else if y != x {
                        Verdict::fail("int_exact", &class, format!("{} -> {}", x, y))
                    } else {
                        Verdict::Ok
                    }
                }
                None => {
                    // an explicit cast must give a result when the value fits
                    if op == "cast" && in_range(d, x) {
                        Verdict::fail("cast_none_iff_out_of_range", &class, format!("{} -> Empty", x))
                    } else {
                        Verdict::Ok
                    }
                }
                _ => Verdict::fail("result_type", &class, "float result for integer target"),
            }
        }
        // integer source, float target: nearest representable
        (V::I(x), true) => match rv {
            Some(r) => {
                if is_nearest_float(x, r) {
                    Verdict::Ok
                } else {
                    Verdict::fail("float_nearest", &class, format!("{} -> {}", x, show_val(r)))
                }
            }
            None => Verdict::Ok,
        },
        // float source, float target: same number when implicit (f32→f64 is always exact);
        // the property says nothing about the explicit narrowing cast
        (_, true) => match rv {
            Some(r) => {
                if op == "cast" && s == F64 && d == F32 {
                    return Verdict::Ok;
                }
                let same = match (dyadic(v), dyadic(r)) {
                    (Some(a), Some(b)) => a == b || (a.m == 0 && b.m == 0),
                    (None, None) => {
                        let (a, b) = (nonfinite(v), nonfinite(r));
                        (a.0 && b.0) || (!a.0 && !b.0 && a.1 == b.1)
                    }
                    _ => false,
                };
                if same {
                    Verdict::Ok
                } else {
                    Verdict::fail("float_exact", &class, format!("{} -> {}", show_val(v), show_val(r)))
                }
            }
            None => Verdict::Ok,
        },
        // float source, integer target
        (_, false) => {
            if d == Bool {
                return Verdict::Ok;
            }
            let cands: Vec<i128> = match dyadic(v) {
                None => vec![],
                Some(dy) => nearest_integers(dy),
            };
            match rv {
                Some(V::I(y)) => {
                    if cands.contains(&y) && in_range(d, y) {
                        if op == "convert" {
                            // an implicit conversion may only succeed without changing the number
                            let dy = dyadic(v).unwrap();
                            if dy.e < 0 {
                                return Verdict::fail("int_exact", &class, format!("{} -> {}", show_val(v), y));
                            }
                        }
                        Verdict::Ok
                    } else if cands.is_empty() {
                        Verdict::fail("cast_nonfinite_none", &class, format!("{} -> {}", show_val(v), y))
                    } else {
                        Verdict::fail("cast_rounds_nearest", &class, format!("{} -> {} (nearest: {:?})", show_val(v), y, cands))
                    }
                }
                None => {
                    if op == "cast" && !cands.is_empty() && cands.iter().all(|c| in_range(d, *c)) {
                        Verdict::fail(
                            "cast_none_iff_out_of_range",
                            &class,
                            format!("{} -> Empty (nearest: {:?})", show_val(v), cands),
                        )
                    } else {
                        Verdict::Ok
                    }
                }
                _ => Verdict::fail("result_type", &class, "float result for integer target"),
            }
        }
    }
}

// ---------------------------------------------------------------------------------------------
// generator
// ---------------------------------------------------------------------------------------------

const POWS: [u32; 13] = [7, 8, 15, 16, 23, 24, 31, 32, 52, 53, 63, 64, 127];

fn gen_int(rng: &mut Rng, t: T) -> i128 {
    let (lo, hi) = t.range();
    let clamp = |x: i128| x.max(lo).min(hi);
    match rng.weighted(&[4, 6, 4, 3]) {
        0 => *rng.pick(&[lo, lo + 1, -1, 0, 1, hi - 1, hi]),
        1 => {
            // extremes of every other type, ±1
            let o = *rng.pick(&ALL[1..9]);
            let (a, b) = o.range();
            let base = if rng.chance(1, 2) { a } else { b };
            clamp(base + rng.range(-1, 1) as i128)
        }
        2 => {
            let k = *rng.pick(&POWS);
            let p: i128 = if k >= 100 { 1 << 100 } else { 1i128 << k };
            let x = p + rng.range(-2, 2) as i128;
            clamp(if rng.chance(1, 3) { -x } else { x })
        }
        _ => {
            let bits = rng.below(65) as u32;
            let x = (rng.next() as i128) & ((1i128 << bits) - 1).max(0);
            clamp(if rng.chance(1, 2) { -x } else { x })
        }
    }
}

fn gen_f64(rng: &mut Rng) -> f64 {
    let step = |x: f64, rng: &mut Rng| -> f64 {
        // a few ulps up or down
        let d = rng.range(-2, 2);
        f64::from_bits((x.to_bits() as i64 + d) as u64)
    };
    match rng.weighted(&[3, 6, 5, 4, 3, 2]) {
        0 => *rng.pick(&[
            f64::NAN,
            f64::INFINITY,
            f64::NEG_INFINITY,
            0.0,
            -0.0,
            0.5,
            -0.5,
            0.49999999999999994,
            -0.49999999999999994,
            1.5,
            2.5,
            -1.5,
            -2.5,
            -1.6,
            -3.0,
            12.5,
            -12.5,
            f64::MIN_POSITIVE,
            5e-324,
            -5e-324,
            f64::MAX,
            f64::MIN,
            f64::from_bits(0x7ff0000000000001), // signalling NaN
            f64::from_bits(0xfff8000000000000),
        ]),
        1 => {
            // around an integer type's extreme: extreme + {-1,-0.5,0,0.5,1} ± ulps
            let o = *rng.pick(&ALL[1..9]);
            let (a, b) = o.range();
            let base = if rng.chance(1, 2) { a } else { b } as f64;
            let off = *rng.pick(&[-1.0, -0.5, 0.0, 0.5, 1.0]);
            step(base + off, rng)
        }
        2 => {
            let k = *rng.pick(&POWS);
            let p = 2f64.powi(k as i32);
            let x = step(p + *rng.pick(&[-1.0, -0.5, 0.0, 0.5, 1.0]), rng);
            if rng.chance(1, 3) {
                -x
            } else {
                x
            }
        }
        3 => {
            // small values with a fraction, including exact ties
            let ip = rng.range(-300, 300) as f64;
            let fr = *rng.pick(&[0.0, 0.25, 0.5, 0.75, 0.4999999999999, 0.5000000000001]);
            ip + fr
        }
        4 => {
            // mid-range: random integer-ish magnitudes with fractions
            let e = rng.below(70) as i32;
            let x = (rng.next() >> 11) as f64 / (1u64 << 53) as f64 * 2f64.powi(e);
            let x = if rng.chance(1, 4) { x.floor() + 0.5 } else { x };
            if rng.chance(1, 2) {
                -x
            } else {
                x
            }
        }
        _ => f64::from_bits(rng.next()),
    }
}

fn gen_f32(rng: &mut Rng) -> f32 {
    let step = |x: f32, rng: &mut Rng| -> f32 {
        let d = rng.range(-2, 2);
        f32::from_bits((x.to_bits() as i64 + d) as u32)
    };
    match rng.weighted(&[3, 6, 5, 4, 3, 2]) {
        0 => *rng.pick(&[
            f32::NAN,
            f32::INFINITY,
            f32::NEG_INFINITY,
            0.0,
            -0.0,
            0.5,
            -0.5,
            0.49999997,
            -0.49999997,
            1.5,
            2.5,
            -1.5,
            -2.5,
            -1.6,
            -3.0,
            12.5,
            -12.5,
            f32::MIN_POSITIVE,
            1e-45,
            -1e-45,
            f32::MAX,
            f32::MIN,
            f32::from_bits(0x7f800001),
            f32::from_bits(0xffc00000),
        ]),
        1 => {
            let o = *rng.pick(&ALL[1..9]);
            let (a, b) = o.range();
            let base = if rng.chance(1, 2) { a } else { b } as f32;
            let off = *rng.pick(&[-1.0, -0.5, 0.0, 0.5, 1.0]);
            step(base + off, rng)
        }
        2 => {
            let k = *rng.pick(&POWS);
            let p = 2f32.powi(k as i32);
            let x = step(p + *rng.pick(&[-1.0, -0.5, 0.0, 0.5, 1.0]), rng);
            if rng.chance(1, 3) {
                -x
            } else {
                x
            }
        }
        3 => {
            let ip = rng.range(-300, 300) as f32;
            let fr = *rng.pick(&[0.0, 0.25, 0.5, 0.75, 0.4999, 0.5001]);
            ip + fr
        }
        4 => {
            let e = rng.below(70) as i32;
            let x = (rng.next() >> 40) as f32 / (1u32 << 24) as f32 * 2f32.powi(e);
            let x = if rng.chance(1, 4) { x.floor() + 0.5 } else { x };
            if rng.chance(1, 2) {
                -x
            } else {
                x
            }
        }
        _ => f32::from_bits(rng.next() as u32),
    }
}

pub(crate) fn gen_val(rng: &mut Rng, t: T) -> V {
    match t {
        F32 => V::F32(gen_f32(rng)),
        F64 => V::F64(gen_f64(rng)),
        _ => V::I(gen_int(rng, t)),
    }
}

/// n/4 as a float of the source type when it is exactly representable
fn quarter(s: T, n: i128) -> Option<V> {
    match s {
        F32 => {
            let x = n as f32 / 4.0;
            if (x as f64) * 4.0 == n as f64 && (n as f64) as i128 == n {
                Some(V::F32(x))
            } else {
                None
            }
        }
        F64 => {
            let x = n as f64 / 4.0;
            if (x * 4.0) as i128 == n && x * 4.0 == (n as f64) && (n as f64) as i128 == n {
                Some(V::F64(x))
            } else {
                None
            }
        }
        _ => None,
    }
}

/// Boundary values of one (source, target) pair: for integer sources the extremes ±1 of every
/// integer type, small values and the values around 2^24 / 2^53 that need rounding (all roundings:
/// down, up, tie to even up/down, carry); for float sources every quarter step within ±1 of the
/// target's min−1, min, max, max+1, small quarters, powers of two up to the format limits, values
/// that round when narrowed to f32, NaN, ±∞, ±0.
fn sweep_values(s: T, d: T) -> Vec<V> {
    let mut out: Vec<V> = Vec::new();
    if !s.is_float() {
        let mut xs: Vec<i128> = vec![-3, -2, -1, 0, 1, 2, 3];
        for t in &ALL[0..9] {
            let (lo, hi) = t.range();
            xs.extend_from_slice(&[lo - 1, lo, lo + 1, hi - 1, hi, hi + 1]);
        }
        for p in [24u32, 53] {
            let b: i128 = 1 << p;
            for x in [b - 1, b, b + 1, b + 2, b + 3, 2 * b + 1, 2 * b + 2, 2 * b + 3, 2 * b + 6, 4 * b + 4, 4 * b + 12] {
                xs.push(x);
                xs.push(-x);
            }
        }
        // double-rounding-sensitive values: an f32 (f64) midpoint ± 1 for every bit length, i.e. the
        // integers that `(v as f64) as f32` or any other rounding through a wider intermediate
        // format gets wrong (lower neighbour even: midpoint + 1; lower neighbour odd: midpoint − 1)
        for (p, lmax) in [(24u32, 64u32), (53, 64)] {
            if !d.is_float() {
                break;
            }
            for l in (p + 2)..=lmax {
                let top: i128 = 1 << (l - 1);
                let half: i128 = 1 << (l - p - 1); // half a unit in the last place of the target
                let ulp: i128 = half * 2;
                for x in [top + half + 1, top + half - 1, top + ulp + half - 1, top + ulp + half + 1, top + half, top + ulp + half] {
                    xs.push(x);
                    xs.push(-x);
                }
            }
        }
        xs.sort();
        xs.dedup();
        for x in xs {
            if in_range(s, x) {
                out.push(V::I(x));
            }
        }
        return out;
    }
    let mk = |x: f64| -> V {
        if s == F32 {
            V::F32(x as f32)
        } else {
            V::F64(x)
        }
    };
    out.push(mk(f64::NAN));
    out.push(mk(f64::INFINITY));
    out.push(mk(f64::NEG_INFINITY));
    out.push(mk(0.0));
    out.push(mk(-0.0));
    if !d.is_float() && d != Bool {
        let (lo, hi) = d.range();
        for b in [lo - 1, lo, hi, hi + 1] {
            for k in -10..=10 {
                if let Some(v) = quarter(s, 4 * b + k) {
                    out.push(v);
                }
            }
        }
    }
    for n in [-14, -13, -12, -10, -7, -6, -5, -4, -3, -2, -1, 1, 2, 3, 4, 5, 6, 7, 10, 12, 13, 14] {
        if let Some(v) = quarter(s, n) {
            out.push(v);
        }
    }
    for k in [100, 126, 127, 128, 130, 200, -30, -126, -127, -140, -149, -150, -160, -1074] {
        let x = 2f64.powi(k);
        let ok = if s == F32 { (x as f32) as f64 == x && x != 0.0 } else { x != 0.0 && x.is_finite() };
        if ok {
            out.push(mk(x));
            out.push(mk(-x));
        }
    }
    if s == F32 {
        out.push(V::F32(f32::MAX));
        out.push(V::F32(f32::MIN));
    } else {
        out.push(V::F64(f64::from_bits(1)));
        out.push(V::F64(-f64::from_bits(1)));
    }
    if s == F64 {
        // midpoints between adjacent f32 values ± one f64 unit in the last place: normal range,
        // the overflow boundary (MAX + half ulp), the normal/subnormal boundary and subnormals
        for a in [1.0f32, 1.0000001, 3.0, 16777215.0, 16777216.0, 1.0e20, f32::MAX, f32::MIN_POSITIVE, 1.0e-40, 1.0e-45, 0.0] {
            let b = f32::from_bits(a.to_bits() + 1);
            let mid = if b.is_finite() { (a as f64 + b as f64) / 2.0 } else { a as f64 + (a as f64 - f32::from_bits(a.to_bits() - 1) as f64) / 2.0 };
            for x in [mid, f64::from_bits(mid.to_bits() + 1), f64::from_bits(mid.to_bits().wrapping_sub(1))] {
                out.push(V::F64(x));
                out.push(V::F64(-x));
            }
        }
        // values that round / overflow / underflow when narrowed to f32
        for (m, e) in [
            (16777217u64, 0i32),
            (16777219, 0),
            (33554434, 0),
            (33554438, 0),
            (16777217, 104),
            (16777215, 104),
            (16777217, -170),
            (3, -150),
            (1, -150),
            (16777217, -173),
            // between 2^128 and 2^129: overflows f32 although the exponent is only one too large
            (3, 127),
            (16777215, 105),
            (16777217, 105),
        ] {
            out.push(V::F64(m as f64 * 2f64.powi(e)));
            out.push(V::F64(-(m as f64) * 2f64.powi(e)));
        }
    }
    out
}

impl Prop for C06 {
    fn id(&self) -> &'static str {
        "C06"
    }

    fn gen(&self, rng: &mut Rng, n: usize, tier: Tier, out: &mut Vec<String>) {
        // 1. systematic sweep (small-scope enumeration): every ordered pair of the 11 types ×
        //    both operations × the boundary values of the pair (see `sweep_values`); it comes first
        //    so that a quick run reaches every arm of both tables independently of the seed
        let mut cases = 0usize;
        let mut cur = 0usize;
        'sweep: for s in ALL {
            for d in ALL {
                for v in sweep_values(s, d) {
                    for op in ["convert", "cast"] {
                        if cur == 0 {
                            if cases == n {
                                break 'sweep;
                            }
                            out.push("reset".to_string());
                            cases += 1;
                        }
                        out.push(format!("{} {} {} {}", op, s.name(), d.name(), show_op_val(v)));
                        cur = (cur + 1) % 24;
                    }
                }
            }
        }
        // 2. random, boundary-biased values; every pair is visited round-robin
        let per_case = if tier == Tier::Thorough { 16 } else { 8 };
        let mut k = rng.below(121) as usize;
        for _ in cases..n {
            out.push("reset".to_string());
            for _ in 0..per_case {
                let (s, d) = if rng.chance(3, 4) {
                    k = (k + 1) % 121;
                    (ALL[k / 11], ALL[k % 11])
                } else {
                    (*rng.pick(&ALL), *rng.pick(&ALL))
                };
                let v = gen_val(rng, s);
                let op = if rng.chance(1, 2) { "convert" } else { "cast" };
                out.push(format!("{} {} {} {}", op, s.name(), d.name(), show_op_val(v)));
            }
        }
    }

    fn runner(&self) -> Box<dyn Runner> {
        Box::new(R)
    }
}

struct R;

impl Runner for R {
    fn step(&mut self, toks: &[&str]) -> (String, Verdict) {
        match toks {
            ["reset"] => ("ok".to_string(), Verdict::Ok),
            [op, s, d, v] if *op == "convert" || *op == "cast" => {
                let (s, d) = match (T::parse(s), T::parse(d)) {
                    (Some(s), Some(d)) => (s, d),
                    _ => return ("bad-op".to_string(), Verdict::Ok),
                };
                let v = match parse_val(s, v) {
                    Some(v) => v,
                    None => return ("bad-op".to_string(), Verdict::Ok),
                };
                let src = to_variant(s, v);
                let out = if *op == "convert" {
                    src.convert(d.type_id())
                } else {
                    src.cast(d.type_id())
                };
                let res = from_variant(&out);
                let line = match &res {
                    None => "ok -".to_string(),
                    Some(Err(())) => "ok other".to_string(),
                    Some(Ok((t, r))) => format!("ok {}:{}", t.name(), show_val(*r)),
                };
                let verdict = oracle(op, s, d, v, &res);
                (line, verdict)
            }
            _ => ("bad-op".to_string(), Verdict::Ok),
        }
    }
}
