//! C19 — only activated sessions on their own channel can use services.
//!
//! The real `MessageHandler` (through the `verif_hooks::session::VMessageHandler` wrapper) is driven
//! with request histories on a connection that is not attached to a socket.  Time is virtual: before
//! every request the `last_service_request_timestamp` of every session is set to
//! `Utc::now() − idle` through its public setter.
use crate::common::*;
use crate::fixtures;
use opcua::core::supported_message::SupportedMessage;
use opcua::crypto::user_identity::make_user_name_identity_token;
use opcua::server::comms::tcp_transport::MessageSender;
use opcua::server::prelude::*;
use opcua::server::session::{Session, SessionManager};
use opcua::sync::RwLock;
use opcua::verif_hooks::session::{session_subscription_count, VMessageHandler, VerifMessageReceiver};
use std::sync::Arc;

pub const ENDPOINT_URL: &str = "opc.tcp://localhost:4855/";

/// One server-side connection (what `TcpTransport` owns), not attached to a socket.
pub struct Conn {
    pub handler: VMessageHandler,
    pub sm: Arc<RwLock<SessionManager>>,
    pub chan: Arc<RwLock<SecureChannel>>,
    pub sender: MessageSender,
    pub rx: VerifMessageReceiver,
    pub address_space: Arc<RwLock<AddressSpace>>,
    next_request_id: u32,
    audit_ns: u16,
    audit_first: u32,
    session_ids: Vec<NodeId>,
}

fn numeric_of(n: &NodeId) -> u32 {
    match n.identifier {
        Identifier::Numeric(v) => v,
        _ => 0,
    }
}

impl Conn {
    pub fn new(fx: &fixtures::ServerFixture, chan_id: u32) -> Conn {
        let certificate_store = fx.server.certificate_store();
        let decoding_options = fx.server_state.read().decoding_options();
        let mut sc = SecureChannel::new(certificate_store.clone(), Role::Server, decoding_options);
        sc.set_secure_channel_id(chan_id);
        let chan = Arc::new(RwLock::new(sc));
        let sm = Arc::new(RwLock::new(SessionManager::default()));
        let handler = VMessageHandler::new(
            chan.clone(),
            certificate_store,
            fx.server_state.clone(),
            sm.clone(),
            fx.address_space.clone(),
        );
        let (sender, rx) = MessageSender::verif_channel();
        let audit_ns = fx.address_space.read().audit_namespace();
        let audit_first = numeric_of(&NodeId::next_numeric(audit_ns));
        Conn {
            handler,
            sm,
            chan,
            sender,
            rx,
            address_space: fx.address_space.clone(),
            next_request_id: 1,
            audit_ns,
            audit_first,
            session_ids: Vec::new(),
        }
    }

    /// Sends one request through `MessageHandler::handle_message`; returns the response (if any).
    pub fn call(&mut self, msg: SupportedMessage) -> Result<Option<SupportedMessage>, StatusCode> {
        let id = self.next_request_id;
        self.next_request_id += 1;
        self.handler.handle_message(id, &msg, &self.sender)?;
        let mut out = self.rx.drain();
        let r = out.pop().map(|(_, m)| m);
        if let Some(SupportedMessage::CreateSessionResponse(ref r)) = r {
            self.session_ids.push(r.session_id.clone());
        }
        Ok(r)
    }

    pub fn set_channel_id(&self, id: u32) {
        self.chan.write().set_secure_channel_id(id);
    }

    pub fn sessions(&self) -> Vec<Arc<RwLock<Session>>> {
        self.sm.read().sessions.values().cloned().collect()
    }
}

impl Drop for Conn {
    /// The audit events and session objects this connection left in the (shared) address space are
    /// removed again so that a harness process does not grow with the number of cases.
    fn drop(&mut self) {
        self.sm.write().clear(self.address_space.clone());
        let last = numeric_of(&NodeId::next_numeric(self.audit_ns));
        let mut a = self.address_space.write();
        for n in self.audit_first..last {
            let id = NodeId::new(self.audit_ns, n);
            if a.node_exists(&id) {
                a.delete(&id, true);
            }
        }
        for id in self.session_ids.drain(..) {
            if a.node_exists(&id) {
                a.delete(&id, true);
            }
        }
    }
}

pub fn header(token: &NodeId) -> RequestHeader {
    RequestHeader::new(token, &DateTime::now(), 1)
}

pub fn status_of(m: &SupportedMessage) -> StatusCode {
    m.response_header().service_result
}

pub fn create_session_request(timeout: f64) -> SupportedMessage {
    CreateSessionRequest {
        request_header: header(&NodeId::null()),
        client_description: ApplicationDescription::default(),
        server_uri: UAString::null(),
        endpoint_url: UAString::from(ENDPOINT_URL),
        session_name: UAString::from("verif"),
        client_nonce: ByteString::null(),
        client_certificate: ByteString::null(),
        requested_session_timeout: timeout,
        max_response_message_size: 0,
    }
    .into()
}

pub fn anonymous_token(policy_id: &str) -> ExtensionObject {
    ExtensionObject::from_encodable(
        ObjectId::AnonymousIdentityToken_Encoding_DefaultBinary,
        &AnonymousIdentityToken {
            policy_id: UAString::from(policy_id),
        },
    )
}

pub fn plain_user_token(policy_id: &str, user: &str, pass: &str) -> ExtensionObject {
    ExtensionObject::from_encodable(
        ObjectId::UserNameIdentityToken_Encoding_DefaultBinary,
        &UserNameIdentityToken {
            policy_id: UAString::from(policy_id),
            user_name: UAString::from(user),
            password: ByteString::from(pass.as_bytes()),
            encryption_algorithm: UAString::null(),
        },
    )
}

pub fn activate_request(token: &NodeId, identity: ExtensionObject, user_token_signature: SignatureData) -> SupportedMessage {
    activate_request_signed(token, identity, user_token_signature, SignatureData::null())
}

pub fn activate_request_signed(
    token: &NodeId,
    identity: ExtensionObject,
    user_token_signature: SignatureData,
    client_signature: SignatureData,
) -> SupportedMessage {
    ActivateSessionRequest {
        request_header: header(token),
        client_signature,
        client_software_certificates: None,
        locale_ids: None,
        user_identity_token: identity,
        user_token_signature,
    }
    .into()
}

pub fn close_request(token: &NodeId) -> SupportedMessage {
    close_request_with(token, true)
}

pub fn close_request_with(token: &NodeId, delete_subscriptions: bool) -> SupportedMessage {
    CloseSessionRequest {
        request_header: header(token),
        delete_subscriptions,
    }
    .into()
}

// keep the import used when only some helpers are used by a dependent property
#[allow(dead_code)]
fn _unused() {
    let _ = make_user_name_identity_token;
}

fn scratch_node() -> NodeId {
    static NS: std::sync::OnceLock<u16> = std::sync::OnceLock::new();
    let ns = *NS.get_or_init(|| {
        fixtures::server()
            .address_space
            .write()
            .register_namespace("urn:verif:c19")
            .expect("namespace")
    });
    NodeId::new(ns, "verif_c19_scratch")
}

fn ensure_scratch(fx: &fixtures::ServerFixture) {
    let node = scratch_node();
    let mut a = fx.address_space.write();
    if !a.node_exists(&node) {
        VariableBuilder::new(&node, "verif_c19_scratch", "verif_c19_scratch")
            .data_type(DataTypeId::UInt32)
            .value(0u32)
            .writable()
            .organized_by(ObjectId::ObjectsFolder)
            .insert(&mut a);
    }
    let now = DateTime::now();
    let _ = a.set_variable_value(node, 0u32, &now, &now);
}

fn scratch_value(fx: &fixtures::ServerFixture) -> i64 {
    match fx.address_space.read().get_variable_value(scratch_node()) {
        Ok(DataValue {
            value: Some(Variant::UInt32(v)),
            ..
        }) => v as i64,
        _ => -1,
    }
}

pub struct C19;
pub static P: C19 = C19;

fn fbits(x: f64) -> String {
    format!("f{:016x}", x.to_bits())
}

impl Prop for C19 {
    fn id(&self) -> &'static str {
        "C19"
    }

    fn gen(&self, rng: &mut Rng, n: usize, tier: Tier, out: &mut Vec<String>) {
        let timeouts: [f64; 15] = [
            1000.0,
            1.0,
            2.0,
            500.5,
            59999.0,
            60000.0,
            60001.0,
            1e12,
            0.0,
            -0.0,
            -5.0,
            f64::NAN,
            f64::INFINITY,
            5e-324,
            f64::NEG_INFINITY,
        ];
        for _ in 0..n {
            let chans = [1u32, 7, 0, u32::MAX];
            let mut chan = *rng.pick(&chans);
            out.push(format!("reset {}", chan));
            let len = if tier == Tier::Thorough { rng.range(1, 40) } else { rng.range(1, 25) };
            // generator-side sketch of what exists (only to aim the random choices; it need not be exact)
            let mut issued: u64 = 0;
            let mut open: Vec<(u64, bool, f64)> = Vec::new(); // (token number, activated, timeout)
            let mut last_tout = 1000.0f64;
            // most cases use sensible timeouts so that long histories stay alive
            let exotic = rng.chance(1, 3);
            let tok = |rng: &mut Rng, issued: u64| -> String {
                match rng.weighted(&[10, 1, 1, 1, 1]) {
                    0 if issued > 0 => format!("{}", rng.range(1, issued as i64)),
                    1 => "0".to_string(),
                    2 => format!("{}", issued + 1 + rng.below(8)),
                    3 => "o".to_string(),
                    _ => format!("{}", rng.range(0, issued as i64 + 1)),
                }
            };
            let svc = |rng: &mut Rng, t: &str| -> String {
                match rng.weighted(&[4, 4, 1, 2, 3]) {
                    0 => format!("svc {} write {}", t, rng.below(1000)),
                    1 => format!("svc {} read", t),
                    2 => format!("svc {} browse", t),
                    3 => format!("svc {} sub", t),
                    // Cancel, Call, Publish, TranslateBrowsePaths, RegisterNodes, TransferSubscriptions,
                    // HistoryRead, DeleteNodes, QueryFirst: same validation in front of every service
                    _ => format!("svc {} other {}", t, rng.below(9)),
                }
            };
            for _ in 0..len {
                // half of the steps follow the protocol (create → activate → use), the rest is arbitrary
                if rng.chance(1, 2) {
                    if open.is_empty() || (open.len() < 3 && rng.chance(1, 6)) {
                        let t = if exotic { *rng.pick(&timeouts) } else { *rng.pick(&[1000.0, 2.0, 60000.0]) };
                        out.push(format!("create {}", fbits(t)));
                        issued += 1;
                        last_tout = if t > 60000.0 { 60000.0 } else { t };
                        open.push((issued, false, last_tout));
                    } else {
                        let i = rng.below(open.len() as u64) as usize;
                        if !open[i].1 {
                            out.push(format!("activate {} {}", open[i].0, if rng.chance(3, 4) { "anon" } else { "user" }));
                            open[i].1 = true;
                        } else {
                            out.push(svc(rng, &format!("{}", open[i].0)));
                        }
                    }
                    continue;
                }
                match rng.weighted(&[4, 6, 2, 10, 1, 2, 5]) {
                    0 => {
                        let t = if exotic || rng.chance(1, 8) { *rng.pick(&timeouts) } else { *rng.pick(&[1000.0, 2.0, 60000.0]) };
                        out.push(format!("create {}", fbits(t)));
                        if open.len() < 5 {
                            issued += 1;
                            last_tout = if t > 60000.0 { 60000.0 } else { t };
                            open.push((issued, false, last_tout));
                        }
                    }
                    1 => {
                        let c = match rng.weighted(&[8, 3, 2, 1]) {
                            0 => "anon",
                            1 => "user",
                            2 => "badpw",
                            _ => "badpol",
                        };
                        let t = tok(rng, issued);
                        for o in open.iter_mut() {
                            if format!("{}", o.0) == t {
                                o.1 = c == "anon" || c == "user";
                            }
                        }
                        out.push(format!("activate {} {}", t, c));
                    }
                    2 => {
                        let t = tok(rng, issued);
                        open.retain(|o| format!("{}", o.0) != t);
                        match rng.below(3) {
                            0 => out.push(format!("close {}", t)),
                            1 => out.push(format!("close {} 0", t)),
                            _ => out.push(format!("close {} 1", t)),
                        }
                    }
                    3 => {
                        let t = tok(rng, issued);
                        out.push(svc(rng, &t));
                    }
                    4 => match rng.below(5) {
                        0 => out.push("disc".to_string()),
                        1 => out.push("disc find".to_string()),
                        2 => out.push("disc tok".to_string()),
                        _ => out.push(format!("createx {}", rng.pick(&["null", "path", "junk"]))),
                    },
                    5 => {
                        chan = if rng.chance(1, 2) { *rng.pick(&chans) } else { chan.wrapping_add(1) };
                        out.push(format!("setchan {}", chan));
                    }
                    _ => {
                        // around the timeout of some session: T−1, T, T+1; small; huge
                        let base = if !open.is_empty() && rng.chance(3, 4) { rng.pick(&open).2 } else { last_tout };
                        let b = if base.is_finite() && base > 0.0 { base.floor() as i64 } else { 1000 };
                        let ms = match rng.weighted(&[3, 3, 3, 5, 2, 1]) {
                            0 => (b - 1).max(0),
                            1 => b,
                            2 => b + 1,
                            3 => rng.range(0, 3),
                            4 => b / 2,
                            _ => 1i64 << 40,
                        };
                        out.push(format!("elapse {}", ms));
                    }
                }
            }
        }
    }

    fn runner(&self) -> Box<dyn Runner> {
        Box::new(R {
            st: None,
            history: Vec::new(),
        })
    }
}

/// what the property's words need to know about a token, kept from the responses alone
#[derive(Clone)]
struct RefSess {
    open: bool,
    /// an ActivateSession for it was answered Good (and it was not closed since)
    activated: bool,
    /// the connection's channel id when that happened
    chan: u32,
    /// virtual time of its creation / of the last request naming it that was not answered by a fault
    last: i64,
    /// revised timeout from the CreateSession response
    timeout: f64,
}

struct S {
    conn: Conn,
    other: Conn,
    other_token: NodeId,
    chan: u32,
    tokens: Vec<NodeId>,
    /// virtual clock (ms) and per token the virtual time of the last refresh of
    /// `last_service_request_timestamp` (observed on the real session after every request)
    vnow: i64,
    vlast: Vec<i64>,
    refs: Vec<RefSess>,
    glitch: bool,
}

struct R {
    st: Option<S>,
    history: Vec<String>,
}

impl S {
    fn new(chan: u32) -> S {
        let fx = fixtures::server();
        ensure_scratch(fx);
        let conn = Conn::new(fx, chan);
        // a second connection with one activated session of its own
        let mut other = Conn::new(fx, chan);
        let mut other_token = NodeId::new(0, ByteString::from(vec![0xEEu8; 32]));
        if let Ok(Some(SupportedMessage::CreateSessionResponse(r))) = other.call(create_session_request(60000.0)) {
            other_token = r.authentication_token.clone();
            let _ = other.call(activate_request(&other_token, anonymous_token("anonymous"), SignatureData::null()));
        }
        S {
            conn,
            other,
            other_token,
            chan,
            tokens: Vec::new(),
            vnow: 0,
            vlast: Vec::new(),
            refs: Vec::new(),
            glitch: false,
        }
    }

    fn index_of(&self, token: &NodeId) -> Option<usize> {
        self.tokens.iter().position(|t| t == token)
    }

    /// token argument of an op → the NodeId put into the request header
    fn token(&self, t: &str) -> NodeId {
        if t == "o" {
            return self.other_token.clone();
        }
        let n: u64 = t.parse().unwrap_or(0);
        if n == 0 {
            return NodeId::null();
        }
        if (n as usize) <= self.tokens.len() {
            return self.tokens[n as usize - 1].clone();
        }
        // never issued: several shapes of forgery
        match n % 4 {
            0 => {
                let mut b = vec![0u8; 32];
                for (i, x) in b.iter_mut().enumerate() {
                    *x = (n as u8).wrapping_mul(31).wrapping_add(i as u8);
                }
                NodeId::new(0, ByteString::from(b))
            }
            1 => match self.tokens.first() {
                // the bytes of a live token in another namespace
                Some(t) => NodeId {
                    namespace: 1,
                    identifier: t.identifier.clone(),
                },
                None => NodeId::new(0, n as u32),
            },
            2 => NodeId::new(0, n as u32),
            _ => {
                // a session id (which a client knows) used as a token
                let ids: Vec<NodeId> = self.conn.sessions().iter().map(|s| s.read().session_id().clone()).collect();
                ids.into_iter().min_by_key(|i| format!("{}", i)).unwrap_or_else(|| NodeId::new(1, "Session-0"))
            }
        }
    }

    fn probe(&self, with_term: bool) -> String {
        let fx = fixtures::server();
        let mut rows: Vec<(usize, String)> = Vec::new();
        for s in self.conn.sessions() {
            let s = s.read();
            let k = self.index_of(s.authentication_token()).map(|i| i + 1).unwrap_or(0);
            let mut row = format!(
                "{}:{}:{}:{}",
                k,
                b(s.is_activated()),
                s.secure_channel_id(),
                session_subscription_count(&s)
            );
            if with_term {
                row.push_str(&format!(":{}", b(s.is_session_terminated())));
            }
            rows.push((k, row));
        }
        rows.sort();
        let rows: Vec<String> = rows.into_iter().map(|x| x.1).collect();
        format!("v={} [{}]", scratch_value(fx), rows.join(","))
    }

    /// Sets every session's timestamp to `now − idle`, performs the request, then observes which
    /// sessions had their timestamp refreshed.
    fn timed_call(&mut self, msg: SupportedMessage) -> Option<SupportedMessage> {
        let sessions = self.conn.sessions();
        let t0 = chrono::Utc::now();
        let mut set: Vec<(NodeId, chrono::DateTime<chrono::Utc>, i64, f64)> = Vec::new();
        for s in &sessions {
            let mut s = s.write();
            if let Some(i) = self.index_of(s.authentication_token()) {
                let idle = self.vnow - self.vlast[i];
                let ts = t0 - chrono::Duration::milliseconds(idle);
                s.set_last_service_request_timestamp(ts);
                set.push((s.authentication_token().clone(), ts, idle, s.session_timeout()));
            }
        }
        let resp = self.conn.call(msg).ok().flatten();
        let t1 = chrono::Utc::now();
        // the handler read the clock somewhere in [t0, t1]; if a whole millisecond passed, a session
        // sitting exactly on its timeout may have been judged either way → the case is re-run
        let d = (t1 - t0).num_milliseconds();
        for (_, _, idle, tmo) in &set {
            if *tmo > 0.0 && (*idle as f64) <= *tmo && ((*idle + d) as f64) > *tmo {
                self.glitch = true;
            }
        }
        for s in &sessions {
            let s = s.read();
            if let Some(i) = self.index_of(s.authentication_token()) {
                if let Some(x) = set.iter().find(|x| &x.0 == s.authentication_token()) {
                    if s.last_service_request_timestamp() != x.1 {
                        self.vlast[i] = self.vnow;
                    }
                }
            }
        }
        resp
    }

    fn exec(&mut self, toks: &[&str]) -> (String, Verdict) {
        let fx = fixtures::server();
        let before = self.probe(false);
        let mut verdict = Verdict::Ok;
        let res: String = match toks {
            ["reset", _] => "ok".to_string(),
            ["create", f] => {
                let bits = u64::from_str_radix(&f[1..], 16).unwrap();
                let t = f64::from_bits(bits);
                match self.timed_call(create_session_request(t)) {
                    Some(SupportedMessage::CreateSessionResponse(r)) => {
                        self.tokens.push(r.authentication_token.clone());
                        self.vlast.push(self.vnow);
                        self.refs.push(RefSess {
                            open: true,
                            activated: false,
                            chan: self.chan,
                            last: self.vnow,
                            timeout: r.revised_session_timeout,
                        });
                        if r.authentication_token.is_null() || self.tokens.iter().filter(|t| **t == r.authentication_token).count() > 1 {
                            verdict = Verdict::fail("token_fresh", "create", "null or repeated authentication token");
                        }
                        format!("ok {} {}", self.tokens.len(), fbits(r.revised_session_timeout))
                    }
                    Some(m) => format!("err {}", status_of(&m).name()),
                    None => "err none".to_string(),
                }
            }
            ["activate", t, c] => {
                let token = self.token(t);
                let identity = match *c {
                    "anon" => anonymous_token("anonymous"),
                    "user" => plain_user_token("userpass_none", "sample1", "sample1pwd"),
                    "badpw" => plain_user_token("userpass_none", "sample1", "wrong"),
                    _ => anonymous_token("no_such_policy"),
                };
                let idx = self.index_of(&token);
                match self.timed_call(activate_request(&token, identity, SignatureData::null())) {
                    Some(SupportedMessage::ActivateSessionResponse(_)) => {
                        match idx {
                            Some(i) if self.refs[i].open => {
                                self.refs[i].activated = true;
                                self.refs[i].chan = self.chan;
                                self.refs[i].last = self.vnow;
                            }
                            _ => {
                                let class = if idx.is_some() { "closed-token" } else { "unissued-token" };
                                verdict = Verdict::fail("closed_token_dead", class, "ActivateSession accepted a token that is not live");
                            }
                        }
                        "ok".to_string()
                    }
                    Some(m) => format!("err {}", status_of(&m).name()),
                    None => "err none".to_string(),
                }
            }
            ["close", t, ..] => {
                let token = self.token(t);
                let idx = self.index_of(&token);
                let delete_subscriptions = toks.get(2) != Some(&"0");
                match self.timed_call(close_request_with(&token, delete_subscriptions)) {
                    Some(SupportedMessage::CloseSessionResponse(_)) => {
                        match idx {
                            Some(i) if self.refs[i].open => {
                                self.refs[i].open = false;
                                self.refs[i].activated = false;
                            }
                            _ => {
                                verdict = Verdict::fail("closed_token_dead", "close", "CloseSession accepted a token that is not live");
                            }
                        }
                        "ok".to_string()
                    }
                    Some(m) => format!("err {}", status_of(&m).name()),
                    None => "err none".to_string(),
                }
            }
            ["svc", t, rest @ ..] => {
                let token = self.token(t);
                let idx = self.index_of(&token);
                let msg: SupportedMessage = match rest {
                    ["write", x] => WriteRequest {
                        request_header: header(&token),
                        nodes_to_write: Some(vec![WriteValue {
                            node_id: scratch_node(),
                            attribute_id: AttributeId::Value as u32,
                            index_range: UAString::null(),
                            value: DataValue::value_only(Variant::UInt32(x.parse().unwrap())),
                        }]),
                    }
                    .into(),
                    ["read"] => ReadRequest {
                        request_header: header(&token),
                        max_age: 0.0,
                        timestamps_to_return: TimestampsToReturn::Neither,
                        nodes_to_read: Some(vec![ReadValueId {
                            node_id: scratch_node(),
                            attribute_id: AttributeId::Value as u32,
                            index_range: UAString::null(),
                            data_encoding: QualifiedName::null(),
                        }]),
                    }
                    .into(),
                    ["browse"] => BrowseRequest {
                        request_header: header(&token),
                        view: ViewDescription {
                            view_id: NodeId::null(),
                            timestamp: DateTime::null(),
                            view_version: 0,
                        },
                        requested_max_references_per_node: 10,
                        nodes_to_browse: Some(vec![BrowseDescription {
                            node_id: ObjectId::RootFolder.into(),
                            browse_direction: BrowseDirection::Forward,
                            reference_type_id: ReferenceTypeId::Organizes.into(),
                            include_subtypes: true,
                            node_class_mask: 0,
                            result_mask: 0x3f,
                        }]),
                    }
                    .into(),
                    ["sub"] => CreateSubscriptionRequest {
                        request_header: header(&token),
                        requested_publishing_interval: 100.0,
                        requested_lifetime_count: 100,
                        requested_max_keep_alive_count: 10,
                        max_notifications_per_publish: 0,
                        publishing_enabled: true,
                        priority: 0,
                    }
                    .into(),
                    ["other", k] => match *k {
                        "0" => CancelRequest {
                            request_header: header(&token),
                            request_handle: 1,
                        }
                        .into(),
                        "1" => CallRequest {
                            request_header: header(&token),
                            methods_to_call: Some(vec![CallMethodRequest {
                                object_id: ObjectId::Server.into(),
                                method_id: NodeId::new(0, 11492u32),
                                input_arguments: Some(vec![Variant::UInt32(1)]),
                            }]),
                        }
                        .into(),
                        "2" => PublishRequest {
                            request_header: header(&token),
                            subscription_acknowledgements: None,
                        }
                        .into(),
                        "3" => TranslateBrowsePathsToNodeIdsRequest {
                            request_header: header(&token),
                            browse_paths: Some(vec![BrowsePath {
                                starting_node: ObjectId::ObjectsFolder.into(),
                                relative_path: RelativePath { elements: Some(vec![]) },
                            }]),
                        }
                        .into(),
                        "4" => RegisterNodesRequest {
                            request_header: header(&token),
                            nodes_to_register: Some(vec![ObjectId::ObjectsFolder.into()]),
                        }
                        .into(),
                        "5" => TransferSubscriptionsRequest {
                            request_header: header(&token),
                            subscription_ids: Some(vec![1]),
                            send_initial_values: false,
                        }
                        .into(),
                        "6" => HistoryReadRequest {
                            request_header: header(&token),
                            history_read_details: ExtensionObject::null(),
                            timestamps_to_return: TimestampsToReturn::Both,
                            release_continuation_points: false,
                            nodes_to_read: None,
                        }
                        .into(),
                        "7" => DeleteNodesRequest {
                            request_header: header(&token),
                            nodes_to_delete: None,
                        }
                        .into(),
                        _ => QueryFirstRequest {
                            request_header: header(&token),
                            view: ViewDescription {
                                view_id: NodeId::null(),
                                timestamp: DateTime::null(),
                                view_version: 0,
                            },
                            node_types: None,
                            filter: ContentFilter { elements: None },
                            max_data_sets_to_return: 0,
                            max_references_to_return: 0,
                        }
                        .into(),
                    },
                    _ => return ("bad-op".to_string(), Verdict::Ok),
                };
                let other_kind: Option<String> = match rest {
                    ["other", k] => Some(k.to_string()),
                    _ => None,
                };
                let resp = self.timed_call(msg);
                let (txt, fault) = match &resp {
                    Some(SupportedMessage::WriteResponse(r)) => {
                        let ok = r.results.as_ref().map(|v| v.len() == 1 && v[0].is_good()).unwrap_or(false);
                        ((if ok { "ok write" } else { "ok write-item-failed" }).to_string(), false)
                    }
                    Some(SupportedMessage::ReadResponse(r)) => {
                        let v = match r.results.as_ref().and_then(|v| v.first()).and_then(|d| d.value.clone()) {
                            Some(Variant::UInt32(v)) => v as i64,
                            _ => -1,
                        };
                        (format!("ok read {}", v), false)
                    }
                    Some(SupportedMessage::BrowseResponse(r)) => {
                        let ok = r.results.as_ref().map(|v| v.len() == 1 && v[0].status_code.is_good()).unwrap_or(false);
                        ((if ok { "ok browse" } else { "ok browse-item-failed" }).to_string(), false)
                    }
                    Some(SupportedMessage::CreateSubscriptionResponse(_)) => {
                        let n = self
                            .conn
                            .sessions()
                            .iter()
                            .find(|s| s.read().authentication_token() == &token)
                            .map(|s| session_subscription_count(&s.read()) as i64)
                            .unwrap_or(-1);
                        (format!("ok sub {}", n), false)
                    }
                    // session validation answers with these two codes only; any other fault comes from the
                    // service itself, i.e. the request got past validation (as does an asynchronous Publish)
                    Some(m @ SupportedMessage::ServiceFault(_))
                        if other_kind.is_none()
                            || status_of(m) == StatusCode::BadSessionIdInvalid
                            || status_of(m) == StatusCode::BadSessionNotActivated =>
                    {
                        (format!("err {}", status_of(m).name()), true)
                    }
                    Some(_) | None if other_kind.is_some() => (format!("ok other {}", other_kind.as_ref().unwrap()), false),
                    Some(_) => ("err unexpected-response".to_string(), true),
                    None => ("err none".to_string(), true),
                };
                // ---- the property, on the implementation's answers alone ----
                let class = match (*t, idx) {
                    ("0", _) => "null-token",
                    ("o", _) => "other-connection-token",
                    (_, None) => "unissued-token",
                    (_, Some(i)) if !self.refs[i].open => "closed-token",
                    (_, Some(i)) if !self.refs[i].activated => "not-activated",
                    (_, Some(i)) if self.refs[i].chan != self.chan => "other-channel",
                    _ => "live-or-timed-out",
                };
                if !fault {
                    let live = match idx {
                        Some(i) => {
                            let r = &self.refs[i];
                            let idle = self.vnow - r.last;
                            r.open && r.activated && r.chan == self.chan && !(r.timeout > 0.0 && (idle as f64) > r.timeout)
                        }
                        None => false,
                    };
                    if !live {
                        verdict = Verdict::fail("service_only_if", class, format!("service carried out for a token that is not live ({})", class));
                    } else if let Some(i) = idx {
                        self.refs[i].last = self.vnow;
                    }
                } else {
                    let after = self.probe(false);
                    if after != before {
                        verdict = Verdict::fail("fault_changes_nothing", class, format!("before {} after {}", before, after));
                    }
                }
                txt
            }
            ["createx", kind] => {
                let mut req = create_session_request(1000.0);
                if let SupportedMessage::CreateSessionRequest(ref mut r) = req {
                    r.endpoint_url = match *kind {
                        "null" => UAString::null(),
                        "path" => UAString::from("opc.tcp://localhost:4855/no/such/path"),
                        _ => UAString::from("not a url"),
                    };
                }
                match self.timed_call(req) {
                    Some(SupportedMessage::CreateSessionResponse(_)) => {
                        verdict = Verdict::fail("create_needs_endpoint", "createx", "session created for an endpoint url that matches no endpoint");
                        "ok created".to_string()
                    }
                    Some(m) => format!("err {}", status_of(&m).name()),
                    None => "err none".to_string(),
                }
            }
            ["disc", ..] => {
                let h = header(&if toks.get(1) == Some(&"tok") { self.token("1") } else { NodeId::null() });
                let req: SupportedMessage = match toks.get(1).copied() {
                    Some("find") => FindServersRequest {
                        request_header: h,
                        endpoint_url: UAString::from(ENDPOINT_URL),
                        locale_ids: None,
                        server_uris: None,
                    }
                    .into(),
                    _ => GetEndpointsRequest {
                        request_header: h,
                        endpoint_url: UAString::from(ENDPOINT_URL),
                        locale_ids: None,
                        profile_uris: None,
                    }
                    .into(),
                };
                match self.timed_call(req) {
                    Some(SupportedMessage::GetEndpointsResponse(_)) | Some(SupportedMessage::FindServersResponse(_)) => "ok".to_string(),
                    Some(m) => {
                        verdict = Verdict::fail("discovery_always", "disc", "discovery refused");
                        format!("err {}", status_of(&m).name())
                    }
                    None => "err none".to_string(),
                }
            }
            ["setchan", c] => {
                self.chan = c.parse().unwrap();
                self.conn.set_channel_id(self.chan);
                "ok".to_string()
            }
            ["elapse", ms] => {
                self.vnow += ms.parse::<i64>().unwrap();
                "ok".to_string()
            }
            _ => return ("bad-op".to_string(), Verdict::Ok),
        };
        let _ = fx;
        (format!("{} | {}", res, self.probe(true)), verdict)
    }
}

impl Runner for R {
    fn step(&mut self, toks: &[&str]) -> (String, Verdict) {
        let line = toks.join(" ");
        if let ["reset", c] = toks {
            self.st = None; // drop the previous connection first (cleans the shared address space)
            self.st = Some(S::new(c.parse().unwrap_or(1)));
            self.history.clear();
        }
        if self.st.is_none() {
            self.st = Some(S::new(1));
        }
        self.history.push(line);
        let mut tries = 0;
        loop {
            let r = self.st.as_mut().unwrap().exec(toks);
            if !self.st.as_ref().unwrap().glitch || tries >= 5 {
                return r;
            }
            // a scheduling delay made a boundary comparison ambiguous: rebuild the case and retry
            tries += 1;
            'rebuild: loop {
                let chan = self.history[0].split(' ').nth(1).and_then(|c| c.parse().ok()).unwrap_or(1);
                self.st = None;
                self.st = Some(S::new(chan));
                let n = self.history.len();
                for l in self.history[..n - 1].to_vec() {
                    let t: Vec<&str> = l.split(' ').collect();
                    let _ = self.st.as_mut().unwrap().exec(&t);
                    if self.st.as_ref().unwrap().glitch {
                        continue 'rebuild;
                    }
                }
                break;
            }
        }
    }
}
