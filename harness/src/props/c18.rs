//! C18 — certificate trust verdicts follow the configured trust store.
//!
//! Real code: `CertificateStore::validate_or_reject_application_instance_cert` on a real store over a
//! fresh scratch PKI directory per op, with real certificates (3 keys × {valid, not yet valid,
//! expired}, SAN = application URI + DNS name), byte-identical / renamed-other / garbage files in
//! `trusted/`, files in `rejected/`, all three flags, all policies, host name and URI given or not.
//! Oracle: the property's three sentences on the status and the directory contents.
use crate::common::*;
use crate::fixtures;
use opcua::crypto::{CertificateStore, SecurityPolicy, X509};
use opcua::types::ByteString;
use openssl::asn1::Asn1Time;
use openssl::hash::MessageDigest;
use openssl::pkey::PKey;
use openssl::rsa::Rsa;
use openssl::x509::extension::SubjectAlternativeName;
use openssl::x509::{X509Builder, X509NameBuilder};
use std::sync::atomic::{AtomicUsize, Ordering};
use std::sync::OnceLock;

pub struct C18;
pub static P: C18 = C18;

const BITS: [u32; 4] = [1024, 2048, 3072, 4096];
const APP_URI: &str = "urn:verif:c18";
const HOST: &str = "verifhost";

struct Certs {
    /// [bits index][time index: 0 valid, 1 not yet valid, 2 expired] → (certificate, DER)
    certs: Vec<Vec<(X509, Vec<u8>)>>,
}
unsafe impl Sync for Certs {}
unsafe impl Send for Certs {}

fn make_cert(key: &PKey<openssl::pkey::Private>, cn: &str, from: i64, to: i64) -> (X509, Vec<u8>) {
    let mut b = X509Builder::new().unwrap();
    b.set_version(2).unwrap();
    let mut name = X509NameBuilder::new().unwrap();
    name.append_entry_by_text("CN", cn).unwrap();
    name.append_entry_by_text("O", "verif").unwrap();
    let name = name.build();
    b.set_subject_name(&name).unwrap();
    b.set_issuer_name(&name).unwrap();
    b.set_not_before(&Asn1Time::from_unix(from).unwrap()).unwrap();
    b.set_not_after(&Asn1Time::from_unix(to).unwrap()).unwrap();
    b.set_pubkey(key).unwrap();
    let mut san = SubjectAlternativeName::new();
    san.uri(APP_URI);
    san.dns(HOST);
    san.ip("127.0.0.1");
    let san = san.build(&b.x509v3_context(None, None)).unwrap();
    b.append_extension(san).unwrap();
    b.sign(key, MessageDigest::sha256()).unwrap();
    let der = b.build().to_der().unwrap();
    let x = X509::from_byte_string(&ByteString { value: Some(der.clone()) }).expect("certificate");
    (x, der)
}

fn certs() -> &'static Certs {
    static C: OnceLock<Certs> = OnceLock::new();
    C.get_or_init(|| {
        let now = chrono::Utc::now().timestamp();
        let day = 86_400;
        let certs = BITS
            .iter()
            .map(|bits| {
                let key = PKey::from_rsa(Rsa::generate(*bits).unwrap()).unwrap();
                vec![
                    make_cert(&key, &format!("valid{}", bits), now - day, now + 365 * day),
                    make_cert(&key, &format!("notyet{}", bits), now + day, now + 365 * day),
                    make_cert(&key, &format!("expired{}", bits), now - 10 * day, now - day),
                ]
            })
            .collect();
        Certs { certs }
    })
}

const POLICIES: [&str; 7] = ["none", "basic128rsa15", "basic256", "basic256sha256", "aes128sha256rsaoaep", "aes256sha256rsapss", "unknown"];

fn policy(s: &str) -> Option<SecurityPolicy> {
    Some(match s {
        "none" => SecurityPolicy::None,
        "basic128rsa15" => SecurityPolicy::Basic128Rsa15,
        "basic256" => SecurityPolicy::Basic256,
        "basic256sha256" => SecurityPolicy::Basic256Sha256,
        "aes128sha256rsaoaep" => SecurityPolicy::Aes128Sha256RsaOaep,
        "aes256sha256rsapss" => SecurityPolicy::Aes256Sha256RsaPss,
        "unknown" => SecurityPolicy::Unknown,
        _ => return None,
    })
}

/// key lengths per security profile, written by hand from OPC UA Part 7
fn part7_key_ok(p: &str, bits: u32) -> Option<bool> {
    match p {
        "basic128rsa15" | "basic256" => Some((1024..=2048).contains(&bits)),
        "basic256sha256" | "aes128sha256rsaoaep" | "aes256sha256rsapss" => Some((2048..=4096).contains(&bits)),
        _ => None,
    }
}

#[allow(clippy::too_many_arguments)]
fn row(tu: u8, sv: u8, ct: u8, rd: u8, ir: u8, td: u8, tf: u8, pol: &str, bits: u32, tm: u8, ho: u8, ur: u8) -> String {
    format!("val {} {} {} {} {} {} {} {} {} {} {} {}", tu, sv, ct, rd, ir, td, tf, pol, bits, tm, ho, ur)
}

impl Prop for C18 {
    fn id(&self) -> &'static str {
        "C18"
    }

    fn gen(&self, rng: &mut Rng, n: usize, tier: Tier, out: &mut Vec<String>) {
        if tier == Tier::Thorough && n >= 100_000 {
            // the whole table (impossible file-system combinations pruned), 16 rows per case
            let mut k = 0usize;
            for tu in 0..2u8 { for sv in 0..2u8 { for ct in 0..2u8 { for rd in 0..2u8 { for ir in 0..2u8 { for td in 0..2u8 {
            for tf in 0..4u8 { for pol in POLICIES { for bits in BITS { for tm in 0..3u8 { for ho in 0..4u8 { for ur in 0..3u8 {
                if (ir == 1 && rd == 0) || (tf != 0 && td == 0) {
                    continue;
                }
                if k % 16 == 0 {
                    out.push("reset".to_string());
                }
                k += 1;
                out.push(row(tu, sv, ct, rd, ir, td, tf, pol, bits, tm, ho, ur));
            }}}}}} }}}}}}
            return;
        }
        // Small-scope enumeration (every tier): (A) every flag / directory / file / validity / host / URI
        // combination with the (policy, key size) pairs cycling; (B) for the rows that reach the key-length
        // check, every policy × key size.  A `None`/`Unknown` row panics by design and ends its case.
        let mut k = 0usize;
        let mut push = |out: &mut Vec<String>, line: String, ends_case: bool| {
            if k % 16 == 0 {
                out.push("reset".to_string());
            }
            k += 1;
            out.push(line);
            if ends_case {
                k = 0;
            }
        };
        let mut combos: Vec<(&str, u32)> = Vec::new();
        for pol in POLICIES {
            for bits in BITS {
                combos.push((pol, bits));
            }
        }
        let mut c = 0usize;
        for tu in 0..2u8 { for sv in 0..2u8 { for ct in 0..2u8 { for rd in 0..2u8 { for ir in 0..2u8 { for td in 0..2u8 {
        for tf in 0..4u8 { for tm in 0..3u8 { for ho in 0..4u8 { for ur in 0..3u8 {
            if (ir == 1 && rd == 0) || (tf != 0 && td == 0) {
                continue;
            }
            // op kind, (policy, key size) and second flag triple are drawn from a mix of the row counter, NOT
            // from the counter itself: a plain `c % 4` aliased with the 12-row host × URI block, so that `vonly`
            // only ever met (host, URI) ∈ {(0,0),(1,1),(2,2)} (found by the model mutation analysis)
            let mut h = (c as u64).wrapping_add(0x9E37_79B9_7F4A_7C15).wrapping_mul(0xBF58_476D_1CE4_E5B9);
            h ^= h >> 29;
            h = h.wrapping_mul(0x94D0_49BB_1331_11EB);
            h ^= h >> 32;
            let (pol, bits) = combos[(h >> 8) as usize % combos.len()];
            let kind = h % 4;
            let f = (h >> 20) % 8;
            c += 1;
            let ends = pol == "none" || pol == "unknown";
            let line = row(tu, sv, ct, rd, ir, td, tf, pol, bits, tm, ho, ur);
            match kind {
                // `validate_application_instance_cert` on its own
                1 => push(out, line.replacen("val", "vonly", 1), ends),
                // the store asked twice, flags changed in between (all 8 second flag triples)
                2 | 3 => {
                    push(out, format!("{} {} {} {}", line.replacen("val", "val2", 1), f & 1, (f >> 1) & 1, (f >> 2) & 1), ends);
                }
                _ => push(out, line, ends),
            }
        }}}} }}}}}}
        for (tu, tf) in [(0u8, 1u8), (1, 0), (1, 1)] {
            for (pol, bits) in &combos { for sv in 0..2u8 { for tm in 0..3u8 { for (ho, ur) in [(1u8, 1u8), (2, 1), (1, 2), (0, 0)] {
                let ends = *pol == "none" || *pol == "unknown";
                let line = row(tu, sv, 1, 1, 0, 1, tf, pol, *bits, tm, ho, ur);
                c += 1;
                let h = (c as u64).wrapping_mul(0x9E37_79B9_7F4A_7C15) >> 33;
                match h % 3 {
                    1 => push(out, line.replacen("val", "vonly", 1), ends),
                    2 => push(out, format!("{} {} {} {}", line.replacen("val", "val2", 1), (h >> 3) & 1, (h >> 4) & 1, (h >> 5) & 1), ends),
                    _ => push(out, line, ends),
                }
            }}}}
        }
        // Long-lived stores: every sequence of up to three single-setter calls (each touching ONE flag, the others
        // never re-set), a validation after every call, for a trusted certificate in each validity state; then
        // random longer sequences over every directory state.
        let setters = ["setskip 0", "setskip 1", "settime 0", "settime 1", "settrust 0", "settrust 1"];
        for tm in 0..3u8 {
            for a in 0..setters.len() {
                for b2 in 0..=setters.len() {
                    for c2 in 0..=setters.len() {
                        if b2 == setters.len() && c2 != setters.len() {
                            continue;
                        }
                        // a failed validation writes the certificate to rejected/ and thereby decides every later
                        // answer, so each setter sequence runs with a validation (0) before and after every call,
                        // (1) after every call only, (2) at the very end only
                        for variant in 0..3 {
                            out.push("reset".to_string());
                            out.push(format!("store 1 0 1 1 2048 {}", tm));
                            if variant == 0 {
                                out.push("check basic256sha256 1 1".to_string());
                            }
                            for i in [a, b2, c2] {
                                if i < setters.len() {
                                    out.push(setters[i].to_string());
                                    if variant < 2 {
                                        out.push("check basic256sha256 1 1".to_string());
                                    }
                                }
                            }
                            if variant == 2 {
                                out.push("check basic256sha256 1 1".to_string());
                            }
                        }
                    }
                }
            }
        }
        for _ in 0..(n * 2) {
            out.push("reset".to_string());
            let rd = rng.chance(9, 10) as u8;
            let td = rng.chance(9, 10) as u8;
            let ir = if rd == 1 { rng.chance(1, 10) as u8 } else { 0 };
            let tf = if td == 1 { rng.weighted(&[4, 6, 1, 1]) as u8 } else { 0 };
            out.push(format!("store {} {} {} {} {} {}", rd, ir, td, tf, rng.pick(&BITS), rng.weighted(&[2, 1, 1])));
            let len = rng.range(3, 10);
            let first_check = rng.range(0, len); // no validation before this step (a failed one fills rejected/)
            for step in 0..len {
                if step < first_check || rng.chance(1, 2) {
                    out.push(rng.pick(&setters).to_string());
                } else {
                    let pol = POLICIES[1 + rng.below(5) as usize];
                    out.push(format!("check {} {} {}", pol, rng.weighted(&[2, 4, 1, 1]), rng.weighted(&[2, 4, 1])));
                }
            }
        }
        for _ in 0..n {
            out.push("reset".to_string());
            for i in 0..4 {
                let rd = rng.chance(9, 10) as u8;
                let td = rng.chance(9, 10) as u8;
                let ir = if rd == 1 { rng.chance(1, 8) as u8 } else { 0 };
                let tf = if td == 1 { rng.weighted(&[4, 5, 1, 1]) as u8 } else { 0 };
                // None/Unknown panic by design, which ends the case: only as the last op
                let pol = if i == 3 && rng.chance(1, 6) { *rng.pick(&["none", "unknown"]) } else { POLICIES[1 + rng.below(5) as usize] };
                let bits = *rng.pick(&BITS);
                out.push(row(
                    rng.chance(1, 2) as u8,
                    rng.chance(1, 3) as u8,
                    rng.chance(2, 3) as u8,
                    rd,
                    ir,
                    td,
                    tf,
                    pol,
                    bits,
                    rng.weighted(&[3, 1, 1]) as u8,
                    rng.weighted(&[2, 3, 1, 1]) as u8,
                    rng.weighted(&[2, 3, 1]) as u8,
                ));
            }
        }
    }

    fn runner(&self) -> Box<dyn Runner> {
        Box::new(R { live: None })
    }
}

struct R {
    live: Option<LiveStore>,
}

/// A long-lived store of the current case (`store` op) and the flags AS LAST SET INDIVIDUALLY by the
/// case's setter calls (the oracle's own bookkeeping, from the property text: the configured flags)
struct LiveStore {
    store: CertificateStore,
    _guard: CleanUp,
    bits: u32,
    bi: usize,
    tm: usize,
    tu: bool,
    sv: bool,
    ct: bool,
}

static COUNTER: AtomicUsize = AtomicUsize::new(0);

impl Runner for R {
    fn step(&mut self, toks: &[&str]) -> (String, Verdict) {
        let bad = || ("bad-op".to_string(), Verdict::Ok);
        match toks {
            ["reset"] => ("ok".to_string(), Verdict::Ok),
            [kind @ ("val" | "vonly" | "val2"), tu, sv, ct, rd, ir, td, tf, pol, bits, tm, ho, ur, rest @ ..] => {
                let second: Option<(bool, bool, bool)> = match (*kind, rest) {
                    ("val2", [a, b2, c]) => match (*a, *b2, *c) {
                        ("0" | "1", "0" | "1", "0" | "1") => Some((*a == "1", *b2 == "1", *c == "1")),
                        _ => return bad(),
                    },
                    ("val" | "vonly", []) => None,
                    _ => return bad(),
                };
                let flag = |s: &str| match s {
                    "0" => Some(false),
                    "1" => Some(true),
                    _ => None,
                };
                let (Some(tu), Some(sv), Some(ct), Some(rd), Some(ir), Some(td)) = (flag(tu), flag(sv), flag(ct), flag(rd), flag(ir), flag(td)) else {
                    return bad();
                };
                let (Ok(tf), Some(policy), Ok(bits), Ok(tm), Ok(ho), Ok(ur)) =
                    (tf.parse::<u8>(), policy(pol), bits.parse::<u32>(), tm.parse::<usize>(), ho.parse::<u8>(), ur.parse::<u8>())
                else {
                    return bad();
                };
                let Some(bi) = BITS.iter().position(|b| *b == bits) else { return bad() };
                if tf > 3 || tm > 2 || ho > 3 || ur > 2 || (ir && !rd) || (tf != 0 && !td) {
                    return bad();
                }
                let (cert, der) = &certs().certs[bi][tm];
                // another certificate (same key size, other validity) to plant under this one's name
                let (_, other_der) = &certs().certs[bi][(tm + 1) % 3];

                // --- a fresh PKI directory in the requested state
                let dir = fixtures::scratch_dir().join("c18").join(format!("{}", COUNTER.fetch_add(1, Ordering::SeqCst)));
                let _ = std::fs::remove_dir_all(&dir);
                std::fs::create_dir_all(&dir).unwrap();
                let mut store = CertificateStore::new(&dir);
                store.set_trust_unknown_certs(tu);
                store.set_skip_verify_certs(sv);
                store.set_check_time(ct);
                let name = CertificateStore::cert_file_name(cert);
                let rej_path = store.rejected_certs_dir().join(&name);
                let tr_path = store.trusted_certs_dir().join(&name);
                if rd {
                    std::fs::create_dir_all(store.rejected_certs_dir()).unwrap();
                }
                if td {
                    std::fs::create_dir_all(store.trusted_certs_dir()).unwrap();
                }
                if ir {
                    std::fs::write(&rej_path, der).unwrap();
                }
                match tf {
                    1 => std::fs::write(&tr_path, der).unwrap(),
                    2 => std::fs::write(&tr_path, other_der).unwrap(),
                    3 => std::fs::write(&tr_path, b"this is not a certificate").unwrap(),
                    _ => {}
                }
                let host = match ho {
                    0 => None,
                    1 => Some(if bits == 2048 { "VerifHost" } else { HOST }), // host names compare case-insensitively
                    2 => Some("otherhost"),
                    _ => Some(""),
                };
                let uri = match ur {
                    0 => None,
                    1 => Some(APP_URI),
                    _ => Some("urn:verif:other"),
                };

                // --- the real call (a panic for None/Unknown unwinds to main.rs → `panic`)
                let guard = CleanUp(dir.clone());
                let mut status = if *kind == "vonly" {
                    store.validate_application_instance_cert(cert, policy, host, uri)
                } else {
                    store.validate_or_reject_application_instance_cert(cert, policy, host, uri)
                };
                let first = status;
                let rej_mid = rej_path.exists();
                let (mut sv, mut ct) = (sv, ct);
                if let Some((tu2, sv2, ct2)) = second {
                    // the same store is asked again about the same certificate, with the flags changed
                    store.set_trust_unknown_certs(tu2);
                    store.set_skip_verify_certs(sv2);
                    store.set_check_time(ct2);
                    sv = sv2;
                    ct = ct2;
                    status = store.validate_or_reject_application_instance_cert(cert, policy, host, uri);
                }
                let rej_after = rej_path.exists();
                let tr_after = tr_path.exists();
                let trusted_bytes = std::fs::read(&tr_path).ok();
                drop(guard);

                let res = if second.is_some() {
                    format!("ok {} then ok {} rej={} tr={}", first.name(), status.name(), b(rej_after), b(tr_after))
                } else {
                    format!("ok {} rej={} tr={}", status.name(), b(rej_after), b(tr_after))
                };

                // --- the property, on the implementation's answer and the directories alone
                let class = format!("tu{}sv{}ct{}-rd{}ir{}td{}tf{}-{}-{}-tm{}ho{}ur{}", b(tu), b(sv), b(ct), b(rd), b(ir), b(td), tf, pol, bits, tm, ho, ur);
                let v = if second.is_some() {
                    // second answer, judged on the state the first call left behind
                    if status.is_good() {
                        let key_ok = part7_key_ok(pol, bits) == Some(true);
                        let checks_ok = sv || ((!ct || tm == 0) && (ho == 0 || ho == 1) && (ur == 0 || ur == 1));
                        if rej_mid {
                            Verdict::fail("accepted_only_if", &class, "accepted although the first call had put it in the rejected store")
                        } else if trusted_bytes.as_deref() != Some(&der[..]) {
                            Verdict::fail("accepted_only_if", &class, "accepted but the trusted copy is not byte-identical")
                        } else if !key_ok || !checks_ok {
                            Verdict::fail("accepted_only_if", &class, "accepted although key length / validity / host / URI checks should fail")
                        } else if rej_after {
                            Verdict::fail("accepted_never_rejected", &class, "accepted certificate is in the rejected store")
                        } else {
                            Verdict::Ok
                        }
                    } else {
                        Verdict::Ok
                    }
                } else if status.is_good() {
                    let trusted_ok = tf == 1 || (tf == 0 && tu);
                    let key_ok = part7_key_ok(pol, bits) == Some(true);
                    let checks_ok = sv || ((!ct || tm == 0) && (ho == 0 || ho == 1) && (ur == 0 || ur == 1));
                    if ir {
                        Verdict::fail("accepted_only_if", &class, "accepted although it is in the rejected store")
                    } else if !trusted_ok {
                        Verdict::fail("accepted_only_if", &class, "accepted although neither trusted byte-identically nor trust-unknown")
                    } else if trusted_bytes.as_deref() != Some(&der[..]) {
                        Verdict::fail("accepted_only_if", &class, "accepted but the trusted copy is not byte-identical")
                    } else if !key_ok {
                        Verdict::fail("accepted_only_if", &class, "accepted with a key length invalid for the policy")
                    } else if !checks_ok {
                        Verdict::fail("accepted_only_if", &class, "accepted although validity / host name / URI checks should fail")
                    } else if rej_after {
                        Verdict::fail("accepted_never_rejected", &class, "accepted certificate was placed in the rejected store")
                    } else {
                        Verdict::Ok
                    }
                } else if rd && td && !ir && tf == 0 && !tu && !rej_after {
                    Verdict::fail("unknown_rejected", &class, "unknown untrusted certificate was not placed in the rejected store")
                } else {
                    Verdict::Ok
                };
                (res, v)
            }
            ["store", rd, ir, td, tf, bits, tm] => {
                let flag = |s: &str| match s {
                    "0" => Some(false),
                    "1" => Some(true),
                    _ => None,
                };
                let (Some(rd), Some(ir), Some(td), Ok(tf), Ok(bits), Ok(tm)) =
                    (flag(rd), flag(ir), flag(td), tf.parse::<u8>(), bits.parse::<u32>(), tm.parse::<usize>())
                else {
                    return bad();
                };
                let Some(bi) = BITS.iter().position(|b| *b == bits) else { return bad() };
                if tf > 3 || tm > 2 || (ir && !rd) || (tf != 0 && !td) {
                    return bad();
                }
                let (cert, der) = &certs().certs[bi][tm];
                let (_, other_der) = &certs().certs[bi][(tm + 1) % 3];
                let dir = fixtures::scratch_dir().join("c18").join(format!("live{}", COUNTER.fetch_add(1, Ordering::SeqCst)));
                let _ = std::fs::remove_dir_all(&dir);
                std::fs::create_dir_all(&dir).unwrap();
                // flags are those of `CertificateStore::new`: nothing is set here
                let store = CertificateStore::new(&dir);
                let name = CertificateStore::cert_file_name(cert);
                if rd {
                    std::fs::create_dir_all(store.rejected_certs_dir()).unwrap();
                }
                if td {
                    std::fs::create_dir_all(store.trusted_certs_dir()).unwrap();
                }
                if ir {
                    std::fs::write(store.rejected_certs_dir().join(&name), der).unwrap();
                }
                match tf {
                    1 => std::fs::write(store.trusted_certs_dir().join(&name), der).unwrap(),
                    2 => std::fs::write(store.trusted_certs_dir().join(&name), other_der).unwrap(),
                    3 => std::fs::write(store.trusted_certs_dir().join(&name), b"this is not a certificate").unwrap(),
                    _ => {}
                }
                // documented defaults of a new store: check_time on, skip_verify off, trust_unknown off
                self.live = Some(LiveStore { store, _guard: CleanUp(dir), bits, bi, tm, tu: false, sv: false, ct: true });
                ("ok".to_string(), Verdict::Ok)
            }
            [setter @ ("setskip" | "settime" | "settrust"), v] => {
                let (Some(l), Some(v)) = (self.live.as_mut(), match *v { "0" => Some(false), "1" => Some(true), _ => None }) else { return bad() };
                // exactly ONE setter is called; the other flags are never re-set
                match *setter {
                    "setskip" => {
                        l.store.set_skip_verify_certs(v);
                        l.sv = v;
                    }
                    "settime" => {
                        l.store.set_check_time(v);
                        l.ct = v;
                    }
                    _ => {
                        l.store.set_trust_unknown_certs(v);
                        l.tu = v;
                    }
                }
                ("ok".to_string(), Verdict::Ok)
            }
            ["check", pol, ho, ur] => {
                let (Some(l), Some(policy), Ok(ho), Ok(ur)) = (self.live.as_ref(), policy(pol), ho.parse::<u8>(), ur.parse::<u8>()) else { return bad() };
                if ho > 3 || ur > 2 {
                    return bad();
                }
                let (cert, der) = &certs().certs[l.bi][l.tm];
                let name = CertificateStore::cert_file_name(cert);
                let rej_path = l.store.rejected_certs_dir().join(&name);
                let tr_path = l.store.trusted_certs_dir().join(&name);
                let host = match ho {
                    0 => None,
                    1 => Some(if l.bits == 2048 { "VerifHost" } else { HOST }),
                    2 => Some("otherhost"),
                    _ => Some(""),
                };
                let uri = match ur {
                    0 => None,
                    1 => Some(APP_URI),
                    _ => Some("urn:verif:other"),
                };
                let rej_before = rej_path.exists();
                let tr_before = std::fs::read(&tr_path).ok();
                let status = l.store.validate_or_reject_application_instance_cert(cert, policy, host, uri);
                let rej_after = rej_path.exists();
                let trusted_bytes = std::fs::read(&tr_path).ok();
                let res = format!("ok {} rej={} tr={}", status.name(), b(rej_after), b(trusted_bytes.is_some()));
                let class = format!("live-tu{}sv{}ct{}-{}-{}-tm{}ho{}ur{}", b(l.tu), b(l.sv), b(l.ct), pol, l.bits, l.tm, ho, ur);
                // the property, with the flags as the case last set them one by one
                let v = if status.is_good() {
                    let trusted_ok = tr_before.as_deref() == Some(&der[..]) || (tr_before.is_none() && l.tu);
                    let key_ok = part7_key_ok(pol, l.bits) == Some(true);
                    let checks_ok = l.sv || ((!l.ct || l.tm == 0) && (ho == 0 || ho == 1) && (ur == 0 || ur == 1));
                    if rej_before {
                        Verdict::fail("accepted_only_if", &class, "accepted although it is in the rejected store")
                    } else if !trusted_ok || trusted_bytes.as_deref() != Some(&der[..]) {
                        Verdict::fail("accepted_only_if", &class, "accepted although neither trusted byte-identically nor trust-unknown")
                    } else if !key_ok {
                        Verdict::fail("accepted_only_if", &class, "accepted with a key length invalid for the policy")
                    } else if !checks_ok {
                        Verdict::fail("accepted_only_if", &class, "accepted although the configured validity / host name / URI checks should fail")
                    } else if rej_after {
                        Verdict::fail("accepted_never_rejected", &class, "accepted certificate was placed in the rejected store")
                    } else {
                        Verdict::Ok
                    }
                } else if !rej_before && tr_before.is_none() && !l.tu && !rej_after
                    && l.store.rejected_certs_dir().exists() && l.store.trusted_certs_dir().exists()
                {
                    Verdict::fail("unknown_rejected", &class, "unknown untrusted certificate was not placed in the rejected store")
                } else {
                    Verdict::Ok
                };
                (res, v)
            }
            _ => bad(),
        }
    }

    /// `None`/`Unknown` have no key lengths (`panic!("Invalid policy")`); the callers never pass them
    fn on_panic(&self, toks: &[&str]) -> Verdict {
        match toks {
            ["val" | "vonly" | "val2", _, _, _, _, _, _, _, "none" | "unknown", ..] => Verdict::Ok,
            ["check", "none" | "unknown", ..] => Verdict::Ok,
            _ => Verdict::fail("no_panic", "-", "implementation panicked"),
        }
    }
}

/// removes the scratch PKI directory, also when the call panicked
struct CleanUp(std::path::PathBuf);
impl Drop for CleanUp {
    fn drop(&mut self) {
        let _ = std::fs::remove_dir_all(&self.0);
    }
}
